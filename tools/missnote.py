#!/usr/bin/env python3
"""missnote.py <seed name> <text> — records in seeded/<name>/meta.json what the checks first missed and what was added."""
import json, sys
p = "/verif/seeded/%s/meta.json" % sys.argv[1]
d = json.load(open(p))
d["initially_missed"] = sys.argv[2]
json.dump(d, open(p, "w"), indent=1, ensure_ascii=False)
