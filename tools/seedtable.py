#!/venv/bin/python
"""Prints the markdown table of /verif/seeded/*/meta.json for DESIGN.md section 9.5."""
import glob, json, os
print("| id | change (one line) | needs | caught by | first run |")
print("|---|---|---|---|---|")
for d in sorted(glob.glob('/verif/seeded/*')):
    m = json.load(open(d + '/meta.json'))
    c = m.get('confirmed_by_lead', {}).get('checks_run_with_VERIF_REPO_pointing_at_the_patched_copy', {})
    caught = ', '.join(p for p, r in c.items() if r['exit'] == 1) or '—'
    what = (m.get('what') or '').replace('\n', ' ').replace('|', '/')
    needs = (m.get('needs') or '').replace('\n', ' ').replace('|', '/')
    first = 'missed; ' + m['initially_missed'].replace('|', '/') if 'initially_missed' in m else 'caught'
    print("| %s | %s | %s | %s | %s |" % (os.path.basename(d), what[:160], needs[:140], caught, first[:220]))
