#!/usr/bin/env python3
"""benigntest.py <dir containing patch.diff/meta.json> <name> <pid>[,<pid>...] [--tier quick]

Soundness test: an independently written PROPERTY-PRESERVING change (refactor).  Applies it to a scratch copy of
/repo HEAD, builds the engine, runs the repository tests (118 passed expected) and the named checks with
VERIF_REPO=<patched copy>.  Every check is expected to exit 0; an alarm is either a defect of the check (to be
corrected) or a change that is not benign after all (to be argued in the record).  Stores the patch and the result
under /verif/benign/<name>/ and removes the copy."""
import json
import os
import shutil
import subprocess
import sys

args = sys.argv[1:]
tier = "quick"
if "--tier" in args:
    i = args.index("--tier")
    tier = args[i + 1]
    del args[i:i + 2]
src, name, pids = args[0], args[1], args[2].split(",")
KNOWN_FAIL = ["tests/test_loadrds.py::test_load_rds_multifile_fully_heterogenous_units_systems",
              "tests/test_loadrds.py::test_load_rds_multifile_units_system_inherited_from_rds_only",
              "tests/test_loadrds.py::test_load_rds_multifile_unspecified_units_systems",
              "tests/test_simulate.py::test_save_output_load_output"]


def sh(cmd, **kw):
    return subprocess.run(cmd, stdout=subprocess.PIPE, stderr=subprocess.STDOUT, text=True, **kw)


patched = sh(["/verif/tools/scratch.sh", "benign-%s-%d" % (name, os.getpid())]).stdout.strip().splitlines()[-1]
res = {}
try:
    r = sh(["patch", "-p1", "--binary", "-i", os.path.join(os.path.abspath(src), "patch.diff")], cwd=patched)
    res["patch_applies"] = (r.returncode == 0, r.stdout[-300:])
    so = os.path.join(patched, "src/strengths/engines/strengths_engine/engine.cpython-312-x86_64-linux-gnu.so")
    r = sh(["g++", "-O1", "-std=c++11", "-shared", "-fPIC", "-o", so, os.path.join(patched, "src/strengths/engines/strengths_engine/src/engine.cpp")])
    res["compiles"] = r.returncode == 0
    env = dict(os.environ, PYTHONPATH=os.path.join(patched, "src"))
    cmd = ["/venv/bin/python", "-m", "pytest", "-q", "-p", "no:cacheprovider", "--timeout=900"]
    for k in KNOWN_FAIL:
        cmd += ["--deselect", k]
    r = sh(cmd, cwd=patched, env=env)
    res["tests"] = ([l for l in r.stdout.splitlines() if " passed" in l or " failed" in l or " error" in l] or ["?"])[-1].strip()
    res["checks"] = {}
    for pid in pids:
        env = dict(os.environ, VERIF_REPO=patched, VERIF_OUT=patched + ".out")
        r = sh(["/venv/bin/python", "/verif/run.py", pid, "--tier", tier], env=env, cwd="/verif")
        lines = r.stdout.strip().splitlines()
        keys = [l.strip()[:400] for l in lines if l.strip().startswith("key=")]
        res["checks"][pid] = {"exit": r.returncode, "summary": lines[-1][:300] if lines else "", "keys": keys[:8]}
finally:
    shutil.rmtree(patched, ignore_errors=True)
    shutil.rmtree(patched + ".out", ignore_errors=True)

dst = os.path.join("/verif/benign", name)
os.makedirs(dst, exist_ok=True)
if os.path.abspath(src) != os.path.abspath(dst):
    shutil.copy(os.path.join(src, "patch.diff"), dst)
meta = {}
try:
    meta = json.load(open(os.path.join(src, "meta.json")))
except Exception:
    pass
old = json.load(open(os.path.join(dst, "meta.json"))) if os.path.exists(os.path.join(dst, "meta.json")) else {}
if "lead_note" in old:
    meta["lead_note"] = old["lead_note"]
meta["run_by_lead"] = {"repository_tests_with_change": res.get("tests"), "compiles": res.get("compiles"),
                       "patch_applies": res.get("patch_applies"), "checks": res.get("checks"), "tier": tier}
json.dump(meta, open(os.path.join(dst, "meta.json"), "w"), indent=1, ensure_ascii=False)
print(json.dumps(meta["run_by_lead"], indent=1, ensure_ascii=False))
