#!/usr/bin/env python3
"""repoedit.py <file> <<< JSON {"old": "...", "new": "...", "count": 1}  — exact replacement preserving CRLF."""
import json, sys
p = sys.argv[1]
spec = json.load(sys.stdin)
b = open(p, 'rb').read()
crlf = b'\r\n' in b
def enc(s):
    s = s.replace('\r\n', '\n')
    if crlf: s = s.replace('\n', '\r\n')
    return s.encode('utf-8')
old, new = enc(spec['old']), enc(spec['new'])
n = b.count(old)
if n != spec.get('count', 1):
    sys.exit("expected %d occurrence(s), found %d" % (spec.get('count', 1), n))
open(p, 'wb').write(b.replace(old, new))
print("replaced", n)
