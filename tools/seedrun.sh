#!/bin/bash
# tools/seedrun.sh "<ID> <A|B> <checks>" ...
for s in "$@"; do set -- $s; echo "##### $1-$2 checks=$3"; python3 /verif/tools/seedtest.py /tmp/wt/$1/seed/$2 $1-$2 $3 2>&1 | /venv/bin/python -c "
import sys,json
try:
    d=json.load(sys.stdin)
except Exception as e:
    print('  seedtest output unparsable', e); sys.exit()
print(' tests:',d['repository_tests_with_change'],'| demo without:',d['demo_without_change'][0],'with:',d['demo_with_change'][0])
for p,r in d['checks_run_with_VERIF_REPO_pointing_at_the_patched_copy'].items():
    print(' ',p,'exit',r['exit'], [k[:170] for k in r['keys'][:3]])
"; done
