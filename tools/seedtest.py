#!/usr/bin/env python3
"""seedtest.py <seed dir containing patch.diff/demo.py/meta.json> <name> <pid>[,<pid>...] [--tier quick]

Confirms an independently written property-breaking change and runs the checks against it:
  1. clean scratch copy of /repo HEAD (+ engine built into it): demo must exit 0;
  2. patched scratch copy (+ engine rebuilt): repository tests must give 118 passed / the 4 known failures,
     demo must exit non-zero;
  3. the named checks run with VERIF_REPO=<patched copy>.
Stores patch.diff, demo.py and an augmented meta.json under /verif/seeded/<name>/ and removes the copies."""
import json
import os
import shutil
import subprocess
import sys

args = sys.argv[1:]
tier = "quick"
if "--tier" in args:
    i = args.index("--tier")
    tier = args[i + 1]
    del args[i:i + 2]
src, name, pids = args[0], args[1], args[2].split(",")
KNOWN_FAIL = ["tests/test_loadrds.py::test_load_rds_multifile_fully_heterogenous_units_systems",
              "tests/test_loadrds.py::test_load_rds_multifile_units_system_inherited_from_rds_only",
              "tests/test_loadrds.py::test_load_rds_multifile_unspecified_units_systems",
              "tests/test_simulate.py::test_save_output_load_output"]


def sh(cmd, **kw):
    return subprocess.run(cmd, stdout=subprocess.PIPE, stderr=subprocess.STDOUT, text=True, **kw)


def scratch(tag):
    return sh(["/verif/tools/scratch.sh", "seed-%s-%s-%d" % (name, tag, os.getpid())]).stdout.strip().splitlines()[-1]


def build(d):
    so = os.path.join(d, "src/strengths/engines/strengths_engine/engine.cpython-312-x86_64-linux-gnu.so")
    r = sh(["g++", "-O1", "-std=c++11", "-shared", "-fPIC", "-o", so, os.path.join(d, "src/strengths/engines/strengths_engine/src/engine.cpp")])
    return r.returncode == 0, r.stdout[-500:]


def demo(d):
    env = dict(os.environ, PYTHONPATH=os.path.join(d, "src"))
    # the demonstration runs from <copy>/seed/<X>/demo.py: some demonstrations locate the tree relative to themselves
    dd = os.path.join(d, "seed", "X")
    os.makedirs(dd, exist_ok=True)
    shutil.copy(os.path.join(src, "demo.py"), dd)
    r = sh(["/venv/bin/python", os.path.join(dd, "demo.py")], env=env, cwd=d, timeout=900)
    lines = [l for l in r.stdout.strip().splitlines() if l.strip() and "Warning" not in l and '"""' not in l]
    return r.returncode, (lines[-1] if lines else "")[:300]


clean = scratch("clean")
patched = scratch("patched")
res = {}
try:
    ok, msg = build(clean)
    res["demo_without"] = demo(clean)
    r = sh(["git", "apply", "--whitespace=nowarn", os.path.join(os.path.abspath(src), "patch.diff")], cwd=patched)
    if r.returncode != 0:
        # the scratch copy is not a git repository: fall back to patch(1)
        r = sh(["patch", "-p1", "--binary", "-i", os.path.join(os.path.abspath(src), "patch.diff")], cwd=patched)
    res["patch_applies"] = (r.returncode == 0, r.stdout[-300:])
    ok, msg = build(patched)
    res["compiles"] = ok
    env = dict(os.environ, PYTHONPATH=os.path.join(patched, "src"))
    cmd = ["/venv/bin/python", "-m", "pytest", "-q", "-p", "no:cacheprovider", "--timeout=900"]
    for k in KNOWN_FAIL:
        cmd += ["--deselect", k]
    r = sh(cmd, cwd=patched, env=env)
    res["tests"] = ([l for l in r.stdout.splitlines() if " passed" in l or " failed" in l or " error" in l] or ["?"])[-1].strip()
    res["demo_with"] = demo(patched)
    res["checks"] = {}
    for pid in pids:
        env = dict(os.environ, VERIF_REPO=patched, VERIF_OUT=patched + ".out")
        r = sh(["/venv/bin/python", "/verif/run.py", pid, "--tier", tier], env=env, cwd="/verif")
        lines = r.stdout.strip().splitlines()
        keys = [l.strip()[:300] for l in lines if l.strip().startswith("key=")]
        res["checks"][pid] = {"exit": r.returncode, "summary": lines[-1][:300] if lines else "", "keys": keys[:8]}
finally:
    shutil.rmtree(clean, ignore_errors=True)
    shutil.rmtree(patched, ignore_errors=True)
    shutil.rmtree(patched + ".out", ignore_errors=True)

dst = os.path.join("/verif/seeded", name)
os.makedirs(dst, exist_ok=True)
if os.path.abspath(src) != os.path.abspath(dst):
    shutil.copy(os.path.join(src, "patch.diff"), dst)
    shutil.copy(os.path.join(src, "demo.py"), dst)
meta = {}
try:
    meta = json.load(open(os.path.join(src, "meta.json")))
except Exception:
    pass
if "initially_missed" in (json.load(open(os.path.join(dst, "meta.json"))) if os.path.exists(os.path.join(dst, "meta.json")) else {}):
    meta["initially_missed"] = json.load(open(os.path.join(dst, "meta.json")))["initially_missed"]
meta["confirmed_by_lead"] = {
    "repository_tests_with_change": res.get("tests"),
    "compiles": res.get("compiles"),
    "demo_without_change": res.get("demo_without"),
    "demo_with_change": res.get("demo_with"),
    "checks_run_with_VERIF_REPO_pointing_at_the_patched_copy": res.get("checks"),
    "tier": tier,
}
json.dump(meta, open(os.path.join(dst, "meta.json"), "w"), indent=1, ensure_ascii=False)
print(json.dumps(meta["confirmed_by_lead"], indent=1, ensure_ascii=False))
