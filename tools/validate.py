#!/opt/veriftools/pyvenv/bin/python
import json, sys, glob, jsonschema
m = json.load(open('/verif/MANIFEST.json'))
jsonschema.validate(m, json.load(open('/root/.vp/MANIFEST.schema.json')))
es = json.load(open('/root/.vp/EVIDENCE.schema.json'))
bad = 0
for f in sorted(glob.glob('/verif/evidence/*.json')):
    try:
        jsonschema.validate(json.load(open(f)), es)
    except Exception as e:
        bad += 1; print('INVALID', f, str(e)[:300])
print('manifest ok;', len(m['checks']), 'checks;', len(glob.glob('/verif/evidence/*.json')), 'evidence files;', bad, 'invalid')
sys.exit(1 if bad else 0)
