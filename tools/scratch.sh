#!/bin/bash
# tools/scratch.sh <name> : make a scratch copy of /repo (tracked files only) under /var/tmp/vscratch/<name>
set -e
d=/var/tmp/vscratch/$1
rm -rf "$d"; mkdir -p "$d"
git -C /repo archive HEAD | tar -x -C "$d"
# carry uncommitted working-tree changes as well
git -C /repo diff HEAD | (cd "$d" && (patch -p1 -s || true))
echo "$d"
