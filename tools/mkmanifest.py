#!/venv/bin/python
"""Regenerates /verif/MANIFEST.json from the table below (only checks whose module exists are claimed)."""
import json
import os
import sys

HERE = os.path.dirname(os.path.dirname(os.path.abspath(__file__)))
sys.path.insert(0, HERE)

PY = "/venv/bin/python /verif/run.py"

# id -> (technique, level text, level note, DESIGN section)
T = {
 "C01": ("bounded-exhaustive enumeration of networks x spaces x states on the real kinetics functions, exported ODE rhs and Euler engine vs. a reference rate law",
         "Every case of completely enumerated sub-spaces (reaction multisets, grid shapes x boundary conditions x environment maps, all small graphs, layout pairs) is executed on the real Python kinetics, make_dxdtf and one native Euler step and compared entry by entry with an independent reference rate law; three-way agreement within 1e-9 of the term scale.",
         "reference rate law of mc/ref/ratelaw.py written from the statement; bounded sizes (small-scope hypothesis); float tolerance 1e-9 relative to the sum of absolute terms", "3/C01"),
 "C02": ("exhaustive enumeration of (network, space, engine, seed, dt) catalogue; invariant (integer left null space of stoichiometry) checked on every recorded state of every run",
         "Each run of the bounded catalogue is executed on the real engines with per-iteration sampling; every recorded sample is a checked state: every conservation law from an exact integer null-space basis must hold exactly (stochastic) or to rounding (Euler).",
         "exact rational null-space routine (re-asserted c.S=0 on each use); seed window and run length are bounds", "3/C02"),
 "C03": ("exhaustive enumeration of ALL chemostat subsets of small species x cell grids, on kinetics, ODE rhs, apply_reaction and the three engines; owned-draw transitions for the stochastic engines",
         "All 2^(species*cells) flag maps of the small shapes are visited, so a lookup of another species' or cell's flag cannot hide; flagged entries are compared bit-for-bit, unflagged ones with the reference law.",
         "reference rate law / CME channel model; bounded shapes; seed window", "3/C03"),
 "C04": ("exhaustive enumeration of the 11x10x10 unit-system lattice x declaration levels; metamorphic oracle (physically equal description => equal state, rate, Euler trajectory)",
         "For each unit system and each nesting level a re-scaled description with exact rational factors is built through the real dict readers and compared with the base description in SI.",
         "exact SI table; the base descriptions are a fixed catalogue; 1e-9 relative tolerance", "3/C04"),
 "C05": ("bounded-exhaustive enumeration of operator x operand-kind x unit-system x dimension x magnitude products and depth-2 expression trees on the real operators vs. exact rational arithmetic",
         "Every operator/operand pairing is executed for every enumerated combination and compared with Fraction arithmetic on SI values; every dimensionally meaningless combination of the dimension cube must raise.",
         "exact SI table; IEEE double rounding (1e-12 relative); comparisons decided on exact values with near-ties excluded and counted", "3/C05"),
 "C06": ("bounded-exhaustive enumeration of unit-system pairs/triples x dimension vectors x target forms on the real convert() vs. exact rational factors",
         "All 1100x1100 ordered system pairs (thorough), all symbol pairs per base kind x exponents, all triples of 30 systems for composition, all litre/molar symbols and all target forms are converted by the real code and compared with exact Fractions (relative 1e-12); all mismatched dimension pairs must raise.",
         "exact SI table of mc/ref/si.py taken from the documentation; dimension exponents bounded to the stated cube", "3/C06"),
 "C07": ("explicit-state BFS over reachable molecular states with the engine's random draws owned by the harness (all u of a finite grid in every state) + per-step legality on seed-enumerated runs",
         "With the probe build every uniform draw is supplied by the harness, so the Gillespie engine is a deterministic labelled transition system; in every reachable state of small systems every u of a grid is applied on the real engine and each transition is checked for legality and each effect's u-measure against its CME probability; tau-leap Poisson means are read from the probe log.",
         "libstdc++ mt19937 / poisson_distribution are trusted; u-grid resolution bounds the measure error ((B+1)/M); state-space bounds", "3/C07"),
 "C08": ("exhaustive enumeration of driver schedules (iterate / iterate_n / run slices under a scripted clock) and of process histories, of in-place edits of script / stored-script / trajectory objects and of the simulate() wrapper's keyword forms; histories of the coarse-grained route and of unit conversions each executed in its own pristine process; bit-identity with a baseline execution in a pristine process",
         "Every partition of the iteration sequence into driver calls up to the bound, including run() slices whose end is decided by the harness-owned clock, and every ordered pair of (previous simulation, this simulation) is executed on the real engine and compared bit-for-bit with the one-iterate-at-a-time baseline.",
         "bounded iteration counts; clock owned through the probe build (blind probe => only 1-iteration and to-completion slices)", "3/C08"),
 "C09": ("exhaustive enumeration of request lists on an exact time lattice x t_max x policies x engines; reference sampling contract evaluated on the implementation's own step sequence",
         "All non-decreasing request lists up to the bound over an exactly representable lattice are run on the real engines; the set of recorded steps must lie between the required and the allowed sets of the reference contract, with exact layout checks.",
         "step times taken from the implementation's per-iteration run; lattice chosen so threshold comparisons are exact", "3/C09"),
 "C10": ("explicit-state exploration (stateless BFS) of all lifecycle-respecting call histories up to a depth over one and two engine objects (incl. object-lifetime operations, set-ups alternating between space types, engine factories) plus a TLA+ model of the lifecycle explored by TLC whose every path is replayed on the engine; differential oracle against the canonical history of each abstract state",
         "Every history over {setup, setup', iterate, iterate_n, sample, finalize} up to the depth bound is executed on real engine objects under a supervisor (hang/crash attribution); after every operation all observers are compared with those of the canonical history of the object's abstract state run in isolation.",
         "reference lifecycle model (A.5); depth bounds; script catalogue", "3/C10"),
 "C11": ("the C10 history exploration and a shape catalogue enumeration executed on an ASan+UBSan+hardened-libstdc++ build of the working tree; any report or plain/sanitized output difference is a violation; plus every run of a catalogue repeated under 4 fill patterns of freshly allocated memory (owned environment answer) with identical results required",
         "Every enumerated script shape and lifecycle history runs on the sanitized engine in supervised workers; memory errors, UB and library-precondition violations abort and are attributed to the case.",
         "sanitizers see only executed accesses; bounded shape catalogue", "3/C11"),
 "C12": ("bounded-exhaustive enumeration of object shapes x unit systems per level x routes (dict, JSON, files, multi-file) with physical-equality oracle; every alias and optional key one at a time; file-name, text-array-layout and process-history sub-spaces",
         "Each catalogue object is round-tripped through every route on the real readers/writers and compared in SI; to_dict fix-point; alias and default substitutions enumerated completely.",
         "physical equality model (A.7); only unambiguously documented defaults are claimed", "3/C12"),
 "C13": ("bounded-exhaustive enumeration of networks x spaces x unit systems per level and of all (species, cell) entries; all set/get sequences of length <= 2 with frame condition",
         "Default state/chemostat maps and every accessor form are compared entry by entry with the layout reference; every short setter sequence is followed by a full read-back.",
         "layout reference model; bounded shapes", "3/C13"),
 "C14": ("exhaustive enumeration of dyadic real-valued initial states x seeds x modes x engines; invariants on the t=0 record; probe log of Poisson draws",
         "All assignments of the value alphabet to small states are set up on the real engine in supervised workers (hang detection); totals, integrality, zero preservation, reproducibility and per-entry Poisson means are checked.",
         "dyadic alphabet makes floor(total) exact; seed window", "3/C14"),
 "C15": ("complete enumeration of all grid shapes <= 4^3 x 8 boundary combinations x all cells / cell pairs / position forms; grid vs. graph equivalence on every such grid (states after 3 Euler steps; recorded times and states under 8 sampling configurations)",
         "Index/coordinate bijection, rejection of outside positions, neighbour relation in four implementations (query, pair test, Python kinetics, native engine) and grid_to_graph equivalence are checked for every grid of the bound.",
         "reference layout/neighbour relation; Python kinetics limited to <= 12 cells", "3/C15"),
 "C16": ("complete enumeration of all index maps {-1..m}^n of small 1-D/2-D/3-D grids, classified by a reference validity predicate and compared with brute-force coarse-graining",
         "Every map is fed to the real coarsegrain_system; valid ones must be accepted with the reference volumes/totals/edges/surfaces/distances, invalid ones rejected; un-coarse-graining and identity-map simulation are checked.",
         "brute-force reference of mc/ref/cg.py; grid sizes bounded", "3/C16"),
 "C17": ("complete enumeration of trajectory shapes {1,2,3}^3 x all triples x accessor forms, and of all time lists x query times x policies on a lattice",
         "Every accessor is compared with direct indexing for every triple; sample-index lookup is compared with brute force for every query of the lattice in four time units.",
         "index-encoding data values; exact lattice", "3/C17"),
 "C18": ("bounded-exhaustive enumeration of the unit grammar (1-3 factors), of print-parse round trips and of a mechanically derived malformed family, against an independent recogniser",
         "All 1- and 2-factor strings over the 47 symbols and a 3-factor cover are parsed by the real parser and compared with the reference dimension and exact SI scale; every malformed string must raise.",
         "independent grammar of mc/ref/grammar.py from the documentation", "3/C18"),
 "C19": ("bounded-exhaustive enumeration of reaction equations, orders and rate-constant dimensions against an independent equation parser",
         "All equations up to the bound are parsed by the real Reaction and compared with the reference stoichiometry, orders, print-parse fix-point, rate-constant dimensions (all dimensions of a cube around the right one), split and K; invalid networks must raise.",
         "independent equation parser; bounds on terms/coefficients", "3/C19"),
 "C20": ("exhaustive enumeration of invalidity classes x sites (keys, dimensions, positions on every small grid/graph) with rejection + unchanged-state oracle",
         "Each class of invalid input named in the statement is instantiated at every site of the bounded models; an exception must be raised and the object state must be unchanged.",
         "classes limited to those the statement lists; bounded shapes", "3/C20"),
}

# properties whose check is finished (silent on the unchanged tree, caught at least one seeded change)
READY = set(open(os.path.join(HERE, "tools", "READY.txt")).read().split())

TITLES = {}
with open(os.path.join(HERE, "properties.jsonl"), encoding="utf-8") as f:
    for line in f:
        p = json.loads(line)
        TITLES[p["id"]] = p["title"]


def main():
    from run import MODULES
    checks, na = [], []
    for pid in sorted(T):
        tech, text, note, ref = T[pid]
        if pid in READY and os.path.exists(os.path.join(HERE, "checks", MODULES[pid] + ".py")):
            checks.append({
                "property_id": pid,
                "quick_cmd": "%s %s --tier quick" % (PY, pid),
                "thorough_cmd": "%s %s --tier thorough" % (PY, pid),
                "evidence_file": "/verif/evidence/%s.json" % pid,
                "replay_cmd_template": "%s %s --replay {path}" % (PY, pid),
                "engine": "mc",
                "level_claimed": {"category": "model_checking", "text": text, "design_ref": "DESIGN.md section " + ref},
                "level_note": note,
                "technique": tech,
            })
        else:
            na.append({"property_id": pid, "reason": "check not built yet (work in progress; design in DESIGN.md section %s)" % ref})
    m = {
        "version": 1,
        "setup_cmd": "/venv/bin/python /verif/run.py --setup",
        "hooks": {
            "guard": "none",
            "enable": "no source hooks: the probe build (harness/engine_probe.cpp) #includes the working tree's engine.cpp unchanged and interposes RNG/clock at compile time",
            "baseline_off_cmd": "cd /repo && /venv/bin/python -m pytest -ra -q -p no:cacheprovider --timeout=900 --continue-on-collection-errors",
            "source_commits": [],
            "add_only": True,
        },
        "engines": [{
            "name": "mc",
            "path": "/verif/mc",
            "serves_properties": [c["property_id"] for c in checks],
            "kind_free_text": "hand-written bounded-exhaustive explorers on the real code: E1 product enumeration, E2 history BFS, E3 owned-nondeterminism exploration (probe build), supervised worker pool",
        }],
        "checks": checks,
        "not_applicable": na,
        "notes": "All checks rebuild the native engine from /repo's working tree (content-hash cache in /verif/.build) and import strengths from /repo/src. Engine objects come from the library's own factories (engine_collection) with the native library redirected to that fresh build. VERIF_REPO overrides the tree and VERIF_OUT the place evidence / replays are written (both used only for seeded-change and refactoring experiments on scratch copies).",
    }
    with open(os.path.join(HERE, "MANIFEST.json"), "w", encoding="utf-8") as f:
        json.dump(m, f, indent=1, ensure_ascii=False)
    print("MANIFEST.json: %d checks, %d not claimed" % (len(checks), len(na)))


if __name__ == "__main__":
    main()
