#!/usr/bin/env python3
"""muttest.py [--tests] [--tier quick] <pids comma-separated> <relpath> <old> <new> [<relpath> <old> <new> ...]

Makes a scratch copy of /repo, applies exact (CRLF-aware) replacements, optionally runs the repository's
own test suite on the copy (building the engine into it), runs the given checks with VERIF_REPO=<copy>,
prints a summary and removes the copy."""
import os
import shutil
import subprocess
import sys

args = sys.argv[1:]
run_tests = False
tier = "quick"
while args and args[0].startswith("--"):
    if args[0] == "--tests":
        run_tests = True
        args = args[1:]
    elif args[0] == "--tier":
        tier = args[1]
        args = args[2:]
pids = args[0].split(",")
edits = args[1:]
name = "mut%d" % os.getpid()
d = subprocess.run(["/verif/tools/scratch.sh", name], stdout=subprocess.PIPE, text=True, check=True).stdout.strip()
try:
    for i in range(0, len(edits), 3):
        p = os.path.join(d, edits[i])
        b = open(p, "rb").read()
        crlf = b"\r\n" in b
        def enc(s):
            s = s.replace("\r\n", "\n").replace("\\n", "\n")
            if crlf:
                s = s.replace("\n", "\r\n")
            return s.encode()
        old, new = enc(edits[i + 1]), enc(edits[i + 2])
        n = b.count(old)
        if n < 1:
            sys.exit("pattern not found in %s: %r" % (edits[i], edits[i + 1]))
        open(p, "wb").write(b.replace(old, new))
        print("mutated %s (%d occurrence(s))" % (edits[i], n))
    if run_tests:
        so = os.path.join(d, "src/strengths/engines/strengths_engine/engine.cpython-312-x86_64-linux-gnu.so")
        r = subprocess.run(["g++", "-O1", "-std=c++11", "-shared", "-fPIC", "-o", so,
                            os.path.join(d, "src/strengths/engines/strengths_engine/src/engine.cpp")])
        if r.returncode != 0:
            print("TESTS: engine does not compile")
        else:
            env = dict(os.environ, PYTHONPATH=os.path.join(d, "src"))
            r = subprocess.run(["/venv/bin/python", "-m", "pytest", "-q", "-p", "no:cacheprovider", "--timeout=900", "-x", "-q",
                                "--deselect", "tests/test_loadrds.py::test_load_rds_multifile_fully_heterogenous_units_systems",
                                "--deselect", "tests/test_loadrds.py::test_load_rds_multifile_units_system_inherited_from_rds_only",
                                "--deselect", "tests/test_loadrds.py::test_load_rds_multifile_unspecified_units_systems",
                                "--deselect", "tests/test_simulate.py::test_save_output_load_output"],
                               cwd=d, env=env, stdout=subprocess.PIPE, stderr=subprocess.STDOUT, text=True)
            print("TESTS:", [l for l in r.stdout.splitlines() if ("passed" in l or "failed" in l or "error" in l)][-1:] or r.returncode)
    for pid in pids:
        env = dict(os.environ, VERIF_REPO=d, VERIF_OUT=d + ".out")
        r = subprocess.run(["/venv/bin/python", "/verif/run.py", pid, "--tier", tier], env=env,
                           stdout=subprocess.PIPE, stderr=subprocess.STDOUT, text=True, cwd="/verif")
        lines = r.stdout.strip().splitlines()
        keys = [l.strip() for l in lines if l.strip().startswith("key=")]
        print("CHECK %s exit=%d  %s" % (pid, r.returncode, lines[-1] if lines else ""))
        for k in keys[:6]:
            print("    " + k[:260])
finally:
    shutil.rmtree(d, ignore_errors=True)
