// Probe translation unit: compiles the working tree's engine.cpp UNCHANGED, but routes its uses of
// std::uniform_real_distribution / poisson_distribution / normal_distribution / chrono::system_clock
// through wrappers the harness controls (compile-time interposition; no repository hooks).
// With nothing injected and no clock script the wrappers delegate to the real facilities, so the
// probe build behaves exactly like the plain build.
//
// Built with  -DVERIF_ENGINE_CPP="\"<path>/engine.cpp\""  -I<dir of engine.cpp>

#include <iostream>
#include <random>
#include <chrono>
#include <vector>
#include <string>
#include <cmath>
#include <cstdlib>
#include <algorithm>

namespace verif {
static std::vector<double> uq;          // injected uniforms (consumed front to back)
static size_t uq_pos = 0;
static long n_uniform = 0;              // uniform draws requested since last clear
static long n_uniform_injected = 0;
static std::vector<double> plog;        // (mean, result) pairs
static std::vector<double> nlog;        // (mean, sd, result) triples
static std::vector<double> ulog;        // values returned by uniform draws
static int clock_jump_at = 0;           // 0: real clock; j>0: the j-th call after t0 jumps by one hour
static long clock_calls = 0;
static long clock_calls_total = 0;
}

namespace std {
template <class T = double>
class verif_uniform_real_distribution {
  std::uniform_real_distribution<T> d;
  T a_, b_;
 public:
  verif_uniform_real_distribution() : d(), a_(0), b_(1) {}
  verif_uniform_real_distribution(T a, T b) : d(a, b), a_(a), b_(b) {}
  template <class G> T operator()(G& g) {
    verif::n_uniform++;
    T v;
    if (verif::uq_pos < verif::uq.size()) {
      v = a_ + static_cast<T>(verif::uq[verif::uq_pos++]) * (b_ - a_);
      verif::n_uniform_injected++;
    } else {
      v = d(g);
    }
    if (verif::ulog.size() < 1000000) verif::ulog.push_back(static_cast<double>(v));
    return v;
  }
};

template <class T = int>
class verif_poisson_distribution {
  double mean_;
 public:
  explicit verif_poisson_distribution(double mean = 1.0) : mean_(mean) {}
  template <class G> T operator()(G& g) {
    T r = std::poisson_distribution<T>(mean_)(g);
    if (verif::plog.size() < 2000000) { verif::plog.push_back(mean_); verif::plog.push_back(static_cast<double>(r)); }
    return r;
  }
};

template <class T = double>
class verif_normal_distribution {
  T m_, s_;
 public:
  explicit verif_normal_distribution(T m = 0, T s = 1) : m_(m), s_(s) {}
  template <class G> T operator()(G& g) {
    T r = std::normal_distribution<T>(m_, s_)(g);
    if (verif::nlog.size() < 3000000) { verif::nlog.push_back(m_); verif::nlog.push_back(s_); verif::nlog.push_back(r); }
    return r;
  }
};

namespace chrono {
struct verif_system_clock {
  typedef system_clock::duration duration;
  typedef system_clock::rep rep;
  typedef system_clock::period period;
  typedef system_clock::time_point time_point;
  static time_point now() {
    verif::clock_calls_total++;
    if (verif::clock_jump_at <= 0) return system_clock::now();
    // scripted: call 0 is the slice start; the call made after the j-th iteration jumps by 1 h
    static time_point base = system_clock::now();
    long c = verif::clock_calls++;
    if (c >= verif::clock_jump_at) return base + hours(1);
    return base;
  }
};
}  // namespace chrono
}  // namespace std

#define uniform_real_distribution verif_uniform_real_distribution
#define poisson_distribution verif_poisson_distribution
#define normal_distribution verif_normal_distribution
#define system_clock verif_system_clock
#include VERIF_ENGINE_CPP
#undef uniform_real_distribution
#undef poisson_distribution
#undef normal_distribution
#undef system_clock

extern "C" {
int verif_probe_present() { return 1; }
void verif_clear() {
  verif::uq.clear(); verif::uq_pos = 0; verif::n_uniform = 0; verif::n_uniform_injected = 0;
  verif::plog.clear(); verif::nlog.clear(); verif::ulog.clear();
  verif::clock_jump_at = 0; verif::clock_calls = 0; verif::clock_calls_total = 0;
}
void verif_push_uniform(double u) { verif::uq.push_back(u); }
long verif_n_uniform() { return verif::n_uniform; }
long verif_n_uniform_injected() { return verif::n_uniform_injected; }
long verif_uniform_pending() { return static_cast<long>(verif::uq.size() - verif::uq_pos); }
long verif_ulog_size() { return static_cast<long>(verif::ulog.size()); }
void verif_get_ulog(double* out) { for (size_t i = 0; i < verif::ulog.size(); i++) out[i] = verif::ulog[i]; }
long verif_plog_size() { return static_cast<long>(verif::plog.size() / 2); }
void verif_get_plog(double* out) { for (size_t i = 0; i < verif::plog.size(); i++) out[i] = verif::plog[i]; }
void verif_clear_plog() { verif::plog.clear(); }
long verif_nlog_size() { return static_cast<long>(verif::nlog.size() / 3); }
void verif_get_nlog(double* out) { for (size_t i = 0; i < verif::nlog.size(); i++) out[i] = verif::nlog[i]; }
void verif_clock_script(int j) { verif::clock_jump_at = j; verif::clock_calls = 0; }
long verif_clock_calls_total() { return verif::clock_calls_total; }
}
