"""Run a function in a pristine process image: a zygote forked before any engine use serves each request
from a freshly forked grand-child, so nothing simulated earlier in the calling process can influence it."""
import importlib
import os
import pickle
import select
import signal
import struct
import sys


def _send(fd, obj):
    b = pickle.dumps(obj)
    os.write(fd, struct.pack("<I", len(b)))
    mv = memoryview(b)
    while mv:
        n = os.write(fd, mv)
        mv = mv[n:]


def _recv(fd):
    hdr = b""
    while len(hdr) < 4:
        c = os.read(fd, 4 - len(hdr))
        if not c:
            raise EOFError
        hdr += c
    n = struct.unpack("<I", hdr)[0]
    buf = b""
    while len(buf) < n:
        c = os.read(fd, n - len(buf))
        if not c:
            raise EOFError
        buf += c
    return pickle.loads(buf)


class Pristine:
    def __init__(self, timeout=30.0):
        self.timeout = timeout
        r1, w1 = os.pipe()
        r2, w2 = os.pipe()
        sys.stdout.flush()
        pid = os.fork()
        if pid == 0:
            os.close(w1)
            os.close(r2)
            try:
                self._serve(r1, w2)
            finally:
                os._exit(0)
        os.close(r1)
        os.close(w2)
        self.pid, self.w, self.r = pid, w1, r2

    def _serve(self, r, w):
        while True:
            try:
                mod, fn, args = _recv(r)
            except EOFError:
                return
            cr, cw = os.pipe()
            pid = os.fork()
            if pid == 0:
                os.close(cr)
                try:
                    res = ("ok", getattr(importlib.import_module(mod), fn)(*args))
                except BaseException as e:  # noqa
                    res = ("exception", "%s: %s" % (type(e).__name__, e))
                try:
                    _send(cw, res)
                finally:
                    os._exit(0)
            os.close(cw)
            res = None
            rl, _, _ = select.select([cr], [], [], self.timeout)
            if not rl:
                os.kill(pid, signal.SIGKILL)
                res = ("hang", "no return within %.0f s" % self.timeout)
            else:
                try:
                    res = _recv(cr)
                except EOFError:
                    res = None
            os.close(cr)
            _, status = os.waitpid(pid, 0)
            if res is None:
                res = ("crash", "process died (status %d)" % status)
            _send(w, res)

    def call(self, mod, fn, *args):
        """('ok', result) | ('exception'|'hang'|'crash', text)"""
        _send(self.w, (mod, fn, args))
        return _recv(self.r)

    def close(self):
        try:
            os.close(self.w)
            os.close(self.r)
            os.waitpid(self.pid, 0)
        except OSError:
            pass
