"""setup_cmd: build the engine variants from the working tree and self-test the reference models."""
import importlib
import sys
import time

from . import core, build

REF_MODULES = ["si", "grammar", "ratelaw", "cme", "nullspace", "sampler", "layout", "cg", "physical", "reaction", "arith", "defaults"]


def main():
    t0 = time.time()
    ok = True
    for v in ("plain", "probe", "san"):
        so, err = build.try_build(v)
        if so is None:
            # a build failure of the probe/san variant degrades the checks that use it; it is reported by them
            print("setup: build %s FAILED\n%s" % (v, err))
            if v == "plain":
                ok = False
        else:
            print("setup: build %s -> %s" % (v, so))
    for name in REF_MODULES:
        try:
            m = importlib.import_module("mc.ref." + name)
        except ModuleNotFoundError:
            continue
        if hasattr(m, "selftest"):
            try:
                m.selftest()
                print("setup: selftest mc.ref.%s ok" % name)
            except Exception as e:  # pragma: no cover
                import traceback
                traceback.print_exc()
                print("setup: selftest mc.ref.%s FAILED: %s" % (name, e))
                ok = False
    print("setup done in %.1fs" % (time.time() - t0))
    return 0 if ok else 1


if __name__ == "__main__":
    sys.exit(main())
