"""Builds strengths objects from plain JSON-able specs (see mc/ref/ratelaw.py for the spec format), so
every explored case can be stored in a replay file and rebuilt with plain library calls."""
from . import core, uq
from .ref import si

core.setup_paths()
from strengths.rdnetwork import Species, Reaction, RDNetwork  # noqa: E402
from strengths.rdgridspace import RDGridSpace  # noqa: E402
from strengths.rdgraphspace import RDGraphSpace, RDGraphSpaceNode, RDGraphSpaceEdge  # noqa: E402
from strengths.rdsystem import RDSystem  # noqa: E402
from strengths.rdscript import RDScript  # noqa: E402
from strengths.units import UnitArray, UnitValue, Units, UnitsSystem  # noqa: E402


def eq_string(eq):
    def side(terms):
        parts = []
        for lab, c in terms:
            parts.append(lab if int(c) == 1 else "%d %s" % (int(c), lab))
        return " + ".join(parts)
    return side(eq[0]) + " -> " + side(eq[1])


def usys(spec):
    return uq.mk_sys(tuple(spec.get("units", si.DEFAULT)))


def build_network(spec):
    us = usys(spec)
    species = []
    for s in spec["species"]:
        species.append(Species(s["label"], D=s.get("D", 0), density=s.get("density", 0),
                               chstt=s.get("chstt", False), units_system=us))
    reactions = []
    for r in spec.get("reactions", []):
        reactions.append(Reaction(eq_string(r["eq"]), kf=r.get("kf", 0), kr=r.get("kr", 0),
                                  label=r.get("label"), units_system=us))
    return RDNetwork(species, reactions, environments=list(spec.get("envs", [""])), units_system=us)


def build_space(spec):
    us = usys(spec)
    sp = spec["space"]
    if sp["type"] == "grid":
        return RDGridSpace(w=sp["w"], h=sp["h"], d=sp["d"], cell_env=sp.get("env", 0), cell_vol=sp.get("vol", 1),
                           boundary_conditions=dict(sp.get("bc", {})), units_system=us)
    nodes = [RDGraphSpaceNode(volume=n.get("vol", 1), environment=n.get("env", 0), units_system=us) for n in sp["nodes"]]
    edges = [RDGraphSpaceEdge(i=e[0], j=e[1], surface=e[2], distance=e[3], units_system=us) for e in sp["edges"]]
    return RDGraphSpace(nodes=nodes, edges=edges, units_system=us)


def build_system(spec):
    us = usys(spec)
    net = build_network(spec)
    space = build_space(spec)
    kw = {}
    if spec.get("state") is not None:
        kw["state"] = UnitArray([float(v) for v in spec["state"]], Units(us, uq.mk_dim((0, 0, 1))))
    if spec.get("chemostats") is not None:
        kw["chemostats"] = [int(v) for v in spec["chemostats"]]
    return RDSystem(net, space, units_system=us, **kw)


def build_script(sc, system=None):
    """sc = {"system": spec, "t_sample": [...], "time_step":, "t_max":, "policy":, "interval":, "seed":, "isp":, "units":}"""
    if system is None:
        system = build_system(sc["system"])
    kw = {}
    if "time_step" in sc:
        kw["time_step"] = sc["time_step"]
    if "t_max" in sc:
        kw["t_max"] = sc["t_max"]
    if "policy" in sc:
        kw["sampling_policy"] = sc["policy"]
    if "interval" in sc:
        kw["sampling_interval"] = sc["interval"]
    if "seed" in sc:
        kw["rng_seed"] = sc["seed"]
    if "isp" in sc:
        kw["init_state_processing"] = sc["isp"]
    us = uq.mk_sys(tuple(sc.get("units", sc["system"].get("units", si.DEFAULT))))
    ts = sc.get("t_sample", [0])
    if isinstance(ts, dict):      # {"values": [...], "unit": "ms"}: an explicit quantity array
        ts = UnitArray([float(v) for v in ts["values"]], ts["unit"])
    else:
        ts = list(ts)
    return RDScript(system, ts, units_system=us, **kw)


def traj_arrays(out):
    """(times list, data as [sample][species-major entries]) from an RDTrajectory."""
    t = [float(v) for v in out.t.value]
    ns = len(t)
    d = [float(v) for v in out.data.value]
    n = len(d) // ns if ns else 0
    return t, [d[k * n:(k + 1) * n] for k in range(ns)]
