"""Builds the native engine variants from $VERIF_REPO's working tree (content-hash cached)."""
import hashlib
import os
import subprocess
import sys

from . import core

ENGINE_SRC = os.path.join(core.REPO, "src", "strengths", "engines", "strengths_engine", "src")
BUILD_ROOT = os.path.join(core.VERIF, ".build")
PROBE = os.path.join(core.VERIF, "harness", "engine_probe.cpp")

GXX = ["g++", "-O1", "-std=c++11", "-shared", "-fPIC"]
SAN = ["clang++", "-O1", "-g", "-std=c++11", "-shared", "-fPIC",
       "-fsanitize=address,undefined,float-cast-overflow", "-fno-sanitize-recover=all",
       "-fno-omit-frame-pointer", "-D_GLIBCXX_ASSERTIONS"]


def _sources():
    out = []
    for fn in sorted(os.listdir(ENGINE_SRC)):
        if fn.endswith((".cpp", ".hpp", ".h")):
            out.append(os.path.join(ENGINE_SRC, fn))
    return out


def _hash(variant, cmd):
    h = hashlib.sha256()
    h.update(variant.encode())
    h.update(" ".join(cmd).encode())
    for p in _sources() + ([PROBE] if variant == "probe" else []):
        h.update(p.encode())
        with open(p, "rb") as f:
            h.update(f.read())
    return h.hexdigest()[:20]


class BuildError(Exception):
    pass


def build(variant):
    """Returns the path of the shared object for 'plain' | 'probe' | 'san' (built if needed)."""
    engine_cpp = os.path.join(ENGINE_SRC, "engine.cpp")
    if variant == "plain":
        cmd = GXX + [engine_cpp]
    elif variant == "probe":
        cmd = GXX + ["-I" + ENGINE_SRC, '-DVERIF_ENGINE_CPP="%s"' % engine_cpp, PROBE]
    elif variant == "san":
        cmd = SAN + [engine_cpp]
    else:
        raise ValueError(variant)
    d = os.path.join(BUILD_ROOT, "%s-%s" % (variant, _hash(variant, cmd)))
    so = os.path.join(d, "engine_%s.so" % variant)
    if os.path.exists(so):
        try:
            os.utime(d, None)      # mark as recently used (protects it from pruning by concurrent runs)
        except OSError:
            pass
        return so
    os.makedirs(d, exist_ok=True)
    tmp = so + ".tmp%d" % os.getpid()
    p = subprocess.run(cmd + ["-o", tmp], stdout=subprocess.PIPE, stderr=subprocess.STDOUT, text=True)
    if p.returncode != 0:
        raise BuildError("build of variant %s failed:\n%s" % (variant, p.stdout[-4000:]))
    os.replace(tmp, so)
    _prune(variant, keep=d)
    return so


def _prune(variant, keep):
    """Keep at most 8 cached builds per variant and never remove one used within the last 2 hours
    (other check runs, e.g. against scratch trees, may be using it)."""
    import time
    try:
        ds = [os.path.join(BUILD_ROOT, x) for x in os.listdir(BUILD_ROOT) if x.startswith(variant + "-")]
        ds.sort(key=lambda p: os.path.getmtime(p))
        for p in ds[:-8]:
            if p != keep and time.time() - os.path.getmtime(p) > 7200:
                for fn in os.listdir(p):
                    os.unlink(os.path.join(p, fn))
                os.rmdir(p)
    except OSError:
        pass


def asan_runtime():
    p = subprocess.run(["clang", "-print-file-name=libclang_rt.asan-x86_64.so"], stdout=subprocess.PIPE, text=True)
    return p.stdout.strip()


def try_build(variant):
    try:
        return build(variant), None
    except BuildError as e:
        return None, str(e)


if __name__ == "__main__":
    for v in sys.argv[1:] or ["plain", "probe", "san"]:
        print(v, build(v))
