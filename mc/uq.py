"""Small adapters between the reference tuples (sys3, dim) and strengths' unit objects."""
from fractions import Fraction as F

from . import core
from .ref import si

core.setup_paths()
from strengths.units import Units, UnitsSystem, UnitsDimensions, UnitValue, UnitArray  # noqa: E402


def mk_sys(sys3):
    return UnitsSystem(space=sys3[0], time=sys3[1], quantity=sys3[2])


def mk_dim(dim):
    return UnitsDimensions(space=int(dim[0]), time=int(dim[1]), quantity=int(dim[2]))


def mk_units(sys3, dim):
    return Units(mk_sys(sys3), mk_dim(dim))


def mk_uv(v, sys3, dim):
    return UnitValue(v, mk_units(sys3, dim))


def mk_ua(vals, sys3, dim):
    return UnitArray(list(vals), mk_units(sys3, dim))


def sys_of(units):
    return (units.sys.space, units.sys.time, units.sys.quantity)


def dim_of(units):
    return (units.dim.space, units.dim.time, units.dim.quantity)


def sysdict(sys3):
    return {"space": sys3[0], "time": sys3[1], "quantity": sys3[2]}


def si_value(q):
    """Exact SI value(s) (Fraction or list of Fractions) of a strengths quantity, from its stored
    value(s) and stored units, using the reference scales."""
    sc = si.si_scale(sys_of(q.units), dim_of(q.units))
    if isinstance(q, UnitValue):
        return F(q.value) * sc
    return [F(float(x)) * sc for x in q.value]
