"""Supervised worker pool: fixed-order parallel map with hang / crash attribution.

Workers are forked, long-lived, and pull one item index at a time; the item list is inherited through
fork (never pickled).  A worker that dies (signal, abort, sanitizer report) or exceeds the per-item
time limit is attributed to the item it had announced, replaced by a fresh worker, and the item's result
becomes a `Crash`.  Results come back in item order, so enumeration is deterministic.
"""
import multiprocessing as mp
import multiprocessing.connection as mpc
import os
import signal
import sys
import time
import traceback

from . import core

NPROC = int(os.environ.get("VERIF_NPROC", "16"))
_ctx = mp.get_context("fork")


class Crash:
    def __init__(self, kind, detail):
        self.kind = kind          # 'hang' | 'crash' | 'exception'
        self.detail = detail

    def __repr__(self):
        return "Crash(%s: %s)" % (self.kind, self.detail[:300])


def _scratch():
    d = os.path.join(core.VERIF, ".scratch")
    os.makedirs(d, exist_ok=True)
    return d


def _worker(conn, func, items, init, errpath):
    try:
        fd = os.open(errpath, os.O_WRONLY | os.O_CREAT | os.O_TRUNC, 0o644)
        os.dup2(fd, 2)
        os.close(fd)
        state = init() if init is not None else None
        while True:
            idx = conn.recv()
            if idx is None:
                break
            try:
                os.ftruncate(2, 0)
                os.lseek(2, 0, os.SEEK_SET)
            except OSError:
                pass
            try:
                res = func(items[idx]) if init is None else func(items[idx], state)
            except BaseException:  # the item function should catch what it expects
                res = Crash("exception", traceback.format_exc()[-3000:])
            conn.send((idx, res))
    except (EOFError, KeyboardInterrupt):
        pass
    finally:
        try:
            conn.close()
        except Exception:
            pass
        os._exit(0)


class _W:
    def __init__(self, func, items, init, k):
        self.errpath = os.path.join(_scratch(), "w%d-%d.err" % (os.getpid(), k))
        self.parent, child = _ctx.Pipe(duplex=True)
        self.proc = _ctx.Process(target=_worker, args=(child, func, items, init, self.errpath), daemon=True)
        self.proc.start()
        child.close()
        self.idx = None
        self.t0 = 0.0

    def give(self, idx):
        self.idx = idx
        self.t0 = time.time()
        self.parent.send(idx)

    def errtail(self):
        try:
            with open(self.errpath, "r", errors="replace") as f:
                s = f.read()
            # the worker's last announcement (what it was about to do) must survive truncation of a long report
            last = ""
            for ln in s.splitlines():
                if ln.startswith("VERIF-AT "):
                    last = ln
            tail = s[-6000:]
            return tail if (not last or last in tail.splitlines()[-1:] ) else (tail + "\n" + last)
        except OSError:
            return ""

    def kill(self):
        try:
            self.proc.kill()
        except Exception:
            pass
        self.proc.join(5)
        try:
            self.parent.close()
        except Exception:
            pass
        try:
            os.unlink(self.errpath)
        except OSError:
            pass


def pmap(func, items, nproc=None, timeout=120.0, init=None):
    """results[i] = func(items[i]) (or func(items[i], init())), Crash(...) on hang/crash/exception."""
    items = list(items)
    n = len(items)
    results = [None] * n
    if n == 0:
        return results
    nproc = min(nproc or NPROC, n)
    if nproc <= 1 and os.environ.get("VERIF_INLINE") == "1":
        st = init() if init is not None else None
        for i, it in enumerate(items):
            results[i] = func(it) if init is None else func(it, st)
        return results
    sys.stdout.flush()
    sys.stderr.flush()
    workers = [_W(func, items, init, k) for k in range(nproc)]
    nxt = 0
    done = 0
    for w in workers:
        if nxt < n:
            w.give(nxt)
            nxt += 1
    k = nproc
    try:
        while done < n:
            busy = [w for w in workers if w.idx is not None]
            ready = mpc.wait([w.parent for w in busy] + [w.proc.sentinel for w in busy], timeout=1.0)
            now = time.time()
            for w in list(busy):
                if w.idx is None:
                    continue
                got = False
                dead = False
                if w.parent in ready or w.parent.poll(0):
                    try:
                        idx, res = w.parent.recv()
                        results[idx] = res
                        got = True
                    except (EOFError, OSError):
                        dead = True
                elif w.proc.sentinel in ready and not w.proc.is_alive():
                    dead = True
                if got:
                    done += 1
                    w.idx = None
                    if nxt < n:
                        w.give(nxt)
                        nxt += 1
                    continue
                hang = (not dead) and (now - w.t0 > timeout)
                if dead or hang:
                    if dead:
                        w.proc.join(5)
                        code = w.proc.exitcode
                        if code is not None and code < 0:
                            try:
                                sg = signal.Signals(-code).name
                            except ValueError:
                                sg = "signal %d" % -code
                        else:
                            sg = "exit code %r" % code
                        results[w.idx] = Crash("crash", "worker died (%s)\n%s" % (sg, w.errtail()))
                    else:
                        results[w.idx] = Crash("hang", "no return within %.0f s\n%s" % (timeout, w.errtail()))
                    done += 1
                    w.kill()
                    workers.remove(w)
                    nw = _W(func, items, init, k)
                    k += 1
                    workers.append(nw)
                    if nxt < n:
                        nw.give(nxt)
                        nxt += 1
    finally:
        for w in workers:
            try:
                if w.idx is None:
                    w.parent.send(None)
            except Exception:
                pass
        for w in workers:
            w.proc.join(0.5)
            w.kill()
    return results


def chunks(n, size):
    """[(lo, hi), ...] covering range(n)."""
    return [(lo, min(n, lo + size)) for lo in range(0, n, size)]


def pmap_split(work, n, chunk, timeout=120.0, init=None, single_timeout=None, max_failures=24, max_hangs=24):
    """work((lo, hi)) over chunks of range(n); a chunk whose worker hangs/crashes is re-run one case at a
    time so the failure is attributed to a single case.  Once `max_failures` single cases have failed, the
    remaining cases of failed chunks are not re-run (result Crash('skipped', ...): the caller must report the
    run as capped).  Returns [((lo, hi), result-or-Crash), ...] sorted by lo."""
    jobs = chunks(n, chunk)
    res = pmap(work, jobs, timeout=timeout, init=init)
    out, retry = [], []
    for job, r in zip(jobs, res):
        if isinstance(r, Crash) and job[1] - job[0] > 1:
            retry.extend((i, i + 1) for i in range(job[0], job[1]))
        else:
            out.append((job, r))
    failures = 0
    hangs = 0
    batch = 4 * NPROC
    pos = 0
    while pos < len(retry):
        if failures >= max_failures or hangs >= max_hangs:
            out.extend((j, Crash("skipped", "not re-run: %d single-case failures already attributed" % failures))
                       for j in retry[pos:])
            break
        part = retry[pos:pos + batch]
        res2 = pmap(work, part, timeout=single_timeout or timeout, init=init)
        failures += sum(1 for r in res2 if isinstance(r, Crash))
        hangs += sum(1 for r in res2 if isinstance(r, Crash) and r.kind == "hang")
        out.extend(zip(part, res2))
        pos += batch
    out.sort(key=lambda jr: jr[0][0])
    return out
