"""Core of the /verif machinery: evidence accumulation, violations, known findings, replays.

A check module (checks/cXX_*.py) exposes

    run(ctx)            explores its bounded space, calling ctx.* to record what it covered
    replay(case)        re-executes one recorded case with plain library calls; returns a list of
                        (key, message) violations (empty list = the case passes)

Nothing here is random; all enumeration orders are lists.
"""
import fnmatch
import json
import os
import re
import sys
import time

VERIF = os.path.dirname(os.path.dirname(os.path.abspath(__file__)))
REPO = os.environ.get("VERIF_REPO", "/repo")
LEVEL = "model_checking"


def setup_paths():
    """Import strengths from $VERIF_REPO/src (working tree), never from a stale copy."""
    src = os.path.join(REPO, "src")
    if src in sys.path:
        sys.path.remove(src)
    sys.path.insert(0, src)
    if VERIF not in sys.path:
        sys.path.insert(0, VERIF)


def jsonable(x):
    """Best-effort conversion of a case description to JSON."""
    try:
        import numpy as np
    except Exception:  # pragma: no cover
        np = None
    if isinstance(x, dict):
        return {str(k): jsonable(v) for k, v in x.items()}
    if isinstance(x, (list, tuple)):
        return [jsonable(v) for v in x]
    if isinstance(x, (str, int, bool)) or x is None:
        return x
    if isinstance(x, float):
        if x != x or x in (float("inf"), float("-inf")):
            return repr(x)
        return x
    if np is not None:
        if isinstance(x, np.ndarray):
            return jsonable(x.tolist())
        if isinstance(x, np.generic):
            return jsonable(x.item())
    try:
        from fractions import Fraction
        if isinstance(x, Fraction):
            return str(x)
    except Exception:
        pass
    if isinstance(x, bytes):
        return x.hex()
    return repr(x)


class Violation:
    __slots__ = ("key", "what", "case")

    def __init__(self, key, what, case):
        self.key = key
        self.what = what
        self.case = case

    def to_tuple(self):
        return (self.key, self.what, jsonable(self.case))


def load_known_findings():
    p = os.path.join(VERIF, "known_findings.json")
    if not os.path.exists(p):
        return []
    with open(p, encoding="utf-8") as f:
        return json.load(f)["findings"]


class Context:
    """Accumulates the coverage of one check run and produces evidence + verdict."""

    MAX_SAMPLES = 6
    MAX_VIOL_PRINT = 25

    def __init__(self, pid, tier, seed):
        self.pid = pid
        self.tier = tier
        self.seed = seed
        self.t0 = time.time()
        self.counters = {}
        self.subspaces = []
        self.samples = []
        self.violations = []       # Violation
        self.rule_parts = []
        self.assumptions = []
        self.notes = {}
        self.states = 0
        self.transitions = 0
        self.traces = 0
        self.evaluations = 0
        self.nontrivial = 0
        self.exhaustive = True
        self.caps = []

    # ---- coverage ---------------------------------------------------------------------------
    def count(self, name, n=1):
        self.counters[name] = self.counters.get(name, 0) + n

    def merge_counts(self, d):
        for k, v in d.items():
            self.count(k, v)

    def sample(self, case):
        if len(self.samples) < self.MAX_SAMPLES:
            self.samples.append(jsonable(case))

    def subspace(self, name, size, evaluated=None, exhaustive=True, **extra):
        """Declare one completely (or, if capped, partially) enumerated sub-space."""
        if evaluated is None:
            evaluated = size
        d = {"name": name, "size": int(size), "evaluated": int(evaluated), "exhaustive": bool(exhaustive)}
        d.update(jsonable(extra))
        self.subspaces.append(d)
        if not exhaustive:
            self.exhaustive = False
            self.caps.append(name)

    def add(self, states=0, transitions=0, traces=0, evaluations=0, nontrivial=0):
        self.states += states
        self.transitions += transitions
        self.traces += traces
        self.evaluations += evaluations
        self.nontrivial += nontrivial

    def rule(self, text):
        self.rule_parts.append(text)

    def assume(self, text):
        self.assumptions.append(text)

    def note(self, k, v):
        self.notes[k] = jsonable(v)

    # ---- violations -------------------------------------------------------------------------
    def violation(self, key, what, case):
        self.violations.append(Violation(key, what, case))

    def merge_violations(self, tuples):
        for key, what, case in tuples:
            self.violations.append(Violation(key, what, case))

    # ---- verdict ----------------------------------------------------------------------------
    def finish(self):
        known = [k for k in load_known_findings() if k["property"] == self.pid and k["status"] == "open"]
        # group by key: first (simplest, enumeration order) case of each key is the replay
        bykey = {}
        for v in self.violations:
            bykey.setdefault(v.key, []).append(v)
        new_keys, known_hits = [], {}
        for key in bykey:
            hit = None
            for k in known:
                if fnmatch.fnmatchcase(key, k["key"]):
                    hit = k
                    break
            if hit is None:
                new_keys.append(key)
            else:
                known_hits.setdefault(hit["key"], (hit, []))[1].append(key)
        lines = []
        outdir = os.environ.get("VERIF_OUT") or VERIF      # experiments on scratch copies write elsewhere
        rdir = os.path.join(outdir, "replays", self.pid)
        for pat, (hit, keys) in known_hits.items():
            n = sum(len(bykey[k]) for k in keys)
            lines.append("KNOWN-FINDING: property=%s %s [key=%s, %d occurrence(s) in this run]"
                         % (self.pid, hit["what"], pat, n))
        for i, key in enumerate(new_keys):
            v = bykey[key][0]
            os.makedirs(rdir, exist_ok=True)
            fn = os.path.join(rdir, re.sub(r"[^A-Za-z0-9_.,=+-]", "_", key)[:150] + ".json")
            with open(fn, "w", encoding="utf-8") as f:
                json.dump({"property": self.pid, "key": key, "what": v.what, "case": jsonable(v.case),
                           "occurrences": len(bykey[key]),
                           "replay_cmd": "/venv/bin/python /verif/run.py %s --replay %s" % (self.pid, fn)},
                          f, indent=1, ensure_ascii=False)
            if i < self.MAX_VIOL_PRINT:
                lines.append("VIOLATION property=%s replay=%s" % (self.pid, fn))
                lines.append("  key=%s (%d occurrence(s)): %s" % (key, len(bykey[key]), v.what[:600]))
        if len(new_keys) > self.MAX_VIOL_PRINT:
            lines.append("  ... %d further violation keys (all written under %s)"
                         % (len(new_keys) - self.MAX_VIOL_PRINT, rdir))
        wall = time.time() - self.t0
        cov = {
            "states": int(self.states),
            "transitions": int(self.transitions),
            "traces_validated_against_impl": int(self.traces),
            "evaluations": int(self.evaluations),
            "distinct_nontrivial": int(self.nontrivial),
            "rule": " | ".join(self.rule_parts),
            "samples": self.samples,
            "exhaustive": bool(self.exhaustive),
            "caps_hit": self.caps,
            "subspaces": self.subspaces,
            "counters": {k: int(v) if isinstance(v, (int, bool)) else v for k, v in sorted(self.counters.items())},
            "known_finding_keys_seen": sorted(known_hits),
            "new_violation_keys": new_keys[:50],
        }
        cov.update(self.notes)
        ev = {
            "property_id": self.pid,
            "tier": self.tier,
            "seed": int(self.seed),
            "level": LEVEL,
            "coverage": cov,
            "assumptions": self.assumptions,
            "wall_s": round(wall, 3),
            "violations": len(new_keys),
        }
        os.makedirs(os.path.join(outdir, "evidence"), exist_ok=True)
        with open(os.path.join(outdir, "evidence", self.pid + ".json"), "w", encoding="utf-8") as f:
            json.dump(ev, f, indent=1, ensure_ascii=False)
        for ln in lines:
            print(ln)
        print("%s tier=%s seed=%d states=%d transitions=%d traces=%d evaluations=%d nontrivial=%d "
              "exhaustive=%s violations=%d known=%d wall=%.1fs"
              % (self.pid, self.tier, self.seed, self.states, self.transitions, self.traces,
                 self.evaluations, self.nontrivial, self.exhaustive, len(new_keys), len(known_hits), wall))
        sys.stdout.flush()
        return 1 if new_keys else 0


class Acc:
    """Worker-side accumulator; picklable summary merged into the Context by the parent."""

    def __init__(self):
        self.counts = {}
        self.viol = []
        self.samples = []
        self.states = self.transitions = self.traces = self.evaluations = self.nontrivial = 0

    def count(self, k, n=1):
        self.counts[k] = self.counts.get(k, 0) + n

    def violation(self, key, what, case):
        if len(self.viol) < 2000:
            self.viol.append((key, what, jsonable(case)))
        else:
            self.count("violations_dropped_over_2000")

    def sample(self, case):
        if len(self.samples) < 2:
            self.samples.append(jsonable(case))

    def add(self, states=0, transitions=0, traces=0, evaluations=0, nontrivial=0):
        self.states += states
        self.transitions += transitions
        self.traces += traces
        self.evaluations += evaluations
        self.nontrivial += nontrivial

    def pack(self):
        return {"counts": self.counts, "viol": self.viol, "samples": self.samples,
                "n": (self.states, self.transitions, self.traces, self.evaluations, self.nontrivial)}


def merge(ctx, packed):
    ctx.merge_counts(packed["counts"])
    ctx.merge_violations(packed["viol"])
    for s in packed["samples"]:
        ctx.sample(s)
    s, t, tr, e, n = packed["n"]
    ctx.add(s, t, tr, e, n)
