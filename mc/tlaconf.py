"""Model-based part of C10: TLC explores spec/Lifecycle.tla completely (bounded by MaxOps), dumps its state
graph, and EVERY path of that graph is replayed against the real engine (trace validation):

  * TLC checks the model's own invariants (completion exact and sticky, driver return = not complete);
  * the graph's paths are grouped by their operation sequence; each maximal sequence is executed once on a
    fresh engine object and, after every operation, the implementation's observables (is_complete, number of
    iterations done = t/dt, number of records, value returned by the driver call) must equal those of at least
    one model path with the same operations (the model is non-deterministic only in whether sample() on a step
    that already holds a record takes another one).
"""
import os
import re
import shutil
import subprocess

from . import core, eng, models

SPEC_DIR = os.path.join(core.VERIF, "spec")
OPS = {"Setup": "S", "Drive(1)": "I", "Drive(2)": "N", "Drive(0)": "Z", "Sample": "P", "Finalize": "F"}


class ModelUnavailable(Exception):
    pass


def run_tlc(K, max_ops, tag):
    """Returns (nodes {id: state dict}, edges [(src, dst, op)], init id, tlc summary line)."""
    work = os.path.join(core.VERIF, ".scratch", "tlc-%s-%d" % (tag, os.getpid()))
    shutil.rmtree(work, ignore_errors=True)
    os.makedirs(work)
    try:
        shutil.copy(os.path.join(SPEC_DIR, "Lifecycle.tla"), work)
        with open(os.path.join(work, "Lifecycle.cfg"), "w") as f:
            f.write("CONSTANTS\n  K = %d\n  MaxOps = %d\nINIT Init\nNEXT Next\nINVARIANTS TypeOK CompleteIffK RetMatches\n" % (K, max_ops))
        try:
            p = subprocess.run(["tlc", "-workers", "1", "-noGenerateSpecTE", "-deadlock", "-metadir", os.path.join(work, "meta"),
                                "-dump", "dot,actionlabels", os.path.join(work, "graph"), "Lifecycle"],
                               cwd=work, stdout=subprocess.PIPE, stderr=subprocess.STDOUT, text=True, timeout=600)
        except (OSError, subprocess.TimeoutExpired) as e:
            raise ModelUnavailable("tlc could not be run: %s" % e)
        out = p.stdout
        if "No error has been found" not in out:
            if "is violated" in out or "Error:" in out:
                raise ModelUnavailable("TLC reports an error in the model itself:\n" + out[-1500:])
            raise ModelUnavailable("unexpected TLC output:\n" + out[-1500:])
        summary = [l for l in out.splitlines() if "distinct states found" in l]
        with open(os.path.join(work, "graph.dot")) as f:
            dot = f.read()
    finally:
        shutil.rmtree(work, ignore_errors=True)
    nodes, edges, init = {}, [], None
    for m in re.finditer(r'^(-?\d+) \[label="((?:[^"\\]|\\.)*)"(,style = filled)?', dot, re.M):
        st = {}
        for part in m.group(2).split("\\n"):
            part = part.replace("/\\\\ ", "").replace("/\\ ", "").strip()
            if "=" in part:
                k, v = [x.strip() for x in part.split("=", 1)]
                v = v.replace('\\"', "").replace('"', "")
                st[k] = {"TRUE": True, "FALSE": False}.get(v, int(v) if re.fullmatch(r"-?\d+", v) else v)
        nodes[m.group(1)] = st
        if m.group(3):
            init = m.group(1)
    for m in re.finditer(r'^(-?\d+) -> (-?\d+) \[label="((?:[^"\\]|\\.)*)"', dot, re.M):
        edges.append((m.group(1), m.group(2), m.group(3)))
    if init is None or not edges:
        raise ModelUnavailable("could not parse the TLC state graph")
    return nodes, edges, init, (summary[0].strip() if summary else "")


def obs_of(state):
    """What the implementation can observe of a model state."""
    if state["st"] != "live":
        return (state["st"],)
    return ("live", state["k"], state["done"], state["nrec"], state["ret"])


def paths_by_ops(nodes, edges, init):
    """{operation string: set of observation sequences}, over all maximal paths of the DAG."""
    succ = {}
    for a, b, lab in edges:
        succ.setdefault(a, []).append((b, lab))
    out = {}
    npaths = [0]

    def rec(node, ops, obs):
        nx = succ.get(node, [])
        if not nx:
            npaths[0] += 1
            out.setdefault(ops, set()).add(obs)
            return
        for b, lab in nx:
            rec(b, ops + OPS[lab], obs + (obs_of(nodes[b]),))
    rec(init, "", ())
    return out, npaths[0]


def script_for(kind, K):
    engine, gtype = kind
    space = ({"type": "grid", "w": 2, "h": 1, "d": 1, "vol": 1.0} if gtype == "grid" else
             {"type": "graph", "nodes": [{"vol": 1.0, "env": 0}, {"vol": 2.0, "env": 0}], "edges": [[0, 1, 1.5, 0.75]]})
    if engine == "gillespie":
        a = K - 1      # K-1 events, then the K-th iteration finds nothing left to happen
        spec = {"species": [{"label": "A", "D": 0.0}, {"label": "B", "D": 0.0}],
                "reactions": [{"eq": [[["A", 1]], [["B", 1]]], "kf": 1.0, "kr": 0.0}], "envs": [""], "space": space,
                "state": [float(a - a // 2), float(a // 2), 0.0, 0.0]}
        return {"system": spec, "t_sample": [0], "t_max": 1e6, "policy": "no_sampling", "seed": 3, "isp": "none"}
    spec = {"species": [{"label": "A", "D": 0.5}, {"label": "B", "D": 0.25}],
            "reactions": [{"eq": [[["A", 1]], [["B", 1]]], "kf": 0.8, "kr": 0.1}], "envs": [""], "space": space,
            "state": [9.0, 4.0, 6.0, 8.0]}
    return {"system": spec, "t_sample": [0], "time_step": 0.25, "t_max": (K - 1) * 0.25 + 0.1, "policy": "no_sampling",
            "seed": 3, "isp": "none"}


def replay(kind, K, ops, allowed, variant="plain"):
    """Executes `ops` on a fresh engine; returns [] or [(key-suffix, message)] at the first non-conforming prefix."""
    engine = eng.make_engine(kind[0], variant)
    script = models.build_script(script_for(kind, K))
    fixed = kind[0] != "gillespie"
    live = False
    ret = "none"
    cands = set(allowed)          # model paths still consistent with what was observed
    for q, op in enumerate(ops):
        if op == "S":
            engine.setup(script)
            live = True
            ret = "none"
        elif op == "F":
            engine.finalize()
            live = False
        elif op == "P":
            engine.sample()
        else:
            r = {"I": engine.iterate, "N": lambda: engine.iterate_n(2), "Z": lambda: engine.iterate_n(0)}[op]()
            ret = "true" if r else "false"
        if live:
            nrec = len(engine.get_output().t)
            done = bool(engine.is_complete())
            k = int(round(eng.raw_time(engine) / 0.25)) if fixed else None
            o = ("live", k, done, nrec, ret)
        else:
            o = ("released",)
        new = set()
        for c in cands:
            m = c[q]
            if m == o or (not fixed and len(m) == 5 and len(o) == 5 and (m[0], m[2], m[3], m[4]) == (o[0], o[2], o[3], o[4])):
                new.add(c)
        if not new:
            exp = sorted({c[q] for c in cands})
            field = "state"
            if len(o) == 5 and exp and len(exp[0]) == 5:
                for i, nm in ((2, "is_complete"), (1, "iterations"), (4, "driver-return"), (3, "records")):
                    if all(e[i] != o[i] for e in exp) and not (i == 1 and not fixed):
                        field = nm
                        break
            if live:
                try:
                    engine.finalize()
                except Exception:
                    pass
            return [("model-conformance:%s" % field,
                     "operations %s on %r: after '%s' the implementation shows (st, iterations, complete, records, last driver return) "
                     "= %r, the model allows %r" % (ops[:q + 1], kind, op, o, exp))]
        cands = new
    if live:
        engine.finalize()
    return []
