"""Reference sampling contract (DESIGN appendix A.4).

Given the step times 0 = T_0 < T_1 < ... < T_K actually taken by a run (from the implementation's own
per-iteration run), the request list, the policy, the interval and t_max, says which steps MUST be
recorded and which MAY be.  Near-tie rule: a request within EPS (relative) of a step time may be
attributed to that step or the next one; a request within EPS of t_max is optional.
"""
EPS = 1e-9


_EXACT = [False]


def _eps(v):
    return 0.0 if _EXACT[0] else EPS * max(1.0, abs(v))


def first_candidates(T, r):
    """Set of step indices that may be 'the first step at or after r' (empty if none exists)."""
    out = set()
    for rr in (r - _eps(r), r + _eps(r)):
        for k, t in enumerate(T):
            if t >= rr:
                out.add(k)
                break
    # if the upper variant finds nothing but the lower does, the lower one stays (request ~ at the last step)
    return out


def contract(T, requests, policy, interval=None, t_max=None, exact=False):
    """Returns (required, allowed): required = list of candidate sets (each must contain a recorded
    step); allowed = set of step indices that may be recorded.  exact=True: all quantities lie on an
    exactly representable lattice, so the decisions are exact (no near-tie slack)."""
    _EXACT[0] = bool(exact)
    try:
        return _contract(T, requests, policy, interval, t_max)
    finally:
        _EXACT[0] = False


def _contract(T, requests, policy, interval, t_max):
    K = len(T) - 1
    if policy == "on_iteration":
        return [{k} for k in range(K + 1)], set(range(K + 1))
    if policy == "no_sampling":
        return [], set()
    if policy == "on_t_sample":
        required, allowed = [], set()
        for r in requests:
            c = first_candidates(T, r)
            allowed |= c
            if not c:
                continue
            definitely_within = (t_max is None) or (r <= t_max - _eps(t_max))
            # a request is only certainly served if a step at or after it certainly exists
            exists_for_sure = any(t >= r + _eps(r) for t in T)   # exact mode: a step at or after r exists
            if definitely_within and exists_for_sure:
                required.append(c)
        return required, allowed
    if policy == "on_interval":
        required, allowed = [], set()
        m = 0
        while True:
            r = m * interval
            if r > T[-1] + _eps(T[-1]):
                break
            c = first_candidates(T, r)
            allowed |= c
            if c and any(t >= r + _eps(r) for t in T):
                required.append(c)
            m += 1
            if m > 100000:
                break
        return required, allowed
    raise ValueError(policy)


def check_records(T, rec_idx, required, allowed):
    """rec_idx: the step index of each record, in record order. Returns a list of (class, message)."""
    out = []
    for a, b in zip(rec_idx, rec_idx[1:]):
        if not b > a:
            out.append(("not-strictly-increasing", "record steps %r are not strictly increasing" % (rec_idx,)))
            break
    s = set(rec_idx)
    for c in required:
        if not (s & c):
            out.append(("required-record-missing", "no record at step(s) %r (times %r); recorded steps %r"
                        % (sorted(c), [T[k] for k in sorted(c)], rec_idx)))
            break
    extra = [k for k in rec_idx if k not in allowed]
    if extra:
        out.append(("unrequested-record", "record(s) at step(s) %r (times %r) serve no request; allowed steps %r"
                    % (extra, [T[k] for k in extra], sorted(allowed))))
    return out


def selftest():
    T = [0.0, 0.25, 0.5, 0.75]
    req, alw = contract(T, [0.0, 0.125, 0.25, 0.25, 0.3], "on_t_sample", t_max=0.5, exact=True)
    assert alw == {0, 1, 2} and [sorted(c) for c in req] == [[0], [1], [1], [1], [2]]
    assert check_records(T, [0, 1, 2], req, alw) == []
    assert check_records(T, [0, 2], req, alw)[0][0] == "required-record-missing"
    assert check_records(T, [0, 1, 2, 3], req, alw)[0][0] == "unrequested-record"
    # request beyond t_max: optional
    req, alw = contract(T, [0.6], "on_t_sample", t_max=0.5, exact=True)
    assert req == [] and alw == {3}
    # request after the last step: nothing
    req, alw = contract(T, [0.9], "on_t_sample", t_max=0.5, exact=True)
    assert req == [] and alw == set()
    # interval 0.375 on dt 0.25: multiples 0, .375, .75 -> steps 0, 2, 3
    req, alw = contract(T, [], "on_interval", interval=0.375, exact=True)
    assert req == [{0}, {2}, {3}] and alw == {0, 2, 3}
    req, alw = contract(T, [0.25, 0.5], "on_t_sample", t_max=0.5, exact=True)
    assert req == [{1}, {2}] and alw == {1, 2}
    # near-tie mode: request 0.3 with a step at 0.30000000000000004 may be served by step 3 or 4
    T2 = [0.0, 0.1, 0.2, 0.30000000000000004, 0.4]
    req, alw = contract(T2, [0.3], "on_t_sample", t_max=1.0)
    assert alw == {3, 4} and req == [{3, 4}]
    req, alw = contract(T2, [0.15], "on_t_sample", t_max=1.0)
    assert alw == {2} and req == [{2}]
    return True
