"""Reference rate law (DESIGN appendix A.2), computed from a plain *spec* (numbers, lists, dicts) —
never from library objects.  All numbers of a spec are in one unit system.

spec = {
  "species":   [{"label": "A", "D": num | {env: num, "default": num}, "density": ..., "chstt": ...}, ...],
  "reactions": [{"eq": [[("A",1),("B",2)], [("C",1)]], "kf": num | {env: num}, "kr": num | {env: num}}, ...],
  "envs":      ["e0", "e1"],
  "space":     {"type": "grid", "w":, "h":, "d":, "bc": {"x": "reflecting"|"periodical", ...}, "env": [..], "vol": num}
             | {"type": "graph", "nodes": [{"vol": num, "env": int}], "edges": [[i, j, surface, distance], ...]},
  "state":     [species-major list]   (optional), "chemostats": [species-major 0/1 list] (optional)
}
"""


def lookup(value, env, default=0.0):
    """dict lookup -> 'default' -> default; scalars apply everywhere."""
    if isinstance(value, dict):
        if env in value:
            return value[env]
        if "default" in value:
            return value["default"]
        return default
    return value


def ncells(space):
    if space["type"] == "grid":
        return space["w"] * space["h"] * space["d"]
    return len(space["nodes"])


def cell_env(space):
    if space["type"] == "grid":
        e = space.get("env", 0)
        if isinstance(e, int):
            return [e] * ncells(space)
        return list(e)
    return [n.get("env", 0) for n in space["nodes"]]


def cell_vol(space):
    if space["type"] == "grid":
        return [float(space.get("vol", 1.0))] * ncells(space)
    return [float(n.get("vol", 1.0)) for n in space["nodes"]]


def grid_faces(w, h, d, bc):
    """For each cell, the list of neighbour cells seen through its (up to) 6 faces (a multiset:
    a periodic axis of length 2 shows the same neighbour twice, of length 1 shows the cell itself)."""
    per = [bc.get("x", "reflecting") == "periodical", bc.get("y", "reflecting") == "periodical",
           bc.get("z", "reflecting") == "periodical"]
    dims = [w, h, d]
    out = []
    for z in range(d):
        for y in range(h):
            for x in range(w):
                c = [x, y, z]
                lst = []
                for ax in range(3):
                    for step in (+1, -1):
                        n = list(c)
                        n[ax] += step
                        if per[ax]:
                            n[ax] %= dims[ax]
                        if 0 <= n[ax] < dims[ax]:
                            lst.append(n[2] * w * h + n[1] * w + n[0])
                out.append(lst)
    return out


def interfaces(space):
    """List per cell i of (j, surface, distance): every interface through which i exchanges with j."""
    n = ncells(space)
    vol = cell_vol(space)
    out = [[] for _ in range(n)]
    if space["type"] == "grid":
        faces = grid_faces(space["w"], space["h"], space["d"], space.get("bc", {}))
        for i in range(n):
            v = vol[i]
            for j in faces[i]:
                out[i].append((j, v ** (2.0 / 3.0), v ** (1.0 / 3.0)))
    else:
        for e in space["edges"]:
            i, j, s, dd = e[0], e[1], float(e[2]), float(e[3])
            out[i].append((j, s, dd))
            out[j].append((i, s, dd))
    return out


def side_coeffs(side, labels):
    v = [0] * len(labels)
    for lab, c in side:
        v[labels.index(lab)] += int(c)
    return v


def irreversible(spec):
    """[(substrate coefficient vector, net vector, k value-or-dict)] — forward and reverse of each reaction."""
    labels = [s["label"] for s in spec["species"]]
    out = []
    for r in spec.get("reactions", []):
        a = side_coeffs(r["eq"][0], labels)
        b = side_coeffs(r["eq"][1], labels)
        out.append((a, [y - x for x, y in zip(a, b)], r.get("kf", 0.0)))
        out.append((b, [x - y for x, y in zip(a, b)], r.get("kr", 0.0)))
    return out


def dbar(Di, Dj, Vi, Vj):
    if Di == 0 or Dj == 0:
        return 0.0
    hi = Vi ** (1.0 / 3.0)
    hj = Vj ** (1.0 / 3.0)
    return (hi + hj) / (hi / Di + hj / Dj)


def rhs(spec, state=None, apply_chemostats=True, chemostats=None):
    """Returns (f, scale): species-major lists of d(amount)/dt and of the sum of absolute terms."""
    sp = spec["species"]
    envs = spec.get("envs", [""])
    space = spec["space"]
    n = ncells(space)
    ns = len(sp)
    x = list(spec["state"] if state is None else state)
    env = cell_env(space)
    vol = cell_vol(space)
    itf = interfaces(space)
    irr = irreversible(spec)
    if chemostats is None:
        chemostats = spec.get("chemostats") or [0] * (ns * n)
    f = [0.0] * (ns * n)
    sc = [0.0] * (ns * n)
    for i in range(n):
        e = envs[env[i]]
        V = vol[i]
        for a, nu, kk in irr:
            k = float(lookup(kk, e, 0.0))
            if k == 0.0:
                continue
            rate = k * V
            for s in range(ns):
                if a[s]:
                    rate *= (x[s * n + i] / V) ** a[s]
            for s in range(ns):
                if nu[s]:
                    f[s * n + i] += nu[s] * rate
                    sc[s * n + i] += abs(nu[s] * rate)
        for s in range(ns):
            Di = float(lookup(sp[s].get("D", 0.0), e, 0.0))
            for (j, S, dd) in itf[i]:
                Dj = float(lookup(sp[s].get("D", 0.0), envs[env[j]], 0.0))
                Db = dbar(Di, Dj, V, vol[j])
                if Db == 0.0:
                    continue
                g = Db * S / dd
                tin = g * x[s * n + j] / vol[j]
                tout = g * x[s * n + i] / V
                f[s * n + i] += tin - tout
                sc[s * n + i] += abs(tin) + abs(tout)
    if apply_chemostats:
        for q in range(ns * n):
            if chemostats[q]:
                f[q] = 0.0
    return f, sc


def euler_step(spec, x, dt, chemostats=None):
    f, sc = rhs(spec, state=x, apply_chemostats=True, chemostats=chemostats)
    return [xi + dt * fi for xi, fi in zip(x, f)], [dt * s for s in sc]


def selftest():
    # hand-computed: A + 2 B -> C (k=3) in one cell of volume 2, x = (4, 6, 1); reverse k = 5
    spec = {"species": [{"label": "A"}, {"label": "B"}, {"label": "C"}],
            "reactions": [{"eq": [[("A", 1), ("B", 2)], [("C", 1)]], "kf": 3.0, "kr": 5.0}],
            "envs": [""], "space": {"type": "grid", "w": 1, "h": 1, "d": 1, "vol": 2.0},
            "state": [4.0, 6.0, 1.0]}
    f, sc = rhs(spec)
    fwd = 3.0 * 2.0 * (4 / 2) * (6 / 2) ** 2    # 108
    rev = 5.0 * 2.0 * (1 / 2)                    # 5
    assert abs(f[0] - (-(fwd - rev))) < 1e-12 and abs(f[1] - (-2 * (fwd - rev))) < 1e-12 and abs(f[2] - (fwd - rev)) < 1e-12
    # diffusion between two unit cells, D = 2 and 6 (harmonic mean 3), x = (10, 4): flux = 3*(4-10) = -18
    spec = {"species": [{"label": "A", "D": {"a": 2.0, "b": 6.0}}], "reactions": [], "envs": ["a", "b"],
            "space": {"type": "grid", "w": 2, "h": 1, "d": 1, "env": [0, 1], "vol": 1.0}, "state": [10.0, 4.0]}
    f, sc = rhs(spec)
    assert abs(f[0] + 18) < 1e-12 and abs(f[1] - 18) < 1e-12, f
    # periodic axis of length 2: two faces -> double flux; length 1: none
    spec["space"]["bc"] = {"x": "periodical"}
    f, sc = rhs(spec)
    assert abs(f[0] + 36) < 1e-12
    # graph: volumes 1 and 8 (h = 1, 2), D = 3 both, S = 5, d = 2: g = 3*5/2 = 7.5; f0 = 7.5*(x1/8 - x0/1)
    spec = {"species": [{"label": "A", "D": 3.0}], "reactions": [], "envs": [""],
            "space": {"type": "graph", "nodes": [{"vol": 1.0, "env": 0}, {"vol": 8.0, "env": 0}], "edges": [[0, 1, 5.0, 2.0]]},
            "state": [2.0, 16.0]}
    f, sc = rhs(spec)
    assert abs(f[0] - 7.5 * (2 - 2)) < 1e-12
    spec["state"] = [2.0, 32.0]
    f, sc = rhs(spec)
    assert abs(f[0] - 7.5 * (4 - 2)) < 1e-12 and abs(f[1] + 15) < 1e-12
    assert grid_faces(1, 1, 1, {"x": "periodical"}) == [[0, 0]]
    return True
