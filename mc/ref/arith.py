"""Reference model of arithmetic on quantities (property C05): exact rational arithmetic on SI values.

Written from the statement of C05 and documentation/using_quantities_with_units.rst (section "Operations on
UnitValue and UnitArrays"), not from strengths/units.py.  Nothing here imports strengths.

A reference operand is either a plain number `Num(val)` or a quantity `Qty(vals, scales, dim, arr, unit)`:

    vals    exact SI values (Fractions), one per element (one element for a scalar quantity)
    scales  per element error scale s >= |val|: the magnitude a *relative* tolerance refers to.  For a leaf
            s = |val|; sums add the scales of their terms, so a result of cancellation is judged against the
            size of what was added, never against the (possibly tiny) difference
    dim     dimension vector (space, time, quantity), integers
    arr     True for an array quantity, False for a scalar quantity
    unit    SI value of 1 [stored units] of that operand, or None when unknown.  Only needed when the *other*
            operand is a plain number in + - % or a comparison ("plain numbers take the other operand's units")

Rules (statement of C05):
    + - %  and  < <= > >=   need equal dimensions, otherwise the operation must raise
    == / !=                 SI equality for equal dimensions; False / True for different dimensions
    * /                     dimensions add / subtract; a plain number is dimensionless
    q ** p                  scalar q; dimension * p, must raise unless every component stays integral
    unary -, abs            on the SI value(s), dimension unchanged
    arrays                  element-wise; a scalar operand broadcasts; two arrays need equal length or raise
"""
from fractions import Fraction as F
import math

TOL = F(1, 10 ** 12)      # relative tolerance on SI values of results
NEAR = F(1, 10 ** 9)      # near-tie band of discontinuous outcomes (comparisons, %)

ARITH = ("add", "sub", "mul", "div", "mod")
ORDER = ("lt", "le", "gt", "ge")
EQUAL = ("eq", "ne")
COMPARE = ORDER + EQUAL
UNARY = ("neg", "abs")
SAME_DIM = ("add", "sub", "mod") + COMPARE      # a plain number takes the quantity's stored units here
SYMBOL = {"add": "+", "sub": "-", "mul": "*", "div": "/", "mod": "%", "pow": "**", "neg": "-x", "abs": "abs",
          "eq": "==", "ne": "!=", "lt": "<", "le": "<=", "gt": ">", "ge": ">="}


class Num:
    __slots__ = ("val",)

    def __init__(self, val):
        self.val = F(val)


class Qty:
    __slots__ = ("vals", "scales", "dim", "arr", "unit")

    def __init__(self, vals, dim, arr, unit=None, scales=None):
        self.vals = [F(v) for v in vals]
        self.scales = [abs(v) for v in self.vals] if scales is None else [F(s) for s in scales]
        self.dim = tuple(int(d) for d in dim)
        self.arr = bool(arr)
        self.unit = None if unit is None else F(unit)
        if not self.arr and len(self.vals) != 1:
            raise ValueError("a scalar quantity has one value")

    def with_unit(self, unit):
        return Qty(self.vals, self.dim, self.arr, unit, self.scales)


class Raises:
    """The operation is dimensionally meaningless and must raise."""
    __slots__ = ("why",)

    def __init__(self, why):
        self.why = why      # 'dimension' | 'length' | 'exponent'


class Skip:
    """No verdict for this case (outcome discontinuous and the exact value is inside the near-tie band,
    or the case is outside the real-valued domain)."""
    __slots__ = ("why",)

    def __init__(self, why):
        self.why = why


class Resolved:
    """Operands of a binary operation after units/length resolution: aligned element lists."""
    __slots__ = ("a", "sa", "b", "sb", "dim", "arr", "n")


def resolve(op, A, B):
    """Give units to plain numbers, check dimensions and lengths, broadcast.  Returns Resolved or Raises.
    For == / != with different dimensions returns the string 'different-dimensions'."""
    if isinstance(A, Num) and isinstance(B, Num):
        raise ValueError("no quantity operand: not in the alphabet")
    if op in SAME_DIM:
        if isinstance(A, Num):
            if B.unit is None:
                raise ValueError("stored unit of the quantity operand unknown")
            A = Qty([A.val * B.unit] * 1, B.dim, False)
        elif isinstance(B, Num):
            if A.unit is None:
                raise ValueError("stored unit of the quantity operand unknown")
            B = Qty([B.val * A.unit] * 1, A.dim, False)
        if A.dim != B.dim:
            if op in EQUAL:
                return "different-dimensions"
            return Raises("dimension")
        dim = A.dim
    elif op in ("mul", "div"):
        if isinstance(A, Num):
            A = Qty([A.val], (0, 0, 0), False)
        if isinstance(B, Num):
            B = Qty([B.val], (0, 0, 0), False)
        sg = 1 if op == "mul" else -1
        dim = tuple(x + sg * y for x, y in zip(A.dim, B.dim))
    else:
        raise ValueError(op)
    if A.arr and B.arr and len(A.vals) != len(B.vals):
        return Raises("length")
    n = max(len(A.vals), len(B.vals))
    r = Resolved()
    r.n = n
    r.arr = A.arr or B.arr
    r.dim = dim
    r.a = A.vals if len(A.vals) == n else A.vals * n
    r.sa = A.scales if len(A.scales) == n else A.scales * n
    r.b = B.vals if len(B.vals) == n else B.vals * n
    r.sb = B.scales if len(B.scales) == n else B.scales * n
    return r


def _floor(x):
    return x.numerator // x.denominator


def dist_to_integer(x):
    f = x - _floor(x)
    return min(f, 1 - f)


def mod_near_tie(a, sa, b, sb):
    """a/b is so close to an integer that rounding of the operands may change floor(a/b)."""
    q = a / b
    sq = sa / abs(b) + abs(a) * sb / (b * b)        # error scale of the quotient (>= 2|q| ... first order)
    return dist_to_integer(q) <= NEAR * max(F(1), sq)


def arith(op, A, B):
    """Exact result of A op B for op in add sub mul div mod: Qty, Raises, or Skip (mod inside the near-tie
    band: the value is discontinuous there; use check_mod for a verdict on a single modulo)."""
    r = resolve(op, A, B)
    if isinstance(r, Raises):
        return r
    vals, scales = [], []
    for a, sa, b, sb in zip(r.a, r.sa, r.b, r.sb):
        if op == "add":
            v, s = a + b, sa + sb
        elif op == "sub":
            v, s = a - b, sa + sb
        elif op == "mul":
            v = a * b
            s = sa * abs(b) + abs(a) * sb - abs(v)
        elif op == "div":
            if b == 0:
                return Skip("division by an exact zero")
            v = a / b
            s = sa / abs(b) + abs(a) * sb / (b * b) - abs(v)
        elif op == "mod":
            if b == 0:
                return Skip("modulo by an exact zero")
            if mod_near_tie(a, sa, b, sb):
                return Skip("modulo near-tie")
            k = _floor(a / b)
            v = a - k * b                            # sign of the divisor, 0 <= v*sign(b) < |b|
            s = sa + abs(k) * sb
        else:
            raise ValueError(op)
        vals.append(v)
        scales.append(max(s, abs(v)))
    return Qty(vals, r.dim, r.arr, None, scales)


def check_mod(a, sa, b, sb, got):
    """Verdict on one element of a modulo as a congruence.  got: exact SI value of the returned remainder.
    Returns (problem or None, near_tie flag).  problem is 'mod-congruence' or 'mod-range'."""
    k = round((a - got) / b)
    resid = abs(a - got - k * b)
    if resid > TOL * (sa + abs(k) * sb):
        return "mod-congruence", False
    near = mod_near_tie(a, sa, b, sb)
    if near:
        return None, True
    sgn = 1 if b > 0 else -1
    if not (0 <= got * sgn < abs(b)):
        return "mod-range", False
    return None, False


def compare(op, A, B, tie_is_exact=False):
    """True / False, Raises, or Skip (near-tie).  tie_is_exact: the caller guarantees that an exact tie of
    the SI values is also a tie of the stored numbers (same stored units, or a plain number partner), so the
    outcome of an exact tie is specified."""
    r = resolve(op, A, B)
    if isinstance(r, Raises):
        return r
    if r == "different-dimensions":
        return op == "ne"
    if r.arr:
        raise ValueError("comparisons involving an array are not in the alphabet")
    a, b, sa, sb = r.a[0], r.b[0], r.sa[0], r.sb[0]
    if a == b:
        if not tie_is_exact:
            return Skip("comparison near-tie")
    elif abs(a - b) <= NEAR * (sa + sb):
        return Skip("comparison near-tie")
    return {"lt": a < b, "le": a <= b, "gt": a > b, "ge": a >= b, "eq": a == b, "ne": a != b}[op]


def unary(op, A):
    if op == "neg":
        return Qty([-v for v in A.vals], A.dim, A.arr, A.unit, A.scales)
    if op == "abs":
        return Qty([abs(v) for v in A.vals], A.dim, A.arr, A.unit, A.scales)
    raise ValueError(op)


class Root:
    """Expected result of q ** (num/den): the real number e with e**den == a**num (e > 0 when den > 1)."""
    __slots__ = ("a", "sa", "num", "den", "dim")


def power(A, num, den):
    """A ** (num/den) for a scalar quantity A.  Returns Root, Raises('exponent') or Skip."""
    if not isinstance(A, Qty) or A.arr:
        raise ValueError("** is defined on scalar quantities only")
    p = F(num, den)
    num, den = p.numerator, p.denominator
    dim = []
    for d in A.dim:
        e = d * p
        if e.denominator != 1:
            return Raises("exponent")
        dim.append(int(e))
    a = A.vals[0]
    if a == 0 and num <= 0:
        return Skip("0 ** non-positive")
    if a < 0 and den != 1:
        return Skip("fractional power of a negative value")
    r = Root()
    r.a, r.sa, r.num, r.den, r.dim = a, A.scales[0], num, den, tuple(dim)
    return r


def check_root(root, got):
    """None if the exact SI value `got` is root.a ** (num/den) within tolerance, else a relative deviation."""
    a, num, den = root.a, root.num, root.den
    if a == 0:
        return None if got == 0 else float("inf")
    if den > 1 and got <= 0:
        return float("inf")
    target = a ** num                                   # exact rational (num may be negative)
    lhs = got ** den
    rel = abs(lhs / target - 1)
    p = abs(F(num, den))
    allowed = TOL * (1 + p * (root.sa / abs(a) - 1)) * den * F(101, 100)
    if rel <= allowed:
        return None
    return float(rel) / den


def root_float(root):
    """Approximate float of the expected value (for messages only)."""
    try:
        neg = root.a < 0 and root.den == 1 and root.num % 2 == 1
        return (-1.0 if neg else 1.0) * abs(float(root.a)) ** (root.num / root.den)
    except (OverflowError, ZeroDivisionError, ValueError):
        return float("nan")


def close(got, exact, scale):
    """|got - exact| <= TOL * scale, in exact arithmetic."""
    return abs(got - exact) <= TOL * scale


def fmt(x):
    """Float rendering of a Fraction for messages; never raises."""
    try:
        return "%.17g" % (x.numerator / x.denominator)
    except (OverflowError, ZeroDivisionError):
        return "%s*2^%d" % ("-" if x < 0 else "", x.numerator.bit_length() - x.denominator.bit_length())


def selftest():
    m = Qty([F(3)], (1, 0, 0), False, unit=F(1, 1000))             # 3000 mm
    s = Qty([F(2)], (0, 1, 0), False, unit=F(1))
    two = Num(2)
    assert arith("add", m, Num(5)).vals == [F(3) + F(5, 1000)]      # a number takes the stored units
    assert arith("mul", m, two).vals == [F(6)] and arith("mul", m, two).dim == (1, 0, 0)
    assert arith("div", two, s).dim == (0, -1, 0) and arith("div", two, s).vals == [F(1)]
    assert isinstance(arith("add", m, s), Raises) and isinstance(arith("mod", m, s), Raises)
    assert compare("eq", m, s) is False and compare("ne", m, s) is True
    assert isinstance(compare("lt", m, s), Raises)
    assert compare("lt", m, Num(3001)) is True and compare("ge", Num(3001), m) is True
    assert isinstance(compare("eq", m, Num(3000)), Skip) and compare("eq", m, Num(3000), True) is True
    a2 = Qty([F(1), F(2)], (1, 0, 0), True)
    a3 = Qty([F(1), F(2), F(3)], (1, 0, 0), True)
    assert isinstance(arith("mul", a2, a3), Raises) and arith("add", a2, m).vals == [F(4), F(5)]
    r = arith("mod", Qty([F(-7)], (1, 0, 0), False), Qty([F(2)], (1, 0, 0), False))
    assert r.vals == [F(1)]
    r = arith("mod", Qty([F(7)], (1, 0, 0), False), Qty([F(-2)], (1, 0, 0), False))
    assert r.vals == [F(-1)]
    assert check_mod(F(7), F(7), F(2), F(2), F(1)) == (None, False)
    assert check_mod(F(7), F(7), F(2), F(2), F(3))[0] == "mod-range"
    assert check_mod(F(7), F(7), F(2), F(2), F(3, 2))[0] == "mod-congruence"
    assert check_mod(F(8), F(8), F(2), F(2), F(0)) == (None, True)
    assert isinstance(power(m, 1, 2), Raises) and isinstance(power(m, 1, 3), Raises)
    v = Qty([F(8)], (3, 0, -3), False)
    rt = power(v, 1, 3)
    assert rt.dim == (1, 0, -1) and check_root(rt, F(2)) is None and check_root(rt, F(2) + F(1, 10 ** 9)) is not None
    rt = power(v, -2, 1)
    assert rt.dim == (-6, 0, 6) and check_root(rt, F(1, 64)) is None
    assert power(Qty([F(5)], (0, 0, 0), False), 1, 2).dim == (0, 0, 0)
    d = arith("sub", Qty([F(1)], (1, 0, 0), False), Qty([F(1) - F(1, 10 ** 15)], (1, 0, 0), False))
    assert d.scales[0] > 1 and close(F(0), d.vals[0], d.scales[0])
    return True
