"""Reference model of *physical equality* of strengths model objects (DESIGN appendix A.7).

Two objects are physically equal when every quantity they carry has the same value in SI (exact
rational scales of ref/si.py applied to the stored number and the stored units), every discrete field is
identical, and the declared unit systems are identical.  Written from the property statement (C12, C04)
and documentation/json_and_dict_doc.rst; nothing is imported from strengths: objects are read through
their public attributes only.

    species     label; per-environment D, density (SI) and chemostat flag after expansion of the
                "default" entry over the environments (documented: an environment that is not listed takes
                "default", and "default" is 0 / false when absent); declared unit system
    reaction    label; substrate and product coefficients (zero coefficients ignored); per-environment
                k+ and k- in SI; declared unit system
    network     ordered species, ordered reactions, ordered environments; declared unit system
    grid        w, h, d; environment map; cell volume in SI; boundary conditions; declared unit system
    graph       ordered nodes (volume SI, environment, declared unit system), ordered edges (i, j, surface
                SI, distance SI, declared unit system); declared unit system
    system      network, space, state in SI, chemostat map, declared unit system
    script      system, sample times / time step / t_max / sampling interval in SI, sampling policy,
                initial-state processing mode, seed, declared unit system
    trajectory  system, script (or None), data and sample times in SI and the shape of the two arrays (flat),
                engine description / option, cgmap

`describe(obj)` returns a nested description (dict / list / leaves); `diff(a, b)` the list of
human-readable differences (empty = physically equal); `diff_entries(a, b)` the structured form used to
build violation keys (innermost object kind + field).
"""
from fractions import Fraction as F

from . import si

REL_TOL = 1e-9
OTHER_ENV = "<any other environment>"


# ---- quantities ----------------------------------------------------------------------------------

def sys3(us):
    return (us.space, us.time, us.quantity)


def dim3(ud):
    return (int(ud.space), int(ud.time), int(ud.quantity))


class Q:
    """A physical quantity: dimension vector + exact SI value of the stored float."""
    __slots__ = ("dim", "si")

    def __init__(self, dim, si_value):
        self.dim = tuple(dim)
        self.si = si_value

    def __repr__(self):
        try:
            return "%.17g SI%s" % (float(self.si), list(self.dim))
        except (TypeError, ValueError):
            return "%r SI%s" % (self.si, list(self.dim))


def _frac(x):
    x = float(x)
    if x != x or x in (float("inf"), float("-inf")):
        return repr(x)
    return F(x)


def _scale(units):
    return si.si_scale(sys3(units.sys), dim3(units.dim))


def q_scalar(q):
    """Q of a UnitValue-like object (attributes .value, .units.sys, .units.dim)."""
    v = _frac(q.value)
    return Q(dim3(q.units.dim), v * _scale(q.units) if isinstance(v, F) else v)


def q_array(q):
    """List of Q of a UnitArray-like object."""
    sc = _scale(q.units)
    dim = dim3(q.units.dim)
    out = []
    for x in _flat(q.value):
        v = _frac(x)
        out.append(Q(dim, v * sc if isinstance(v, F) else v))
    return out


def shape_of(q):
    """shape of the stored values of a UnitArray-like object (a 1-D array of n values -> [n])"""
    v = q.value
    sh = getattr(v, "shape", None)
    if sh is not None:
        return [int(x) for x in sh]
    return [len(v)]


def _flat(v):
    try:
        it = iter(v)
    except TypeError:
        return [v]
    out = []
    for x in it:
        out.extend(_flat(x))
    return out


def q_equal(a, b, tol=REL_TOL):
    if a.dim != b.dim:
        return False
    if not isinstance(a.si, F) or not isinstance(b.si, F):
        return a.si == b.si
    if a.si == b.si:
        return True
    m = max(abs(a.si), abs(b.si))
    return abs(a.si - b.si) <= F(tol) * m


# ---- "default" expansion ---------------------------------------------------------------------------

def in_env(value, env, default):
    """Documented meaning of a per-environment dictionary."""
    if isinstance(value, dict):
        if env in value:
            return value[env]
        if "default" in value:
            return value["default"]
        return default
    return value


def _env_keys(*values):
    ks = []
    for v in values:
        if isinstance(v, dict):
            for k in v:
                if k != "default" and k not in ks:
                    ks.append(k)
    return ks


class _Zero:
    """Physical zero of any dimension (the documented default of density / D / k)."""

    def __init__(self, dim):
        self.dim = dim


def _q_or_zero(v, dim):
    if isinstance(v, _Zero):
        return Q(dim, F(0))
    return q_scalar(v)


def _kind(obj):
    return type(obj).__name__


# ---- descriptions ------------------------------------------------------------------------------------

def describe_species(s, envs=None):
    if envs is None:
        envs = sorted(_env_keys(s.D, s.density, s.chstt)) + [OTHER_ENV]
    d_dim, c_dim = (2, -1, 0), (-3, 0, 1)
    return {
        "__kind__": "species",
        "label": s.label,
        "D": {e: _q_or_zero(in_env(s.D, e, _Zero(d_dim)), d_dim) for e in envs},
        "density": {e: _q_or_zero(in_env(s.density, e, _Zero(c_dim)), c_dim) for e in envs},
        "chstt": {e: bool(in_env(s.chstt, e, False)) for e in envs},
        "units_system": sys3(s.units_system),
    }


def _coefs(d):
    return {k: int(v) for k, v in sorted(d.items()) if int(v) != 0}


def describe_reaction(r, envs=None):
    if envs is None:
        envs = sorted(_env_keys(r.kf, r.kr)) + [OTHER_ENV]
    sub, pro = _coefs(r.substrates), _coefs(r.products)
    ns, np_ = sum(sub.values()), sum(pro.values())
    kf_dim = (3 * ns - 3, -1, 1 - ns)
    kr_dim = (3 * np_ - 3, -1, 1 - np_)
    return {
        "__kind__": "reaction",
        "label": r.label,
        "substrates": sub,
        "products": pro,
        "k+": {e: _q_or_zero(in_env(r.kf, e, _Zero(kf_dim)), kf_dim) for e in envs},
        "k-": {e: _q_or_zero(in_env(r.kr, e, _Zero(kr_dim)), kr_dim) for e in envs},
        "units_system": sys3(r.units_system),
    }


def describe_network(n):
    envs = list(n.environments)
    return {
        "__kind__": "rdnetwork",
        "environments": envs,
        "species": [describe_species(s, envs) for s in n.species],
        "reactions": [describe_reaction(r, envs) for r in n.reactions],
        "units_system": sys3(n.units_system),
    }


def describe_grid(g):
    bc = g.get_boundary_conditions()
    return {
        "__kind__": "rdgridspace",
        "type": "grid",
        "w": int(g.w), "h": int(g.h), "d": int(g.d),
        "cell_env": [int(x) for x in _flat(g.cell_env)],
        "cell_volume": q_scalar(g.cell_vol),
        "boundary_conditions": {a: bc.get(a) for a in ("x", "y", "z")},
        "units_system": sys3(g.units_system),
    }


def describe_graph(g):
    return {
        "__kind__": "rdgraphspace",
        "type": "graph",
        "nodes": [{"__kind__": "rdgraphspacenode", "volume": q_scalar(n.volume),
                   "environment": int(n.environment), "units_system": sys3(n.units_system)} for n in g.nodes],
        "edges": [{"__kind__": "rdgraphspaceedge", "i": int(e.i), "j": int(e.j), "surface": q_scalar(e.surface),
                   "distance": q_scalar(e.distance), "units_system": sys3(e.units_system)} for e in g.edges],
        "units_system": sys3(g.units_system),
    }


def describe_space(sp):
    k = _kind(sp)
    if k == "RDGridSpace":
        return describe_grid(sp)
    if k == "RDGraphSpace":
        return describe_graph(sp)
    raise TypeError("not a space: %r" % (sp,))


def describe_system(s):
    return {
        "__kind__": "rdsystem",
        "network": describe_network(s.network),
        "space": describe_space(s.space),
        "state": q_array(s.state),
        "state_shape": shape_of(s.state),
        "chemostats": [int(x) for x in _flat(s.chemostats)],
        "units_system": sys3(s.units_system),
    }


def describe_script(sc):
    return {
        "__kind__": "rdscript",
        "system": describe_system(sc.system),
        "t_sample": q_array(sc.t_sample),
        "t_sample_shape": shape_of(sc.t_sample),
        "time_step": q_scalar(sc.time_step),
        "t_max": q_scalar(sc.t_max),
        "sampling_policy": sc.sampling_policy,
        "sampling_interval": q_scalar(sc.sampling_interval),
        "rng_seed": int(sc.rng_seed),
        "init_state_processing": sc.init_state_processing,
        "units_system": sys3(sc.units_system),
    }


def describe_trajectory(t):
    return {
        "__kind__": "rdtrajectory",
        "system": describe_system(t.system),
        "script": None if t.script is None else describe_script(t.script),
        "data": q_array(t.data),
        "data_shape": shape_of(t.data),          # flat: nsamples * nspecies * ncells values, len(data) = that number
        "t_sample": q_array(t.t),
        "t_sample_shape": shape_of(t.t),
        "engine_description": t.engine_description,
        "engine_option": t.engine_option,
        "cgmap": None if t.cgmap is None else [int(x) for x in _flat(t.cgmap)],
    }


def default_state_si(network, space):
    """documented default state: amount of species s in cell i = density of s in the environment of i x volume of i
    (species-major list of Q, molecules)"""
    dn, ds = describe_network(network), describe_space(space)
    if ds["type"] == "grid":
        envs, vols = ds["cell_env"], [ds["cell_volume"]] * len(ds["cell_env"])
    else:
        envs, vols = [n["environment"] for n in ds["nodes"]], [n["volume"] for n in ds["nodes"]]
    out = []
    for sp in dn["species"]:
        for e, v in zip(envs, vols):
            out.append(Q((0, 0, 1), sp["density"][dn["environments"][e]].si * v.si))
    return out


def default_chemostats(network, space):
    """documented default map: flag of species s in the environment of cell i (species-major list of 0 / 1)"""
    dn, ds = describe_network(network), describe_space(space)
    envs = ds["cell_env"] if ds["type"] == "grid" else [n["environment"] for n in ds["nodes"]]
    return [int(sp["chstt"][dn["environments"][e]]) for sp in dn["species"] for e in envs]


_DISPATCH = {
    "Species": describe_species, "Reaction": describe_reaction, "RDNetwork": describe_network,
    "RDGridSpace": describe_grid, "RDGraphSpace": describe_graph, "RDSystem": describe_system,
    "RDScript": describe_script, "RDTrajectory": describe_trajectory,
}


def describe(obj):
    k = _kind(obj)
    if k not in _DISPATCH:
        raise TypeError("no physical description for %s" % k)
    return _DISPATCH[k](obj)


# ---- comparison --------------------------------------------------------------------------------------

class Diff:
    __slots__ = ("kind", "field", "path", "a", "b")

    def __init__(self, kind, field, path, a, b):
        self.kind, self.field, self.path, self.a, self.b = kind, field, path, a, b

    def text(self):
        return "%s: %s != %s" % (self.path or "<object>", _show(self.a), _show(self.b))

    def __repr__(self):
        return self.text()


def _show(x):
    s = repr(x)
    return s if len(s) <= 160 else s[:157] + "..."


def _walk(a, b, path, kind, field, out):
    if isinstance(a, dict) and isinstance(b, dict):
        ka, kb = a.get("__kind__"), b.get("__kind__")
        if ka != kb:
            out.append(Diff(kind, field, path, "a %s" % ka, "a %s" % kb))
            return
        if ka is not None:
            kind, field = ka, None
        keys = [k for k in a if k != "__kind__"] + [k for k in b if k not in a and k != "__kind__"]
        for k in keys:
            f = field if field is not None else str(k)
            p = "%s.%s" % (path, k) if path else str(k)
            if k not in a or k not in b:
                out.append(Diff(kind, f, p, a.get(k, "<absent>"), b.get(k, "<absent>")))
            else:
                _walk(a[k], b[k], p, kind, f, out)
        return
    if isinstance(a, list) and isinstance(b, list):
        if len(a) != len(b):
            out.append(Diff(kind, field, path + ".<length>", len(a), len(b)))
            return
        for i, (x, y) in enumerate(zip(a, b)):
            _walk(x, y, "%s[%d]" % (path, i), kind, field, out)
        return
    if isinstance(a, Q) and isinstance(b, Q):
        if not q_equal(a, b):
            out.append(Diff(kind, field, path, a, b))
        return
    if isinstance(a, tuple) and isinstance(b, tuple):
        if a != b:
            out.append(Diff(kind, field, path, a, b))
        return
    if type(a) is not type(b) or a != b:
        out.append(Diff(kind, field, path, a, b))


def diff_descriptions(da, db):
    out = []
    _walk(da, db, "", None, None, out)
    return out


def diff_entries(a, b):
    """Structured differences between two model objects of the same class."""
    ka, kb = _kind(a), _kind(b)
    if ka != kb:
        return [Diff(ka, "<class>", "", ka, kb)]
    if ka in ("Species", "Reaction"):
        # stand-alone: compare over the union of the explicitly listed environments plus "any other"
        if ka == "Species":
            envs = sorted(set(_env_keys(a.D, a.density, a.chstt, b.D, b.density, b.chstt))) + [OTHER_ENV]
            return diff_descriptions(describe_species(a, envs), describe_species(b, envs))
        envs = sorted(set(_env_keys(a.kf, a.kr, b.kf, b.kr))) + [OTHER_ENV]
        return diff_descriptions(describe_reaction(a, envs), describe_reaction(b, envs))
    return diff_descriptions(describe(a), describe(b))


def diff(a, b):
    """Human-readable list of physical differences (empty list = physically equal)."""
    return [d.text() for d in diff_entries(a, b)]


def equal(a, b):
    return not diff_entries(a, b)


# ---- self-test -----------------------------------------------------------------------------------------

def selftest():
    """Checks the model against hand-computed facts on real strengths objects."""
    import os
    import sys
    repo = os.environ.get("VERIF_REPO", "/repo")
    src = os.path.join(repo, "src")
    if src not in sys.path:
        sys.path.insert(0, src)
    import numpy as np
    from strengths.units import UnitsSystem, UnitValue, UnitArray
    from strengths.rdnetwork import Species, Reaction, RDNetwork
    from strengths.rdgridspace import RDGridSpace
    from strengths.rdgraphspace import RDGraphSpace, RDGraphSpaceNode, RDGraphSpaceEdge
    from strengths.rdsystem import RDSystem
    from strengths.rdscript import RDScript
    from strengths.rdoutput import RDTrajectory

    U = UnitsSystem(space="m", time="min", quantity="mol")
    # exact SI meaning: 3 m2/min = 0.05 m2/s ; 2 mol/m3 = 2*NA molecules / m3
    d = describe_species(Species("A", D=3, density=2, units_system=U))
    assert q_equal(d["D"][OTHER_ENV], Q((2, -1, 0), F(3, 60)))
    assert q_equal(d["density"][OTHER_ENV], Q((-3, 0, 1), 2 * si.AVOGADRO))
    # same physical species written in other units (1 m2/min = 1e12/60 um2/s): equal except the declared system
    a = Species("A", D="6 m2/min", density="1 mol/m3", units_system=U)
    b = Species("A", D=UnitValue(1e11, "µm2/s"), density=UnitValue(602214.076, "molecule/µm3"), units_system=U)
    assert diff(a, b) == [], diff(a, b)
    c = Species("A", D="6 m2/min", density="1 mol/m3")
    es = diff_entries(a, c)
    assert [(e.kind, e.field) for e in es] == [("species", "units_system")], es
    # "default" expansion and the documented defaults
    assert equal(Species("A", density={"e1": 5}), Species("A", density={"e1": 5, "default": 0}))
    assert equal(Species("A", chstt=False), Species("A", chstt={}))
    assert equal(Species("A", chstt={"e1": 1}), Species("A", chstt={"e1": True, "default": False}))
    assert not equal(Species("A", density={"e1": 5}), Species("A", density={"e1": 5, "default": 1}))
    assert not equal(Species("A", D=1), Species("A", D=1.0000001))
    assert equal(Species("A", D=1), Species("A", D=1.0 + 1e-13))
    # inside a network a partial dictionary is expanded over the network's environments
    n1 = RDNetwork([Species("A", density={"e1": 5, "default": 7})], [], environments=["e1", "e2"])
    n2 = RDNetwork([Species("A", density={"e1": 5, "e2": 7})], [], environments=["e1", "e2"])
    n3 = RDNetwork([Species("A", density={"e1": 5, "e2": 7})], [], environments=["e2", "e1"])
    assert equal(n1, n2) and not equal(n2, n3)
    # reactions: coefficients, repeated species, empty sides, rate constant dimensions
    r1, r2 = Reaction("A + A -> ", kf=2, kr=3), Reaction("2 A -> ", kf=2, kr=3)
    assert equal(r1, r2)
    d = describe_reaction(r1)
    assert d["k+"][OTHER_ENV].dim == (3, -1, -1) and d["k-"][OTHER_ENV].dim == (-3, -1, 1)
    es = diff_entries(Reaction("A -> B", kf=2), Reaction("A -> B", kf={"e": 2, "default": 3}))
    assert [(e.kind, e.field) for e in es] == [("reaction", "k+")], es
    assert not equal(Reaction("A -> B", label="x"), Reaction("A -> B"))
    assert not equal(Reaction("A -> 2 B"), Reaction("A -> B"))
    # spaces
    g1 = RDGridSpace(w=2, h=1, d=1, cell_env=[0, 1], cell_vol="1 µm3")
    g2 = RDGridSpace(w=2, h=1, d=1, cell_env=np.array([0, 1]), cell_vol=UnitValue(1e-18, "m3"))
    assert equal(g1, g2)
    g3 = RDGridSpace(w=2, h=1, d=1, cell_env=[0, 1], boundary_conditions={"y": "periodical"})
    es = diff_entries(g1, g3)
    assert [(e.kind, e.field) for e in es] == [("rdgridspace", "boundary_conditions")], es
    assert not equal(g1, RDGridSpace(w=1, h=2, d=1, cell_env=[0, 1]))
    gr1 = RDGraphSpace([RDGraphSpaceNode(2, 0, U), RDGraphSpaceNode(3, 1)], [RDGraphSpaceEdge(0, 1, 5, 7, U)])
    gr2 = RDGraphSpace([RDGraphSpaceNode(2, 0, U), RDGraphSpaceNode(3, 1)], [RDGraphSpaceEdge(0, 1, 5, 7)])
    es = diff_entries(gr1, gr2)
    assert sorted(set((e.kind, e.field) for e in es)) == [("rdgraphspaceedge", "distance"),
                                                          ("rdgraphspaceedge", "surface"),
                                                          ("rdgraphspaceedge", "units_system")], es
    assert not equal(g1, gr1)
    # systems, scripts, trajectories
    s1 = RDSystem(n1, g1)
    s2 = RDSystem(n2, g2)
    assert equal(s1, s2)
    assert [float(x.si) for x in describe_system(s1)["state"]] == [5.0, 7.0]
    s3 = RDSystem(n1, g1, state=UnitArray([5, 7], "mol"))
    es = diff_entries(s1, s3)
    assert [(e.kind, e.field) for e in es] == [("rdsystem", "state")] * 2, es
    s4 = RDSystem(n1, g1, chemostats=[0, 1])
    assert [(e.kind, e.field) for e in diff_entries(s1, s4)] == [("rdsystem", "chemostats")]
    assert [float(x.si) for x in default_state_si(n1, g1)] == [5.0, 7.0] and default_chemostats(n1, g1) == [0, 0]
    gq = RDGraphSpace([RDGraphSpaceNode(2, 0), RDGraphSpaceNode(8, 0), RDGraphSpaceNode(3, 1)], [])
    assert [float(x.si) for x in default_state_si(n1, gq)] == [10.0, 40.0, 21.0]
    sc1 = RDScript(s1, [0, 60, 120], time_step=6, rng_seed=3, init_state_processing="none")
    sc2 = RDScript(s1, UnitArray([0, 1, 2], "min"), time_step="0.1 min", t_max="2 min", rng_seed=3,
                   init_state_processing="none")
    assert equal(sc1, sc2), diff(sc1, sc2)
    sc3 = RDScript(s1, [0, 60, 120], time_step=6, rng_seed=3)
    assert [(e.kind, e.field) for e in diff_entries(sc1, sc3)] == [("rdscript", "init_state_processing")]
    t1 = RDTrajectory(UnitArray([1, 2, 3, 4], "molecule"), UnitArray([0, 1], "s"), s1, script=sc1)
    t2 = RDTrajectory(UnitArray([1, 2, 3, 4], "molecule"), UnitArray([0, 1], "s"), s1)
    t3 = RDTrajectory(UnitArray([1, 2, 3, 4], "molecule"), UnitArray([0, 1], "s"), s1, script=sc1,
                      cgmap=np.array([0, 0]))
    t4 = RDTrajectory(UnitArray([1, 2, 3, 4], "molecule"), UnitArray([0, 1], "s"), s1, script=sc1, cgmap=[0, 0])
    assert equal(t3, t4) and not equal(t1, t2) and not equal(t1, t3)
    assert [(e.kind, e.field) for e in diff_entries(t1, t3)] == [("rdtrajectory", "cgmap")]
    # same numbers in another array shape are not the same trajectory (flat indexing, len() differ)
    t6 = RDTrajectory(UnitArray(np.array([[1, 2], [3, 4]]), "molecule", check_value=False), UnitArray([0, 1], "s"), s1, script=sc1)
    assert [(e.kind, e.field) for e in diff_entries(t1, t6)] == [("rdtrajectory", "data_shape")], diff(t1, t6)
    # a nested difference is attributed to the innermost object
    t5 = RDTrajectory(UnitArray([1, 2, 3, 4], "molecule"), UnitArray([0, 1], "s"), s1, script=sc3)
    assert [(e.kind, e.field) for e in diff_entries(t1, t5)] == [("rdscript", "init_state_processing")]
    return True


if __name__ == "__main__":
    selftest()
    print("physical selftest ok")
