"""Integer basis of the left null space of a stoichiometric matrix (exact Gaussian elimination)."""
from fractions import Fraction as F
from math import gcd


def left_nullspace(S):
    """S: list of rows = species, columns = reactions (net stoichiometry, ints).
    Returns a list of integer vectors c (one entry per species) with c.S = 0, forming a basis."""
    ns = len(S)
    nr = len(S[0]) if ns else 0
    # solve c^T S = 0  <=>  S^T c = 0: null space of A = S^T (nr x ns)
    A = [[F(S[s][r]) for s in range(ns)] for r in range(nr)]
    piv = []
    row = 0
    for col in range(ns):
        p = None
        for r in range(row, nr):
            if A[r][col] != 0:
                p = r
                break
        if p is None:
            continue
        A[row], A[p] = A[p], A[row]
        pv = A[row][col]
        A[row] = [v / pv for v in A[row]]
        for r in range(nr):
            if r != row and A[r][col] != 0:
                fct = A[r][col]
                A[r] = [a - fct * b for a, b in zip(A[r], A[row])]
        piv.append(col)
        row += 1
        if row == nr:
            break
    free = [c for c in range(ns) if c not in piv]
    basis = []
    for fc in free:
        v = [F(0)] * ns
        v[fc] = F(1)
        for r, pc in enumerate(piv):
            v[pc] = -A[r][fc]
        den = 1
        for x in v:
            den = den * x.denominator // gcd(den, x.denominator)
        iv = [int(x * den) for x in v]
        g = 0
        for x in iv:
            g = gcd(g, abs(x))
        iv = [x // g for x in iv] if g else iv
        basis.append(iv)
    for c in basis:
        for r in range(nr):
            assert sum(c[s] * S[s][r] for s in range(ns)) == 0
    return basis


def selftest():
    # A + B -> C : conserved A + C, B + C (2-dim)
    b = left_nullspace([[-1], [-1], [1]])
    assert len(b) == 2
    # 2A -> B : A + 2B
    b = left_nullspace([[-2], [1]])
    assert b == [[1, 2]] or b == [[-1, -2]]
    # no reactions: unit vectors
    assert left_nullspace([[], []]) == [[1, 0], [0, 1]]
    # 0 -> A : nothing conserved involving A
    assert left_nullspace([[1], [0]]) == [[0, 1]]
    return True
