"""Reference chemical-master-equation generator (DESIGN appendix A.3), computed from a plain spec."""
import math

from . import ratelaw


def channels(spec, x, chemostats=None):
    """All channels of state x (species-major list of non-negative integers).
    Returns [(name, propensity, effect)] with effect a dict {entry index: delta} AFTER chemostat exemption
    (components at flagged entries dropped; the propensity is untouched)."""
    sp = spec["species"]
    envs = spec.get("envs", [""])
    space = spec["space"]
    n = ratelaw.ncells(space)
    ns = len(sp)
    env = ratelaw.cell_env(space)
    vol = ratelaw.cell_vol(space)
    itf = ratelaw.interfaces(space)
    irr = ratelaw.irreversible(spec)
    if chemostats is None:
        chemostats = spec.get("chemostats") or [0] * (ns * n)
    out = []
    for i in range(n):
        e = envs[env[i]]
        V = vol[i]
        for ri, (a, nu, kk) in enumerate(irr):
            k = float(ratelaw.lookup(kk, e, 0.0))
            order = sum(a)
            prop = k * V ** (1 - order)
            for s in range(ns):
                xs = x[s * n + i]
                if xs < a[s]:
                    prop = 0.0
                    break
                for q in range(a[s]):
                    prop *= (xs - q)
            eff = {}
            for s in range(ns):
                if nu[s] and not chemostats[s * n + i]:
                    eff[s * n + i] = eff.get(s * n + i, 0) + nu[s]
            out.append(("reaction %d%s in cell %d" % (ri // 2, "fr"[ri % 2], i), prop, eff))
        for s in range(ns):
            Di = float(ratelaw.lookup(sp[s].get("D", 0.0), e, 0.0))
            for fi, (j, S, dd) in enumerate(itf[i]):
                Dj = float(ratelaw.lookup(sp[s].get("D", 0.0), envs[env[j]], 0.0))
                Db = ratelaw.dbar(Di, Dj, V, vol[j])
                prop = x[s * n + i] * Db * S / (dd * V)
                eff = {}
                if not chemostats[s * n + i]:
                    eff[s * n + i] = eff.get(s * n + i, 0) - 1
                if not chemostats[s * n + j]:
                    eff[s * n + j] = eff.get(s * n + j, 0) + 1
                eff = {q: v for q, v in eff.items() if v != 0}
                out.append(("diffusion of species %d from cell %d to %d (interface %d)" % (s, i, j, fi), prop, eff))
    return out


def effect_key(eff):
    return tuple(sorted(eff.items()))


def effect_table(chs):
    """{effect key: summed propensity} over channels with positive propensity, and a0."""
    tab = {}
    a0 = 0.0
    for name, prop, eff in chs:
        if prop > 0:
            k = effect_key(eff)
            tab[k] = tab.get(k, 0.0) + prop
            a0 += prop
    return tab, a0


def apply_effect(x, key):
    y = list(x)
    for q, dv in key:
        y[q] += dv
    return y


def diff_key(x, y, tol=0.0):
    return tuple((q, int(round(b - a))) for q, (a, b) in enumerate(zip(x, y)) if b != a)


def exp1_quantiles(M):
    """-ln(1-u) for u = (k+1/2)/M: the Exp(1) quantiles at the grid points."""
    return [-math.log(1.0 - (k + 0.5) / M) for k in range(M)]


def selftest():
    # 2 cells, 2A <-> B (kf=4, kr=6), volume 2, D_A = 3, x = A:(3,0) B:(1,2)
    spec = {"species": [{"label": "A", "D": 3.0}, {"label": "B", "D": 0.0}],
            "reactions": [{"eq": [[("A", 2)], [("B", 1)]], "kf": 4.0, "kr": 6.0}], "envs": [""],
            "space": {"type": "grid", "w": 2, "h": 1, "d": 1, "vol": 2.0}}
    x = [3, 0, 1, 2]
    tab, a0 = effect_table(channels(spec, x))
    # forward in cell 0: 4 * 2^(1-2) * 3*2 = 12 ; reverse cell 0: 6*1 = 6 ; reverse cell 1: 6*2 = 12
    # diffusion A 0->1: 3 * 3 * 2^(2/3) / (2^(1/3) * 2) = 9 * 2^(1/3) / 2 ... = 3*3/2^(2/3)
    kd = 3.0 / 2.0 ** (2.0 / 3.0)
    assert abs(tab[((0, -2), (2, 1))] - 12) < 1e-12
    assert abs(tab[((0, 2), (2, -1))] - 6) < 1e-12
    assert abs(tab[((1, 2), (3, -1))] - 12) < 1e-12
    assert abs(tab[((0, -1), (1, 1))] - 3 * kd) < 1e-12
    assert abs(a0 - (30 + 3 * kd)) < 1e-12
    # chemostat on A in cell 0: effects lose that component, propensities unchanged
    tab2, a02 = effect_table(channels(spec, x, [1, 0, 0, 0]))
    assert abs(a02 - a0) < 1e-12 and abs(tab2[((2, 1),)] - 12) < 1e-12 and abs(tab2[((1, 1),)] - 3 * kd) < 1e-12
    return True
