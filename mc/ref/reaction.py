"""Reference model of reaction equations ('a A + b B -> c C') for C19.

Written from the property statement, the constructor documentation of `Reaction` ("substrate -> product",
ie. "A + 2 B -> C") and the dictionary documentation ("stoechiometry": "A + 2 B -> C"); NOT from
Reaction._fromstring.  A character scanner, no str.split.

Grammar (blank = space or tab):

    equation ::= side "->" side                       exactly one "->" in the whole text
    side     ::= blank*  |  term ( "+" term )*
    term     ::= blank* [ coef blank+ ] label blank*
    coef     ::= ASCII digit+                         (a coefficient is separated from its label by a blank)
    label    ::= one or more characters, none of them a blank or "+", not containing "->"

Meaning: per side a dictionary label -> sum of the coefficients of all its terms (missing coefficient = 1);
net change = products - substrates; order = sum of the coefficients of the side; rate-constant dimension of
a side of order n: (space, time, quantity) = (3n-3, -1, 1-n).

Label rules (the library states them only as error messages of its label check): no white space, no "+",
no "->".
"""

BLANKS = " \t"
WHITESPACE = " \t\n\r\x0b\x0c"


class EquationError(ValueError):
    pass


def label_ok(label):
    """The label rules: a string without white space, '+' or '->' (the empty string names nothing)."""
    if not isinstance(label, str) or label == "":
        return False
    for ch in label:
        if ch in WHITESPACE or ch == "+":
            return False
    return "->" not in label


def _tokens(side):
    """Scan one side into a list of terms, each a list of blank-separated words."""
    terms = [[]]
    word = ""
    for ch in side:
        if ch in BLANKS:
            if word:
                terms[-1].append(word)
                word = ""
        elif ch == "+":
            if word:
                terms[-1].append(word)
                word = ""
            terms.append([])
        else:
            word += ch
    if word:
        terms[-1].append(word)
    return terms


def _is_coef(word):
    return word != "" and all(c in "0123456789" for c in word)


def parse_side(side):
    """-> ordered list of (coefficient, label)."""
    terms = _tokens(side)
    if len(terms) == 1 and terms[0] == []:
        return []
    out = []
    for words in terms:
        if len(words) == 1:
            coef, label = 1, words[0]
        elif len(words) == 2:
            if not _is_coef(words[0]):
                raise EquationError("coefficient %r is not a non-negative integer" % words[0])
            coef, label = int(words[0]), words[1]
        elif len(words) == 0:
            raise EquationError("empty term")
        else:
            raise EquationError("term with %d words" % len(words))
        if not label_ok(label):
            raise EquationError("label %r breaks the label rules" % label)
        out.append((coef, label))
    return out


def split_arrow(text):
    i = text.find("->")
    if i < 0:
        raise EquationError("no '->'")
    if text.find("->", i + 2) >= 0:
        raise EquationError("more than one '->'")
    return text[:i], text[i + 2:]


def parse(text):
    """-> (substrate terms, product terms), each an ordered list of (coefficient, label)."""
    left, right = split_arrow(text)
    return parse_side(left), parse_side(right)


def summed(terms):
    """label -> summed coefficient, labels in order of first appearance (a list of pairs, no hash order)."""
    labels, coefs = [], []
    for c, l in terms:
        if l in labels:
            coefs[labels.index(l)] += c
        else:
            labels.append(l)
            coefs.append(c)
    return list(zip(labels, coefs))


def coefficient(terms, label):
    return sum(c for c, l in terms if l == label)


def vector(terms, labels):
    return [coefficient(terms, l) for l in labels]


def order(terms):
    return sum(c for c, l in terms)


def k_dimension(n):
    """Dimension (space, time, quantity) of the rate constant of a side of order n:
    amount^(1-n) x length^(3n-3) / time."""
    return (3 * n - 3, -1, 1 - n)


# ---- printer used by the enumeration (four spacing styles) ---------------------------------------

STYLES = ("single", "extra", "minimal", "tab")


def _term_text(coef, label, gap):
    if coef is None:
        return label
    return "%d%s%s" % (coef, gap, label)


def write(left, right, style):
    """Text of an equation whose sides are lists of (coefficient or None, label).
    single : 'a A + b B -> c C'           one blank between all tokens
    extra  : tabs and several blanks around every token, leading and trailing blanks
    minimal: no blank except the one a coefficient needs before its label
    tab    : one tab, no blank, between all tokens"""
    if style == "single":
        return " + ".join(_term_text(c, l, " ") for c, l in left) + " -> " + \
               " + ".join(_term_text(c, l, " ") for c, l in right)
    if style == "extra":
        def side(ts):
            if not ts:
                return " \t "
            return "\t  " + "  +\t".join(_term_text(c, l, " \t ") + " " for c, l in ts) + "\t"
        return side(left) + "->" + side(right)
    if style == "tab":
        # a single tab (no blank) wherever 'single' has a blank: column-aligned text
        return "\t+\t".join(_term_text(c, l, "\t") for c, l in left) + "\t->\t" + \
               "\t+\t".join(_term_text(c, l, "\t") for c, l in right)
    if style == "minimal":
        return "+".join(_term_text(c, l, " ") for c, l in left) + "->" + \
               "+".join(_term_text(c, l, " ") for c, l in right)
    raise ValueError(style)


def sides(labels, coefs, max_terms):
    """All sides (lists of (coef, label)) with 0..max_terms terms, shortest first, lexicographic."""
    terms = [(c, l) for l in labels for c in coefs]
    out = [[]]
    layer = [[]]
    for _ in range(max_terms):
        layer = [s + [t] for s in layer for t in terms]
        out.extend(layer)
    return out


def selftest():
    P = parse
    # the documented examples
    assert P("A + 2 B -> C") == ([(1, "A"), (2, "B")], [(1, "C")])
    assert P("A + B -> C") == ([(1, "A"), (1, "B")], [(1, "C")])
    assert P("A + 2 B -> 3 B") == ([(1, "A"), (2, "B")], [(3, "B")])
    assert P("B + 2 A -> 3 A") == ([(1, "B"), (2, "A")], [(3, "A")])
    assert P("C -> A + B") == ([(1, "C")], [(1, "A"), (1, "B")])
    # empty sides, spacing, repeats, zero
    assert P("->") == ([], []) and P(" \t->  ") == ([], [])
    assert P("->A") == ([], [(1, "A")]) and P("A->") == ([(1, "A")], [])
    assert P("2 A+B->C") == ([(2, "A"), (1, "B")], [(1, "C")])
    assert P("\t 2 \t A  +\tB \t->  C  ") == ([(2, "A"), (1, "B")], [(1, "C")])
    s, p = P("A + 2 A + 0 B -> 0 A + 9 C + C")
    assert summed(s) == [("A", 3), ("B", 0)] and summed(p) == [("A", 0), ("C", 10)]
    assert vector(s, ["C", "B", "A"]) == [0, 0, 3] and order(s) == 3 and order(p) == 10
    # a coefficient needs a blank: '2B' is a label
    assert P("2B -> 2 2B") == ([(1, "2B")], [(2, "2B")])
    assert P("α + H2O -> A_1") == ([(1, "α"), (1, "H2O")], [(1, "A_1")])
    assert P("A-B->x>y") == ([(1, "A-B")], [(1, "x>y")])
    for bad in ("A + B", "A -> B -> C", "A + + B -> C", "+ A -> C", "A + -> C", "A B C -> D", "x A -> B",
                "A ->-> B", "1.0 A -> B", "-1 A -> B"):
        try:
            P(bad)
        except EquationError:
            continue
        raise AssertionError("accepted %r" % bad)
    assert k_dimension(0) == (-3, -1, 1) and k_dimension(1) == (0, -1, 0) and k_dimension(2) == (3, -1, -1)
    assert label_ok("A_1") and label_ok("2B") and not label_ok("A B") and not label_ok("A+") \
        and not label_ok("A->B") and not label_ok("") and not label_ok("A\tB")
    # sizes of the enumerated side catalogues, and printer/parser fix-point over them in every style
    S2 = sides(["A", "B", "C"], [None, 0, 1, 2, 3, 9], 2)
    S4 = sides(["A", "B"], [None, 2], 4)
    assert len(S2) == 343 and len(S4) == 341
    probe = [[], [(None, "C")], [(2, "A"), (None, "A")]]
    for cat in (S2, S4):
        for s in cat:
            want = [(1 if c is None else c, l) for c, l in s]
            for o in probe:
                wo = [(1 if c is None else c, l) for c, l in o]
                for st in STYLES:
                    assert P(write(s, o, st)) == (want, wo), (s, o, st)
                    assert P(write(o, s, st)) == (wo, want), (o, s, st)
    return True
