"""Reference recogniser / evaluator of the documented text forms of units and quantities.

Written from documentation/using_quantities_with_units.rst, the C18 statement and DESIGN.md
Appendix A.1 - NOT from strengths/units.py.  Nothing here imports strengths.

    units    ::= "" | factor (sep factor)*          sep      ::= "." | "/"
    factor   ::= symbol exponent?                   exponent ::= "-"? digit+   (no "+", no blank, no ".")
    quantity ::= number blank+ units | number       number   ::= a plain decimal float literal

Meaning of a units text: dimension vector (space, time, amount) = sum over factors of
(+/-)exponent x dim(symbol), the sign being '-' for a factor introduced by "/" (a "/" acts on the ONE
factor that follows it: "mol/µm.s" is mol.µm-1.s, see the documentation's own examples);
SI scale = product of scale(symbol)^(+/-exponent), an exact Fraction.  A text that uses two different
base units of one kind - directly or through a litre / molar symbol - is rejected.

The symbol table is built here from SI prefix arithmetic (it is cross-checked against mc/ref/si.py and
against the table printed in the documentation by selftest(); the two were written separately).

Three-valued verdicts.  Some texts are neither promised to work nor listed as wrong by the documentation
or the statement; the recogniser answers UNSPECIFIED for them and the checks never build an expectation
on such a text:
  * an exponent that is zero or written with leading zeros ("m0", "m-0", "m02") - the documentation
    speaks of a "positive non-signed or negative exponent";
  * numbers that Python's float() accepts beyond plain decimal literals: nan / inf / infinity,
    underscores, non-ASCII digits;
  * the empty quantity text.
Blanks around the whole text are not part of the question (they are stripped before classification).
"""
from fractions import Fraction as F
import os
import re

VALID, INVALID, UNSPECIFIED = "valid", "invalid", "unspecified"

MICRO = "µ"                       # the micro sign used by the documentation and the package
AVOGADRO = F(602214076) * F(10) ** 15  # exact (2019 SI)
KINDS = ("space", "time", "quantity")
SEPARATORS = (".", "/")
BLANKS = " \t\n\r\x0b\x0c"
_DIGITS = "0123456789"

_P = {"k": 3, "": 0, "d": -1, "c": -2, "m": -3, MICRO: -6, "n": -9, "p": -12, "f": -15}


def _ten(e):
    return F(10) ** e


def _build_table():
    """symbol -> (column, exact SI scale, dimension vector, {kind: base symbol it stands on})."""
    tab = {}
    order = []

    def put(sym, col, scale, dim, uses):
        assert sym not in tab, sym
        tab[sym] = (col, scale, dim, uses)
        order.append(sym)

    # space: prefixed metres, plus the deci- and centi-millimetre of the documented table
    space = [(p + "m", _ten(_P[p])) for p in ("k", "", "d", "c", "m")]
    space += [("dmm", _ten(_P["d"] + _P["m"])), ("cmm", _ten(_P["c"] + _P["m"]))]
    space += [(p + "m", _ten(_P[p])) for p in (MICRO, "n", "p", "f")]
    for s, sc in space:
        put(s, "space", sc, (1, 0, 0), {"space": s})
    # time
    put("h", "time", F(3600), (0, 1, 0), {"time": "h"})
    put("min", "time", F(60), (0, 1, 0), {"time": "min"})
    for p in ("", "d", "c", "m", MICRO, "n", "p", "f"):
        put(p + "s", "time", _ten(_P[p]), (0, 1, 0), {"time": p + "s"})
    # amount
    for p in ("k", "", "d", "c", "m", MICRO, "n", "p", "f"):
        put(p + "mol", "quantity", AVOGADRO * _ten(_P[p]), (0, 0, 1), {"quantity": p + "mol"})
    put("molecule", "quantity", F(1), (0, 0, 1), {"quantity": "molecule"})
    # litres: 1 L = 1e-3 m3; the base length is the documented length whose cube is that volume
    litre = _ten(-3)
    by_scale = {sc: s for s, sc in space}
    for p in ("k", "", "m", MICRO, "n", "p", "f"):
        vol = litre * _ten(_P[p])
        base = [s for s, sc in space if sc ** 3 == vol]
        assert len(base) == 1, (p, base)
        put(p + "L", "volume", vol, (3, 0, 0), {"space": base[0]})
    # molar: x mol per litre (litre = dm3)
    for p in ("k", "", "d", "c", "m", MICRO, "n", "p", "f"):
        put(p + "M", "density", AVOGADRO * _ten(_P[p]) / litre, (-3, 0, 1),
            {"quantity": p + "mol", "space": by_scale[_ten(-1)]})
    return tab, order


TABLE, SYMBOL_ORDER = _build_table()          # 47 symbols, documentation column order
U_SPELLINGS = {"u" + s[1:]: s for s in ("µm", "µs", "µmol", "µL", "µM")}
ALL_SPELLINGS = SYMBOL_ORDER + list(U_SPELLINGS)   # 52
COLUMNS = ("space", "time", "quantity", "volume", "density")


def lookup(sym):
    """Table entry of a written symbol (u-spelling resolved) or None."""
    return TABLE.get(U_SPELLINGS.get(sym, sym))


class Factor:
    __slots__ = ("sep", "symbol", "exptext", "start", "expstart", "end")

    def __init__(self, sep, symbol, exptext, start, expstart, end):
        self.sep, self.symbol, self.exptext = sep, symbol, exptext
        self.start, self.expstart, self.end = start, expstart, end   # text[start:expstart]=symbol, [expstart:end]=exponent

    @property
    def exponent(self):
        return 1 if self.exptext == "" else int(self.exptext)


class Verdict:
    """status in {VALID, INVALID, UNSPECIFIED}; for VALID units: factors, dim, scale, bases."""

    def __init__(self, status, reason="", factors=None, dim=None, scale=None, bases=None,
                 number=None, units=None):
        self.status, self.reason = status, reason
        self.factors, self.dim, self.scale, self.bases = factors, dim, scale, bases
        self.number, self.units = number, units

    @property
    def valid(self):
        return self.status == VALID

    @property
    def invalid(self):
        return self.status == INVALID

    def __repr__(self):
        if self.status == VALID and self.dim is not None:
            return "Verdict(valid dim=%s scale=%s bases=%s)" % (self.dim, self.scale, self.bases)
        return "Verdict(%s: %s)" % (self.status, self.reason)


def _is_letter(ch):
    return ("a" <= ch <= "z") or ("A" <= ch <= "Z") or ch == MICRO


def split_factors(text):
    """Syntax only: list of Factor, or a string (reason) when the text is outside the grammar."""
    n = len(text)
    if n == 0:
        return []
    out = []
    sep = "."
    i = 0
    while True:
        j = i
        while j < n and _is_letter(text[j]):
            j += 1
        if j == i:
            if i == n:
                return "dangling separator at the end"
            if text[i] in SEPARATORS:
                return "separator without a preceding factor at %d" % i
            if text[i] in BLANKS:
                return "blank at %d" % i
            return "a factor must start with a symbol (position %d: %r)" % (i, text[i])
        k = j
        if k < n and text[k] == "-":
            k += 1
        d = k
        while k < n and text[k] in _DIGITS:
            k += 1
        if k == d and d != j:
            return "'-' without digits at %d" % j
        out.append(Factor(sep, text[i:j], text[j:k], i, j, k))
        if k == n:
            return out
        if text[k] not in SEPARATORS:
            if text[k] in BLANKS:
                return "blank at %d" % k
            return "unexpected character %r at %d" % (text[k], k)
        sep = text[k]
        i = k + 1


def classify_units(text):
    """Verdict for a units text (no outer stripping: a blank anywhere is outside the grammar)."""
    fs = split_factors(text)
    if isinstance(fs, str):
        return Verdict(INVALID, fs)
    unspecified = None
    for f in fs:
        if lookup(f.symbol) is None:
            return Verdict(INVALID, "unknown symbol %r" % f.symbol)
    for f in fs:
        if f.exptext != "":
            digits = f.exptext.lstrip("-")
            if int(digits) == 0:
                unspecified = "zero exponent %r" % (f.symbol + f.exptext)
            elif digits[0] == "0":
                unspecified = "exponent with leading zeros %r" % (f.symbol + f.exptext)
    if unspecified:
        return Verdict(UNSPECIFIED, unspecified)
    dim = [0, 0, 0]
    scale = F(1)
    bases = {}
    for f in fs:
        col, sc, d1, uses = lookup(f.symbol)
        e = f.exponent if f.sep == "." else -f.exponent
        for i in range(3):
            dim[i] += e * d1[i]
        scale *= sc ** e
        for kind, base in uses.items():
            if bases.setdefault(kind, base) != base:
                return Verdict(INVALID, "two different %s units: %s and %s" % (kind, bases[kind], base))
    return Verdict(VALID, "", factors=fs, dim=tuple(dim), scale=scale, bases=bases)


_NUMBER = re.compile(r"[+-]?(?:[0-9]+\.?[0-9]*|\.[0-9]+)(?:[eE][+-]?[0-9]+)?\Z")
_SPECIAL = re.compile(r"[+-]?(?:nan|inf|infinity)\Z", re.IGNORECASE)


def classify_number(text):
    if _NUMBER.match(text):
        return VALID
    if _SPECIAL.match(text):
        return UNSPECIFIED
    if "_" in text or any(ch.isdigit() and ch not in _DIGITS for ch in text):
        return UNSPECIFIED
    return INVALID


def classify_quantity(text):
    """Verdict for a quantity text; .number = the number's text, .units = Verdict of the units part."""
    t = text.strip(BLANKS)
    if t == "":
        return Verdict(UNSPECIFIED, "empty quantity text")
    i = 0
    while i < len(t) and t[i] not in BLANKS:
        i += 1
    num = t[:i]
    rest = t[i:].lstrip(BLANKS)
    ns = classify_number(num)
    uv = classify_units(rest)
    if ns == INVALID:
        return Verdict(INVALID, "%r is not a number" % num, number=num, units=uv)
    if uv.status == INVALID:
        return Verdict(INVALID, "units part: " + uv.reason, number=num, units=uv)
    if ns == UNSPECIFIED:
        return Verdict(UNSPECIFIED, "number form %r" % num, number=num, units=uv)
    if uv.status == UNSPECIFIED:
        return Verdict(UNSPECIFIED, "units part: " + uv.reason, number=num, units=uv)
    return Verdict(VALID, "", dim=uv.dim, scale=uv.scale, bases=uv.bases, factors=uv.factors,
                   number=num, units=uv)


def factor_text(sym, e):
    return sym if e is None else "%s%d" % (sym, e)


# ---- self test ---------------------------------------------------------------------------------------

DOC_UNITS_OK = ["mol/µm.s", "mol.µm-1.s-2", "mol/µm/s2", "mol1/µm1/s2"]
DOC_UNITS_WRONG = ["mol/µm. s", "mol//µm.s", "mol.µm-1.5.s-2", "mol.µm+1.s-2", "mol.µm 1.s-2"]
DOC_QUANTITY_OK = ["1 µm/s", "1.5 µm/s", "+1.3e-10 µm/s", "-1.3e-10 µm/s", "5 µM", "1 um", "1 µm",
                   "1e3 µmol/L.s-1"]
DOC_QUANTITY_WRONG = ["1µm/s", "a µm/s", "[1, 2] µm/s", "{'v', 1} µm/s", "2m", "a"]


def _doc_path():
    repo = os.environ.get("VERIF_REPO", "/repo")
    return os.path.join(repo, "documentation", "using_quantities_with_units.rst")


def _doc_examples(path):
    """(units_ok, units_wrong, quantity_ok, quantity_wrong, table symbols) read from the documentation."""
    uo, uw, qo, qw, table = [], [], [], [], []
    with open(path, encoding="utf-8") as f:
        lines = f.read().split("\n")
    for ln in lines:
        m = re.match(r'\s*(parse_units|UnitValue)\("([^"]*)"\)\s*#\s*(OK|wrong)', ln)
        if m:
            fn, s, verdict = m.groups()
            {("parse_units", "OK"): uo, ("parse_units", "wrong"): uw,
             ("UnitValue", "OK"): qo, ("UnitValue", "wrong"): qw}[(fn, verdict)].append(s)
        if ln.startswith("|") and ln.endswith("|"):
            cells = [c.strip() for c in ln.strip("|").split("|")]
            if len(cells) == 5 and cells != list(COLUMNS):
                for col, c in zip(COLUMNS, cells):
                    if c:
                        table.append((col, c))
    return uo, uw, qo, qw, table


def selftest():
    from . import si
    assert len(TABLE) == 47 and len(ALL_SPELLINGS) == 52 and len(set(ALL_SPELLINGS)) == 52
    # cross-check with the separately written SI table
    assert set(TABLE) == set(si.SYMBOLS), set(TABLE) ^ set(si.SYMBOLS)
    for s in SYMBOL_ORDER:
        col, sc, dim, uses = TABLE[s]
        assert (sc, dim) == si.symbol_scale_dim(s), s
        assert uses == {k: b for k, b, e in si.SYMBOLS[s]}, s
        for kind, b in uses.items():
            assert TABLE[b][0] == kind and TABLE[b][3] == {kind: b}
    assert U_SPELLINGS == si.U_SPELLINGS
    assert TABLE["nL"][3] == {"space": "dmm"} and TABLE["nL"][1] == F(10) ** -12
    assert TABLE["µM"][1] == AVOGADRO / 1000 and TABLE["M"][3] == {"quantity": "mol", "space": "dm"}
    # the documentation's own examples
    for s in DOC_UNITS_OK:
        assert classify_units(s).valid, s
    for s in DOC_UNITS_WRONG:
        assert classify_units(s).invalid, s
    for s in DOC_QUANTITY_OK:
        assert classify_quantity(s).valid, s
    for s in DOC_QUANTITY_WRONG:
        assert classify_quantity(s).invalid, s
    a, b, c = (classify_units(s) for s in DOC_UNITS_OK[1:4])
    assert a.dim == b.dim == c.dim == (-1, -2, 1) and a.scale == b.scale == c.scale == AVOGADRO * 10 ** 6
    v = classify_units("mol/µm.s")
    assert v.dim == (-1, 1, 1) and v.bases == {"quantity": "mol", "space": "µm", "time": "s"}
    v = classify_units("µM/s")      # parse_units docstring: µM/s -> µmol/dm3/s
    assert v.dim == (-3, -1, 1) and v.bases == {"quantity": "µmol", "space": "dm", "time": "s"}
    assert classify_units("L").bases == {"space": "dm"} and classify_units("L").dim == (3, 0, 0)
    assert classify_units("M-1").dim == (3, 0, -1) and classify_units("M-1").scale == 1 / (AVOGADRO * 1000)
    assert classify_units("uM").scale == classify_units("µM").scale
    assert classify_units("").valid and classify_units("").dim == (0, 0, 0) and classify_units("").scale == 1
    assert classify_units("M.L").valid and classify_units("M.L").dim == (0, 0, 1)
    assert classify_units("M.L").scale == AVOGADRO
    for s in ("m.km", "L.m", "M.mL", "mol.M-1.mmol", "h/min", "m/m.km", "M.µm3"):
        assert classify_units(s).invalid, s
    for s in ("m0", "m-0", "m02", "s.m0"):
        assert classify_units(s).status == UNSPECIFIED, s
    for s in ("m2.5", "m+2", "2m", "-1s", "m-", "m--1", "m..s", "/s", "s/", ".s", "m s", "m2 .s", " m", "m ",
              "Mol", "mo", "m2s", "m^2", "m*s", "µ", "u", "1/s", "m2,5", "m.5"):
        assert classify_units(s).invalid, s
    for s in ("nan m", "inf", "1_0 m", "-Infinity s", "٣ m", ""):
        assert classify_quantity(s).status == UNSPECIFIED, s
    for s in ("1 m s", "1 m2 .s", "1  m", "1\tm", "1", "1. m", ".5 m", "1e5"):
        st = classify_quantity(s).status
        assert st == (INVALID if s in ("1 m s", "1 m2 .s") else VALID), (s, st)
    for s in ("1e m", "0x10 m", "--1 m", "1,5 m", "1.2.3 m", "m", "1 2 m"):
        assert classify_quantity(s).invalid, s
    # and the documentation file itself, when it is there
    p = _doc_path()
    if os.path.exists(p):
        uo, uw, qo, qw, table = _doc_examples(p)
        assert len(uo) >= 4 and len(uw) >= 5 and len(qo) >= 4 and len(qw) >= 4, (uo, uw, qo, qw)
        for s in uo:
            assert classify_units(s).valid, s
        for s in uw:
            assert classify_units(s).invalid, s
        for s in qo:
            assert classify_quantity(s).valid, s
        for s in qw:
            assert classify_quantity(s).invalid, s
        assert len(table) == 47 and len(set(table)) == 47, len(table)
        assert set(table) == set((TABLE[s][0], s) for s in TABLE), set(table) ^ set((TABLE[s][0], s) for s in TABLE)
    return True
