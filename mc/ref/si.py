"""Reference model of the unit system: exact SI scales (Fractions), dimension vectors, conversion.

Written from the property statements and documentation/using_quantities_with_units.rst, not from
strengths/units.py.  Dimension vectors are (space, time, quantity).
"""
from fractions import Fraction as F
import itertools

AVOGADRO = F(602214076) * F(10) ** 15

SPACE = {"km": F(10) ** 3, "m": F(1), "dm": F(10) ** -1, "cm": F(10) ** -2, "mm": F(10) ** -3,
         "dmm": F(10) ** -4, "cmm": F(10) ** -5, "µm": F(10) ** -6, "nm": F(10) ** -9,
         "pm": F(10) ** -12, "fm": F(10) ** -15}
TIME = {"h": F(3600), "min": F(60), "s": F(1), "ds": F(10) ** -1, "cs": F(10) ** -2, "ms": F(10) ** -3,
        "µs": F(10) ** -6, "ns": F(10) ** -9, "ps": F(10) ** -12, "fs": F(10) ** -15}
QUANTITY = {"kmol": AVOGADRO * F(10) ** 3, "mol": AVOGADRO, "dmol": AVOGADRO * F(10) ** -1,
            "cmol": AVOGADRO * F(10) ** -2, "mmol": AVOGADRO * F(10) ** -3, "µmol": AVOGADRO * F(10) ** -6,
            "nmol": AVOGADRO * F(10) ** -9, "pmol": AVOGADRO * F(10) ** -12, "fmol": AVOGADRO * F(10) ** -15,
            "molecule": F(1)}
BASES = {"space": SPACE, "time": TIME, "quantity": QUANTITY}
KINDS = ("space", "time", "quantity")

# derived families: symbol -> list of (kind, base symbol, exponent)
LITRE = {"kL": "m", "L": "dm", "mL": "cm", "µL": "mm", "nL": "dmm", "pL": "cmm", "fL": "µm"}
MOLAR = {"kM": "kmol", "M": "mol", "dM": "dmol", "cM": "cmol", "mM": "mmol", "µM": "µmol",
         "nM": "nmol", "pM": "pmol", "fM": "fmol"}

SYMBOLS = {}
for _k, _tab in BASES.items():
    for _s in _tab:
        SYMBOLS[_s] = [(_k, _s, 1)]
for _s, _b in LITRE.items():
    SYMBOLS[_s] = [("space", _b, 3)]
for _s, _b in MOLAR.items():
    SYMBOLS[_s] = [("quantity", _b, 1), ("space", "dm", -3)]

U_SPELLINGS = {"um": "µm", "us": "µs", "umol": "µmol", "uL": "µL", "uM": "µM"}

DEFAULT = ("µm", "s", "molecule")

ALL_SYSTEMS = [(a, b, c) for a in SPACE for b in TIME for c in QUANTITY]   # 11*10*10 = 1100


def scale(kind, sym):
    return BASES[kind][sym]


def symbol_scale_dim(sym):
    """Exact SI scale and dimension vector of one supported symbol."""
    sc = F(1)
    dim = [0, 0, 0]
    for kind, base, e in SYMBOLS[sym]:
        sc *= BASES[kind][base] ** e
        dim[KINDS.index(kind)] += e
    return sc, tuple(dim)


def factor(src, dst, dim):
    """Exact conversion factor between unit systems src -> dst for dimension vector dim."""
    f = F(1)
    for i, kind in enumerate(KINDS):
        f *= (BASES[kind][src[i]] / BASES[kind][dst[i]]) ** dim[i]
    return f


def si_scale(sys3, dim):
    """SI value of 1 [sys3^dim]."""
    f = F(1)
    for i, kind in enumerate(KINDS):
        f *= BASES[kind][sys3[i]] ** dim[i]
    return f


def axis_systems():
    """The systems that differ from the default in at most one base (1 + 10 + 9 + 9 = 29)."""
    out = [DEFAULT]
    for a in SPACE:
        if a != DEFAULT[0]:
            out.append((a, DEFAULT[1], DEFAULT[2]))
    for b in TIME:
        if b != DEFAULT[1]:
            out.append((DEFAULT[0], b, DEFAULT[2]))
    for c in QUANTITY:
        if c != DEFAULT[2]:
            out.append((DEFAULT[0], DEFAULT[1], c))
    return out


MIXED = [("m", "min", "mol"), ("km", "h", "kmol"), ("fm", "fs", "fmol"), ("cm", "ms", "µmol"),
         ("dmm", "ds", "cmol"), ("nm", "µs", "pmol"), ("cmm", "cs", "dmol")]


def systems36():
    return axis_systems() + MIXED   # 29 + 7 = 36


def cube(lo, hi):
    r = range(lo, hi + 1)
    return [d for d in itertools.product(r, r, r)]


def units_string(sys3, dim):
    """Canonical text of units: non-zero factors joined by '.' (the documented printed form)."""
    parts = []
    for s, e in zip(sys3, dim):
        if e != 0:
            parts.append(s if e == 1 else "%s%d" % (s, e))
    return ".".join(parts)


def to_float(fr):
    """Correctly rounded float of a Fraction."""
    return fr.numerator / fr.denominator


def rel_err(got, exact):
    """|got/exact - 1| with exact a Fraction (exact != 0), evaluated in exact arithmetic."""
    if exact == 0:
        return 0.0 if got == 0 else float("inf")
    try:
        g = F(got)
    except (ValueError, OverflowError):
        return float("inf")
    return float(abs(g / exact - 1))


def selftest():
    assert len(ALL_SYSTEMS) == 1100 and len(systems36()) == 36 and len(set(systems36())) == 36
    assert len(SYMBOLS) == 47, len(SYMBOLS)
    assert symbol_scale_dim("L") == (F(1, 1000), (3, 0, 0))
    assert symbol_scale_dim("M") == (AVOGADRO * 1000, (-3, 0, 1))
    assert symbol_scale_dim("µM")[0] == AVOGADRO / 1000
    assert factor(("m", "s", "mol"), ("µm", "s", "molecule"), (1, 0, 0)) == 10 ** 6
    assert factor(("µm", "h", "mol"), ("µm", "s", "molecule"), (0, -1, 1)) == AVOGADRO / 3600
    assert units_string(("µm", "s", "molecule"), (2, -1, 0)) == "µm2.s-1"
    return True
