"""Reference model of the default state / default chemostat map and of the flat layout (C13).

Written from the property statement, documentation/indexing.rst and
documentation/setting_up_initial_conditions.rst - not from strengths/rdsystem.py.

A *case* (plain JSON) describes a network and a space:

    case = {"envs": ["cyt", "mem"],                               environment labels of the network
            "net_us": k, "sys_us": k, "space_us": k,              indices into USYS
            "species": [{"label", "us": k, "density": SPEC, "chstt": FSPEC}, ...],
            "space": {"type": "grid", "w", "h", "d", "env": [e per cell, linear order], "vol": Q}
                   | {"type": "graph", "nodes": [{"vol": Q, "env": e, "us": k}, ...]}}

    Q     = number                 (bare: expressed in the owner's units system)
          | ["str", v, unit]       (the text "v unit")
          | ["uv",  v, unit]       (UnitValue(v, unit))
          | ["si",  v, kind]       (exact SI value v of a 'density' / 'volume' / 'amount', read from a live object)
    SPEC  = Q | {env label or "default": Q}
    FSPEC = bool/int | {env label or "default": bool/int}

All quantities are evaluated exactly (Fractions) on the SI scale of mc/ref/si.py (amounts in
molecules, lengths in metres).
"""
from fractions import Fraction as F

from . import si

USYS = [si.DEFAULT, ("dm", "min", "µmol"), ("cm", "ms", "nmol"),
        # indices 3.. : the default system with a foreign length unit (magnitude sub-space of C13)
        ("km", "s", "molecule"), ("fm", "s", "molecule"), ("nm", "s", "molecule"), ("dm", "s", "molecule")]
LENGTH_US = {"µm": 0, "km": 3, "fm": 4, "nm": 5, "dm": 6}
DIM = {"density": (-3, 0, 1), "volume": (3, 0, 0), "amount": (0, 0, 1)}

# curated unit texts used by the alphabets: text -> [(documented symbol, exponent)]
UNIT_TEXTS = {
    # densities
    "µM": [("µM", 1)], "nM": [("nM", 1)], "mM": [("mM", 1)],
    "molecule/µm3": [("molecule", 1), ("µm", -3)],
    "nmol.cm-3": [("nmol", 1), ("cm", -3)],
    # volumes
    "µm3": [("µm", 3)], "fL": [("fL", 1)], "pL": [("pL", 1)], "µL": [("µL", 1)], "cm3": [("cm", 3)],
    # amounts
    "mol": [("mol", 1)], "molecule": [("molecule", 1)], "nmol": [("nmol", 1)], "µmol": [("µmol", 1)],
    "fmol": [("fmol", 1)],
}
for _l in ("km", "fm", "nm", "dm"):
    UNIT_TEXTS["molecule/%s3" % _l] = [("molecule", 1), (_l, -3)]
    UNIT_TEXTS["%s3" % _l] = [(_l, 3)]
UNIT_TEXTS["dm3"] = [("dm", 3)]

# a double is "normal with margin" when 2^-1020 <= |x| <= 2^1022
_NORMAL_LO = F(1, 2 ** 1020)
_NORMAL_HI = F(2 ** 1022)


def is_normal_double(x):
    """True when the exact value x (Fraction) is zero or well inside the range of normal doubles."""
    return x == 0 or _NORMAL_LO <= abs(x) <= _NORMAL_HI


def text_scale_dim(text):
    sc = F(1)
    dim = [0, 0, 0]
    for sym, e in UNIT_TEXTS[text]:
        s1, d1 = si.symbol_scale_dim(sym)
        sc *= s1 ** e
        for i in range(3):
            dim[i] += d1[i] * e
    return sc, tuple(dim)


def q_si(q, us3, kind):
    """Exact SI value of a quantity description; bare numbers are in units system us3."""
    if isinstance(q, (list, tuple)):
        tag, v, unit = q
        if tag == "si":         # already an exact SI value (read back from a live object), unit = kind
            if unit != kind:
                raise ValueError("alphabet error: %r is not a %s" % (q, kind))
            return F(v)
        sc, dim = text_scale_dim(unit)
        if dim != DIM[kind]:
            raise ValueError("alphabet error: %r is not a %s" % (unit, kind))
        return F(v) * sc
    return F(q) * si.si_scale(us3, DIM[kind])


def lookup(spec, env):
    """(value or None, route): the statement's rule - the entry of the cell's environment, else the
    'default' entry, else nothing (zero / not chemostated); a non-dict applies everywhere."""
    if isinstance(spec, dict):
        if env in spec:
            return spec[env], "env"
        if "default" in spec:
            return spec["default"], "default"
        return None, "zero"
    return spec, "scalar"


def ncells(case):
    sp = case["space"]
    if sp["type"] == "grid":
        return sp["w"] * sp["h"] * sp["d"]
    return len(sp["nodes"])


def cell_index(x, y, z, w, h):
    return z * w * h + y * w + x


def cell_coords(c, w, h):
    return (c % w, (c // w) % h, c // (w * h))


def state_index(species, cell, n_cells):
    return species * n_cells + cell


def cell_env(case, c):
    sp = case["space"]
    return sp["env"][c] if sp["type"] == "grid" else sp["nodes"][c]["env"]


def cell_volume_si(case, c):
    sp = case["space"]
    if sp["type"] == "grid":
        return q_si(sp["vol"], USYS[case["space_us"]], "volume")
    nd = sp["nodes"][c]
    return q_si(nd["vol"], USYS[nd["us"]], "volume")


def default_state(case):
    """[(amount in molecules as Fraction, route)] in species-major order."""
    n = ncells(case)
    out = []
    for s in case["species"]:
        for c in range(n):
            env = case["envs"][cell_env(case, c)]
            q, route = lookup(s["density"], env)
            dens = F(0) if q is None else q_si(q, USYS[s["us"]], "density")
            out.append((dens * cell_volume_si(case, c), route))
    return out


def default_chemostats(case):
    """[(0/1, route)] in species-major order."""
    n = ncells(case)
    out = []
    for s in case["species"]:
        for c in range(n):
            env = case["envs"][cell_env(case, c)]
            f, route = lookup(s["chstt"], env)
            out.append((0 if f is None else int(bool(f)), route))
    return out


def amount_si(q, us3):
    return q_si(q, us3, "amount")


def selftest():
    # documentation/setting_up_initial_conditions.rst: densities 10 and 20 (default units), default 1x1x1
    # grid of 1 µm3 -> "[10., 20.] molecule"
    case = {"envs": [""], "net_us": 0, "sys_us": 0, "space_us": 0,
            "species": [{"label": "A", "us": 0, "density": 10, "chstt": 0},
                        {"label": "B", "us": 0, "density": 20, "chstt": 1}],
            "space": {"type": "grid", "w": 1, "h": 1, "d": 1, "env": [0], "vol": 1}}
    assert [v for v, r in default_state(case)] == [10, 20]
    assert [v for v, r in default_chemostats(case)] == [0, 1]
    # building_and_simulating_rds.rst: "1 µM" in a cell of 1 µm3 = 602.214076 molecules
    case["species"][0]["density"] = ["str", 1, "µM"]
    assert default_state(case)[0][0] == F(602214076, 10 ** 6)
    # indexing.rst
    assert cell_index(1, 2, 1, 2, 3) == 1 * 6 + 2 * 2 + 1 and cell_coords(11, 2, 3) == (1, 2, 1)
    assert state_index(2, 1, 5) == 11
    assert lookup({"a": 1, "default": 2}, "b") == (2, "default") and lookup({"a": 1}, "b") == (None, "zero")
    assert lookup({"a": 0, "default": 2}, "a") == (0, "env")
    assert text_scale_dim("nmol.cm-3") == (si.AVOGADRO * F(10) ** -9 * F(10) ** 6, (-3, 0, 1))
    assert text_scale_dim("fL") == (F(10) ** -18, (3, 0, 0))
    assert text_scale_dim("molecule/km3") == (F(10) ** -9, (-3, 0, 1)) and USYS[LENGTH_US["fm"]][0] == "fm"
    # 2.5e-300 molecule/km3 x 4 km3 = 1e-299 molecule: an ordinary (normal) amount
    assert is_normal_double(q_si(2.5e-300, USYS[3], "density") * q_si(4, USYS[3], "volume"))
    assert not is_normal_double(F(10) ** -320) and not is_normal_double(F(10) ** 310) and is_normal_double(F(0))
    return True
