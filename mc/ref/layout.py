"""Reference model of the grid layout (C15): index <-> coordinates, faces, neighbour relation, graph edges.

Written from the property statement and documentation/indexing.rst ("i = z*w*h + y*w + x"), DESIGN A.2
("for a grid, for each cell and each of the 6 faces the neighbour obtained by +-1 along the axis, wrapped if
the axis is periodic, absent if it falls outside").  Pure integers, no library code.

A grid is (w, h, d, per) with per = (px, py, pz) booleans (True = periodic, False = reflecting).
"""
import itertools

DIRECTIONS = ((0, +1), (0, -1), (1, +1), (1, -1), (2, +1), (2, -1))   # (axis, sign): +x -x +y -y +z -z


def size(w, h, d):
    return w * h * d


def index(w, h, d, x, y, z):
    """documentation/indexing.rst: i = z*w*h + y*w + x"""
    return z * w * h + y * w + x


def coords(w, h, d, i):
    """The unique (x, y, z) with 0<=x<w, 0<=y<h, 0<=z<d and index(x, y, z) == i (found by search, not by
    division, so that it is independent of the formula used by the code under test)."""
    for z in range(d):
        for y in range(h):
            for x in range(w):
                if z * w * h + y * w + x == i:
                    return (x, y, z)
    raise ValueError("index %r outside the %dx%dx%d grid" % (i, w, h, d))


def coords_fast(w, h, d, i):
    return (i % w, (i // w) % h, i // (w * h))


def inside(w, h, d, x, y, z):
    return 0 <= x < w and 0 <= y < h and 0 <= z < d


def linear_inside(w, h, d, i):
    return 0 <= i < w * h * d


def faces(w, h, d, per, c):
    """The 6 faces of cell c in the order +x -x +y -y +z -z: the index of the cell on the other side of the
    face (possibly c itself on a periodic axis of length 1), or None where the face is a reflecting wall."""
    dims = (w, h, d)
    p = list(coords_fast(w, h, d, c))
    out = []
    for axis, sign in DIRECTIONS:
        q = list(p)
        q[axis] += sign
        if per[axis]:
            q[axis] %= dims[axis]
        if 0 <= q[axis] < dims[axis]:
            out.append(index(w, h, d, q[0], q[1], q[2]))
        else:
            out.append(None)
    return out


def face_list(w, h, d, per, c):
    """Multiset (list) of the cells met through the faces of c (c itself included when an axis wraps on itself)."""
    return [j for j in faces(w, h, d, per, c) if j is not None]


def multiplicity(w, h, d, per, c, j):
    """Number of faces of c whose other side is j."""
    return face_list(w, h, d, per, c).count(j)


def neighbours(w, h, d, per, c):
    """Sorted list of the DISTINCT cells j != c sharing at least one face with c."""
    return sorted(set(j for j in face_list(w, h, d, per, c) if j != c))


def related(w, h, d, per, a, b):
    """Neighbour relation between distinct cells, defined independently of faces(): a and b differ on exactly one
    axis, and on that axis by 1, or (axis periodic) by 1 modulo its length."""
    if a == b:
        return False
    dims = (w, h, d)
    pa, pb = coords_fast(w, h, d, a), coords_fast(w, h, d, b)
    diff = [k for k in range(3) if pa[k] != pb[k]]
    if len(diff) != 1:
        return False
    k = diff[0]
    delta = abs(pa[k] - pb[k])
    if delta == 1:
        return True
    if per[k] and (delta % dims[k] == 1 or (-delta) % dims[k] == 1):
        return True
    return False


def edges(w, h, d, per):
    """Every physical face between two cells taken ONCE, as an unordered pair (min, max), in enumeration order of
    (cell, axis): the '+' face of each cell.  A periodic axis of length 2 yields two parallel pairs, a periodic
    axis of length 1 yields a self pair (c, c)."""
    out = []
    for c in range(w * h * d):
        f = faces(w, h, d, per, c)
        for k in (0, 2, 4):
            j = f[k]
            if j is not None:
                out.append((min(c, j), max(c, j)))
    return out


def edges_distinct(w, h, d, per):
    return sorted(e for e in edges(w, h, d, per) if e[0] != e[1])


def n_self_loops(w, h, d, per):
    return sum(1 for e in edges(w, h, d, per) if e[0] == e[1])


def all_shapes(n):
    return [(w, h, d) for w in range(1, n + 1) for h in range(1, n + 1) for d in range(1, n + 1)]


def all_periodicities():
    return [tuple(bool(b) for b in p) for p in itertools.product((0, 1), repeat=3)]


def all_grids(n):
    return [(w, h, d, per) for (w, h, d) in all_shapes(n) for per in all_periodicities()]


def selftest():
    grids = all_grids(4)
    assert len(grids) == 512
    for (w, h, d, per) in grids:
        n = w * h * d
        dims = (w, h, d)
        # bijection
        seen = []
        for z in range(d):
            for y in range(h):
                for x in range(w):
                    i = index(w, h, d, x, y, z)
                    assert coords(w, h, d, i) == (x, y, z) == coords_fast(w, h, d, i)
                    seen.append(i)
        assert seen == list(range(n))
        # faces vs the independent relation; symmetry with multiplicities
        nfaces = 0
        for a in range(n):
            fl = face_list(w, h, d, per, a)
            nfaces += len(fl)
            nb = neighbours(w, h, d, per, a)
            assert nb == [b for b in range(n) if related(w, h, d, per, a, b)], (w, h, d, per, a)
            for b in fl:
                assert face_list(w, h, d, per, b).count(a) == fl.count(b)      # multiplicities are symmetric
            for b in range(a + 1, n):
                assert related(w, h, d, per, a, b) == related(w, h, d, per, b, a)
        # each physical face is seen from both sides
        ed = edges(w, h, d, per)
        assert 2 * len(ed) == nfaces
        # closed-form number of faces per axis: (L-1 [+1 if periodic]) * product of the other two lengths
        expect = 0
        for k in range(3):
            others = n // dims[k]
            expect += (dims[k] - 1 + (1 if per[k] else 0)) * others
        assert len(ed) == expect, (w, h, d, per, len(ed), expect)
        # multiplicity from the edge list equals the face multiplicity
        cnt = {}
        for e in ed:
            cnt[e] = cnt.get(e, 0) + 1
        for a in range(n):
            fl = face_list(w, h, d, per, a)
            for b in range(a + 1, n):
                assert cnt.get((a, b), 0) == fl.count(b)
        assert n_self_loops(w, h, d, per) == sum((n // dims[k]) for k in range(3) if per[k] and dims[k] == 1)
    # spot values written by hand
    assert faces(3, 2, 1, (False, False, False), 0) == [1, None, 3, None, None, None]
    assert faces(3, 2, 1, (True, False, False), 0) == [1, 2, 3, None, None, None]
    assert faces(2, 1, 1, (True, False, False), 0) == [1, 1, None, None, None, None]
    assert faces(1, 1, 1, (True, True, True), 0) == [0, 0, 0, 0, 0, 0]
    assert neighbours(1, 1, 1, (True, True, True), 0) == []
    assert neighbours(4, 4, 4, (True, False, True), 0) == [1, 3, 4, 16, 48]
    assert edges(2, 1, 1, (True, False, False)) == [(0, 1), (0, 1)]
    assert index(3, 2, 4, 2, 1, 3) == 3 * 6 + 1 * 3 + 2
    return True


if __name__ == "__main__":
    selftest()
    print("layout selftest ok")
