"""Reference model of coarse-graining (DESIGN appendix A.6) -- brute force, plain Python floats.

Written from the property statement C16 and the documented rules (docstrings of
`check_index_map_validity` / `coarsegrain_grid`: "contains only positive integers [and -1 to exclude a
cell] ... every integer between 0 and max ... size must match ... cells with a same coarse grained index
share the same environment"), not from the implementation: faces are found by testing *all pairs of cells*
for a unit Manhattan distance (the library walks the edge list of an intermediate graph), centroids are
means of the cell centres, validity is a predicate returning the first broken rule.

Cell index layout (documentation/indexing.rst): cell = z*w*h + y*w + x.
Only reflecting boundaries are modelled (periodic grids cannot be coarse-grained).
"""
import math

INVALID_CLASSES = ("wrong-length", "non-integer", "below-minus-one", "all-dropped", "missing-index",
                   "mixed-environments")


# ---- geometry of the grid ----------------------------------------------------------------------------

def coords(w, h, d):
    """[(x, y, z)] by cell index."""
    return [(x, y, z) for z in range(d) for y in range(h) for x in range(w)]


def shares_face(a, b):
    return abs(a[0] - b[0]) + abs(a[1] - b[1]) + abs(a[2] - b[2]) == 1


def faces(w, h, d):
    """All unordered pairs (i, j), i < j, of cells sharing a face (reflecting boundaries): all-pairs test."""
    xyz = coords(w, h, d)
    n = len(xyz)
    return [(i, j) for i in range(n) for j in range(i + 1, n) if shares_face(xyz[i], xyz[j])]


# ---- validity of an index map -------------------------------------------------------------------------

def classify(m, n, env):
    """None if the map m is valid for a grid of n cells with environment list env, else the first broken
    rule (one of INVALID_CLASSES, in that order)."""
    if len(m) != n:
        return "wrong-length"
    for v in m:
        if type(v) is not int:
            return "non-integer"
    if min(m) < -1:
        return "below-minus-one"
    mx = max(m)
    if mx < 0:
        return "all-dropped"
    present = [False] * (mx + 1)
    for v in m:
        if v >= 0:
            present[v] = True
    if not all(present):
        return "missing-index"
    for g in range(mx + 1):
        es = [env[i] for i in range(n) if m[i] == g]
        for e in es:
            if e != es[0]:
                return "mixed-environments"
    return None      # cells mapped to -1 are unconstrained


def valid(m, n, env):
    return classify(m, n, env) is None


def members(m):
    """[[cell, ...]] per group 0..max(m)."""
    out = [[] for _ in range(max(m) + 1)]
    for i, g in enumerate(m):
        if g >= 0:
            out[g].append(i)
    return out


def dropped(m):
    return [i for i, g in enumerate(m) if g == -1]


def dropped_environments(m, env):
    """Distinct environments of the dropped cells, in order of appearance."""
    out = []
    for i in dropped(m):
        if env[i] not in out:
            out.append(env[i])
    return out


def is_contiguous(cells, w, h, d):
    """Are the cells connected through shared faces (within the set)?"""
    xyz = coords(w, h, d)
    cells = list(cells)
    if not cells:
        return True
    seen = [cells[0]]
    todo = [cells[0]]
    while todo:
        a = todo.pop()
        for b in cells:
            if b not in seen and shares_face(xyz[a], xyz[b]):
                seen.append(b)
                todo.append(b)
    return len(seen) == len(cells)


# ---- the coarse graph ---------------------------------------------------------------------------------

def coarse(w, h, d, vol, env, state, chem, m):
    """Reference coarse-grained system of a valid map m.

    vol: volume of one grid cell (float, any consistent unit u^3); env: [int] per cell;
    state: [[float per cell] per species]; chem: [[0/1 per cell] per species].
    Returns dict: n_groups, members, volume[g], env[g], total[s][g], flag[s][g],
    edges {(g, g'): {"faces": k, "surface": k * vol^(2/3), "distance": |c_g - c_g'|}} with g < g',
    centroid[g] (units u).
    """
    n = w * h * d
    assert len(m) == n and len(env) == n
    mem = members(m)
    G = len(mem)
    edge = vol ** (1.0 / 3.0)
    face = edge * edge
    xyz = coords(w, h, d)
    volume = [len(c) * vol for c in mem]
    genv = [env[c[0]] for c in mem]
    total = [[math.fsum(row[i] for i in c) for c in mem] for row in state]
    flag = [[1 if any(row[i] for i in c) else 0 for c in mem] for row in chem]
    centroid = []
    for c in mem:
        k = float(len(c))
        centroid.append(tuple(math.fsum(edge * xyz[i][a] for i in c) / k for a in range(3)))
    nfaces = {}
    for i in range(n):
        for j in range(i + 1, n):
            if m[i] >= 0 and m[j] >= 0 and m[i] != m[j] and shares_face(xyz[i], xyz[j]):
                key = (min(m[i], m[j]), max(m[i], m[j]))
                nfaces[key] = nfaces.get(key, 0) + 1
    edges = {}
    for key in sorted(nfaces):
        a, b = centroid[key[0]], centroid[key[1]]
        dist = math.sqrt((a[0] - b[0]) ** 2 + (a[1] - b[1]) ** 2 + (a[2] - b[2]) ** 2)
        edges[key] = {"faces": nfaces[key], "surface": nfaces[key] * face, "distance": dist}
    return {"n_groups": G, "members": mem, "volume": volume, "env": genv, "total": total, "flag": flag,
            "edges": edges, "centroid": centroid, "cell_edge": edge, "cell_face": face}


# ---- the inverse --------------------------------------------------------------------------------------

def spread(values, m):
    """Fine values of one species at one sample from the coarse values [per group]: equal shares among
    the members, 0 for dropped cells."""
    mem = members(m)
    out = [0.0] * len(m)
    for g, c in enumerate(mem):
        for i in c:
            out[i] = values[g] / len(c)
    return out


# ---- self test ----------------------------------------------------------------------------------------

def selftest():
    # geometry: face counts of a w x h x d box = (w-1)hd + w(h-1)d + wh(d-1)
    for (w, h, d) in [(1, 1, 1), (6, 1, 1), (2, 2, 1), (3, 2, 1), (3, 3, 1), (2, 2, 2), (2, 3, 4)]:
        assert len(faces(w, h, d)) == (w - 1) * h * d + w * (h - 1) * d + w * h * (d - 1), (w, h, d)
    assert coords(3, 2, 1)[4] == (1, 1, 0) and coords(2, 2, 2)[5] == (1, 0, 1)
    assert faces(2, 2, 1) == [(0, 1), (0, 2), (1, 3), (2, 3)]

    # validity: the documented rules
    e = [0, 0, 1, 1]
    assert classify([0, 0, 1, 1], 4, e) is None
    assert classify([1, 1, 0, 0], 4, e) is None
    assert classify([0, -1, -1, 1], 4, e) is None            # dropped cells of two environments: valid
    assert classify([-1, -1, -1, 0], 4, e) is None
    assert classify([0, 1, 2, 3], 4, e) is None               # identity, single-cell groups
    assert classify([0, 0, 0], 4, e) == "wrong-length"
    assert classify([0, 0, 1, 1, 1], 4, e) == "wrong-length"
    assert classify([0, 0, 1.0, 1], 4, e) == "non-integer"
    assert classify([0, 0, -2, 1], 4, e) == "below-minus-one"
    assert classify([-1, -1, -1, -1], 4, e) == "all-dropped"
    assert classify([0, 0, 2, 2], 4, e) == "missing-index"
    assert classify([1, 1, 1, 1], 4, e) == "missing-index"
    assert classify([0, 1, 1, 2], 4, e) == "mixed-environments"
    assert classify([0, 1, 1, 2], 4, [5, 5, 5, 5]) is None
    assert dropped_environments([0, -1, -1, 1], e) == [0, 1]

    # the hand-computed 5x5 example (also used, with these numbers, by the repository's own test):
    m = [0, 0, 1, 1, 1,
         0, 0, 0, 1, 1,
         0, 0, 0, 2, 2,
         3, 3, 2, 2, 2,
         3, 3, 2, 2, 2]
    r = coarse(5, 5, 1, 1.0, list(m), [[1.0] * 25], [[0] * 25], m)
    assert r["volume"] == [8.0, 5.0, 8.0, 4.0] and r["env"] == [0, 1, 2, 3]
    assert sorted(r["edges"]) == [(0, 1), (0, 2), (0, 3), (1, 2), (2, 3)]
    assert [r["edges"][k]["faces"] for k in sorted(r["edges"])] == [3, 2, 2, 2, 2]
    # group 0 = cells (0,0) (1,0) (0,1) (1,1) (2,1) (0,2) (1,2) (2,2); group 1 = (2,0) (3,0) (4,0) (3,1) (4,1)
    x0, y0 = (0 + 1 + 0 + 1 + 2 + 0 + 1 + 2) / 8, (0 + 0 + 1 + 1 + 1 + 2 + 2 + 2) / 8
    x1, y1 = (2 + 3 + 4 + 3 + 4) / 5, (0 + 0 + 0 + 1 + 1) / 5
    assert abs(r["edges"][(0, 1)]["distance"] - math.hypot(x0 - x1, y0 - y1)) < 1e-12

    # 3-D: 2x2x2, bottom layer = group 0, top layer split in two; volume 8 -> edge 2, face 4
    m = [0, 0, 0, 0, 1, 1, 2, 2]
    st = [[2.0, 3.0, 5.0, 7.0, 11.0, 13.0, 17.0, 19.0]]
    ch = [[0, 0, 0, 1, 0, 0, 0, 0]]
    r = coarse(2, 2, 2, 8.0, [0] * 8, st, ch, m)
    assert r["volume"] == [32.0, 16.0, 16.0] and r["total"] == [[17.0, 24.0, 36.0]] and r["flag"] == [[1, 0, 0]]
    assert {k: v["faces"] for k, v in r["edges"].items()} == {(0, 1): 2, (0, 2): 2, (1, 2): 2}
    assert abs(r["edges"][(0, 1)]["surface"] - 8.0) < 1e-12
    # centroids: g0 = (1,1,0), g1 = (1,0,2), g2 = (1,2,2)
    assert abs(r["edges"][(0, 1)]["distance"] - math.sqrt(5.0)) < 1e-12
    assert abs(r["edges"][(1, 2)]["distance"] - 2.0) < 1e-12

    # non-contiguous group with a coincident centroid, dropped cell, 1-D
    m = [0, 1, 0, -1]
    r = coarse(4, 1, 1, 1.0, [0, 0, 0, 1], [[1.0, 2.0, 4.0, 8.0]], [[0, 0, 1, 1]], m)
    assert r["total"] == [[5.0, 2.0]] and r["flag"] == [[1, 0]] and r["edges"][(0, 1)]["faces"] == 2
    assert r["edges"][(0, 1)]["distance"] == 0.0
    assert not is_contiguous([0, 2], 4, 1, 1) and is_contiguous([0, 1], 4, 1, 1)
    assert spread([6.0, 2.0], m) == [3.0, 2.0, 3.0, 0.0]
    return True
