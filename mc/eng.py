"""Engine access for the checks: fresh builds of the working tree's engine behind the library's own
LibRDEngine class (same marshalling code engine_collection uses), plus the probe's control surface."""
import ctypes

from . import core, build

core.setup_paths()

KINDS = ("euler", "tauleap", "gillespie")
_paths = {}


def so_path(variant="plain"):
    if variant not in _paths:
        _paths[variant] = build.build(variant)
    return _paths[variant]


class _CtypesShim:
    """Stands in for the `ctypes` module inside strengths.engine_collection while one of its factories runs: whatever
    library file the factory asks for, it gets the fresh build of the working tree's engine sources."""

    def __init__(self, lib):
        self._lib = lib
        self.calls = 0

    def CDLL(self, *a, **k):
        self.calls += 1
        return self._lib

    def __getattr__(self, name):
        return getattr(ctypes, name)


def _via_factory(kind, lib):
    """The library's own factory engine_collection.<kind>_engine(), with the native library redirected to `lib`.
    Returns None when the factory cannot be used that way (no packaged library file to name, another loading scheme):
    the caller then builds the object itself."""
    try:
        from strengths import engine_collection as ec
        fac = getattr(ec, kind + "_engine")
        if not hasattr(ec, "ctypes"):
            return None
        shim = _CtypesShim(lib)
        real = ec.ctypes
        ec.ctypes = shim
        try:
            e = fac()
        finally:
            ec.ctypes = real
        if shim.calls < 1 or not hasattr(e, "setup"):
            return None
        return e
    except Exception:
        return None


def _new_engine(kind, lib):
    e = _via_factory(kind, lib)
    if e is None:
        from strengths.librdengine import LibRDEngine
        e = LibRDEngine(lib, option=kind, description="description",
                        requires_molecules=(kind != "euler"))
    e.verif_lib = lib          # our own handle on the native library (no reliance on private attribute names)
    return e


def make_engine(kind, variant="plain"):
    """A new engine object as engine_collection.<kind>_engine() builds it, on a fresh build of the working tree."""
    return _new_engine(kind, ctypes.CDLL(so_path(variant)))


class Probe:
    """Control surface of the probe build (harness/engine_probe.cpp)."""

    def __init__(self):
        self.lib = ctypes.CDLL(so_path("probe"))
        L = self.lib
        self.present = hasattr(L, "verif_probe_present")
        for name in ("verif_n_uniform", "verif_n_uniform_injected", "verif_uniform_pending", "verif_ulog_size",
                     "verif_plog_size", "verif_nlog_size", "verif_clock_calls_total"):
            getattr(L, name).restype = ctypes.c_long
        L.verif_push_uniform.argtypes = [ctypes.c_double]
        L.engineexport_get_time.restype = ctypes.c_double
        L.engineexport_get_progress.restype = ctypes.c_double

    def engine(self, kind):
        return _new_engine(kind, self.lib)

    def clear(self):
        self.lib.verif_clear()

    def push(self, us):
        for u in us:
            self.lib.verif_push_uniform(float(u))

    def n_uniform(self):
        return self.lib.verif_n_uniform()

    def n_injected(self):
        return self.lib.verif_n_uniform_injected()

    def pending(self):
        return self.lib.verif_uniform_pending()

    def ulog(self):
        n = self.lib.verif_ulog_size()
        buf = (ctypes.c_double * max(n, 1))()
        self.lib.verif_get_ulog(buf)
        return [buf[i] for i in range(n)]

    def plog(self):
        n = self.lib.verif_plog_size()
        buf = (ctypes.c_double * max(2 * n, 1))()
        self.lib.verif_get_plog(buf)
        return [(buf[2 * i], buf[2 * i + 1]) for i in range(n)]

    def clear_plog(self):
        self.lib.verif_clear_plog()

    def nlog(self):
        n = self.lib.verif_nlog_size()
        buf = (ctypes.c_double * max(3 * n, 1))()
        self.lib.verif_get_nlog(buf)
        return [(buf[3 * i], buf[3 * i + 1], buf[3 * i + 2]) for i in range(n)]

    def clock_script(self, j):
        self.lib.verif_clock_script(int(j))

    def time(self):
        return float(self.lib.engineexport_get_time())

    def state(self, n):
        buf = (ctypes.c_double * n)()
        self.lib.engineexport_get_state(buf)
        return [buf[i] for i in range(n)]


def raw_time(engine):
    engine.verif_lib.engineexport_get_time.restype = ctypes.c_double
    return float(engine.verif_lib.engineexport_get_time())


def raw_state(engine, n):
    buf = (ctypes.c_double * n)()
    engine.verif_lib.engineexport_get_state(buf)
    return [buf[i] for i in range(n)]


def run_to_completion(engine, script, max_iter=100000):
    """setup + iterate() until completion + get_output + finalize.  Returns (trajectory, n_iterations)."""
    engine.setup(script)
    n = 0
    while n < max_iter:
        n += 1
        if not engine.iterate():
            break
    out = engine.get_output()
    engine.finalize()
    return out, n


def simulate(kind, script, variant="plain", max_iter=100000):
    return run_to_completion(make_engine(kind, variant), script, max_iter)
