"""E2: explicit-state exploration of engine lifecycle histories on the real objects (C10, C11).

A history is a string of operations, each `<op><obj>` with op in S (setup, script a of the object's kind),
T (setup, script b), I (iterate), N (iterate_n(2)), P (sample), F (finalize) and obj in {0, 1}; object-lifetime
operations: G (another engine object of the same kind is created, never set up, and garbage-collected) and R (a NEW
engine object is set up with script a while the old one is still referenced, then the old one is dropped without
finalize() and garbage-collected; the history goes on with the new object).  Live engine
state sits in a C++ global and cannot be copied, so a state is the history that reaches it; only the
*leaves* of the bounded history tree are executed, every prefix being checked on the way (observers after
every operation).  Histories are never merged.

Oracle (b) of DESIGN C10: after every operation, the observers of every live object must equal those of the
canonical history `S(script), ops since that S` executed ALONE IN A PRISTINE PROCESS (a child forked from a
zygote that never touched the engine), on the plain build.
"""
import os
import pickle
import select
import signal
import struct
import sys
import time

from . import core, eng, models

core.setup_paths()

OPS1 = "SINPF"


# ---- history enumeration ---------------------------------------------------------------------------

def legal_next(hist, alphabet, nobj):
    """Operations (op, obj) that keep the history lifecycle-respecting."""
    st = ["unset"] * nobj
    for op, o in hist:
        if op in "STR":
            st[o] = "live"
        elif op == "F":
            st[o] = "released"
    out = []
    for o in range(nobj):
        for op in alphabet:
            if st[o] == "unset" and op != "S":
                continue
            if st[o] == "released" and op not in "SFGR":
                continue
            out.append((op, o))
    return out


def leaves(alphabet, nobj, depth, first=(("S", 0),)):
    """All lifecycle-respecting histories of exactly `depth` operations starting with `first`; also the
    number of distinct non-empty prefixes they cover (= histories up to the depth bound)."""
    out = []
    count = [0]

    def rec(h):
        count[0] += 1
        if len(h) == depth:
            out.append(tuple(h))
            return
        for nx in legal_next(h, alphabet, nobj):
            h.append(nx)
            rec(h)
            h.pop()
    rec(list(first))
    return out, count[0] + len(first) - 1


def hist_str(h):
    return ",".join("%s%d" % (op, o) for op, o in h)


# ---- scripts ---------------------------------------------------------------------------------------

def script_spec(kind, which):
    """Script a / b of an engine kind = (engine, gtype). Both complete within 3-4 iterations."""
    engine, gtype = kind
    if which == "c":      # same state size as script a (2 cells), different content: used by a second object
        sc = script_spec(kind, "a")
        sc["system"]["state"] = [9.0, 4.0, 6.0, 8.0]
        sc["system"]["reactions"][0]["kf"] = 0.3
        sc["seed"] = 4242
        sc["policy"] = "on_t_sample"
        sc["t_sample"] = [0, 0.25]
        return sc
    if which == "a":
        n = 2
        state = [2.0, 1.0, 3.0, 5.0]
        space = ({"type": "grid", "w": 2, "h": 1, "d": 1, "vol": 1.0} if gtype == "grid" else
                 {"type": "graph", "nodes": [{"vol": 1.0, "env": 0}, {"vol": 2.0, "env": 0}], "edges": [[0, 1, 1.5, 0.75]]})
        pol, ts = "on_iteration", [0]
    else:
        n = 3
        state = [7.0, 4.0, 6.0, 1.0, 8.0, 2.0]
        space = ({"type": "grid", "w": 3, "h": 1, "d": 1, "vol": 2.0, "bc": {"x": "periodical"}} if gtype == "grid" else
                 {"type": "graph", "nodes": [{"vol": 1.0, "env": 0}, {"vol": 2.0, "env": 0}, {"vol": 0.5, "env": 0}],
                  "edges": [[0, 1, 1.5, 0.75], [1, 2, 2.5, 1.25]]})
        pol, ts = "on_t_sample", [0, 0.25, 0.5]
    spec = {"species": [{"label": "A", "D": 0.5}, {"label": "B", "D": 0.25}],
            "reactions": [{"eq": [[["A", 1]], [["B", 1]]], "kf": 0.8, "kr": 0.1}], "envs": [""],
            "space": space, "state": state}
    sc = {"system": spec, "t_sample": ts, "time_step": 0.25, "policy": pol, "seed": 12345 if which == "a" else 777,
          "isp": "none"}
    if gtype == "graph" and which == "a":
        sc["units"] = ["µm", "s", "nmol"]        # output requested in a non-molecule quantity unit
        sc["system"]["units"] = ["µm", "s", "molecule"]
    if engine == "gillespie":
        sc["t_max"] = 0.08 if which == "a" else 0.5
        if which == "a":
            sc["policy"] = "on_iteration"
    else:
        sc["t_max"] = 0.6 if which == "a" else 0.5
    return sc


# ---- executing operations on real objects ----------------------------------------------------------

def observers(engine):
    """Read-only observers of a live object (get_output twice)."""
    o1 = engine.get_output()
    o2 = engine.get_output()
    b1 = (o1.t.value.tobytes(), o1.data.value.tobytes())
    b2 = (o2.t.value.tobytes(), o2.data.value.tobytes())
    return {"complete": bool(engine.is_complete()), "progress": float(engine.get_progress()),
            "t": b1[0], "data": b1[1], "twice_equal": b1 == b2}


def apply_op(engine, op, scripts):
    if op == "S":
        engine.setup(scripts["S"])
        return None
    if op == "T":
        engine.setup(scripts["T"])
        return None
    if op == "I":
        return bool(engine.iterate())
    if op == "N":
        return bool(engine.iterate_n(2))
    if op == "Z":
        return bool(engine.iterate_n(0))
    if op == "P":
        engine.sample()
        return None
    if op == "F":
        engine.finalize()
        return None
    raise ValueError(op)


def run_canonical(kind, which, ops, variant):
    """S(script), ops on a fresh object; observers after every operation (list)."""
    sc = models.build_script(script_spec(kind, which))
    e = eng.make_engine(kind[0], variant)
    e.setup(sc)
    out = [(None, observers(e))]
    for op in ops:
        r = apply_op(e, op, None)
        out.append((r, observers(e)))
    e.finalize()
    return out


# ---- zygote: pristine-process canonical runs -------------------------------------------------------

class Zygote:
    """A forked server that has never called into the engine; each request is served by a grand-child
    forked from it, so every canonical history runs in a pristine process image."""

    def __init__(self, variant="plain", timeout=15.0):
        self.variant = variant
        self.timeout = timeout
        self.cache = {}
        r1, w1 = os.pipe()
        r2, w2 = os.pipe()
        sys.stdout.flush()
        pid = os.fork()
        if pid == 0:
            os.close(w1)
            os.close(r2)
            try:
                self._serve(r1, w2)
            finally:
                os._exit(0)
        os.close(r1)
        os.close(w2)
        self.pid = pid
        self.w = w1
        self.r = r2

    @staticmethod
    def _send(fd, obj):
        b = pickle.dumps(obj)
        os.write(fd, struct.pack("<I", len(b)))
        mv = memoryview(b)
        while mv:
            n = os.write(fd, mv)
            mv = mv[n:]

    @staticmethod
    def _recv(fd):
        hdr = b""
        while len(hdr) < 4:
            c = os.read(fd, 4 - len(hdr))
            if not c:
                raise EOFError
            hdr += c
        n = struct.unpack("<I", hdr)[0]
        buf = b""
        while len(buf) < n:
            c = os.read(fd, n - len(buf))
            if not c:
                raise EOFError
            buf += c
        return pickle.loads(buf)

    def _serve(self, r, w):
        while True:
            try:
                req = self._recv(r)
            except EOFError:
                return
            cr, cw = os.pipe()
            pid = os.fork()
            if pid == 0:
                os.close(cr)
                try:
                    res = ("ok", run_canonical(*req, variant=self.variant))
                except BaseException as e:  # noqa
                    res = ("exception", "%s: %s" % (type(e).__name__, e))
                try:
                    self._send(cw, res)
                finally:
                    os._exit(0)
            os.close(cw)
            res = None
            rl, _, _ = select.select([cr], [], [], self.timeout)
            if not rl:
                os.kill(pid, signal.SIGKILL)
                res = ("hang", "canonical history did not return within %.0f s" % self.timeout)
            else:
                try:
                    res = self._recv(cr)
                except EOFError:
                    res = None
            os.close(cr)
            _, status = os.waitpid(pid, 0)
            if res is None:
                res = ("crash", "canonical history died (status %d)" % status)
            self._send(w, res)

    def canonical(self, kind, which, ops):
        """Observers after S and after each op of the canonical history (memoised, incl. prefixes)."""
        key = (kind, which, ops)
        if key in self.cache:
            return self.cache[key]
        self._send(self.w, (kind, which, ops))
        res = self._recv(self.r)
        if res[0] == "ok":
            lst = res[1]
            for n in range(len(ops) + 1):
                self.cache[(kind, which, ops[:n])] = ("ok", lst[:n + 1])
        else:
            self.cache[key] = res
        return self.cache[key]

    def close(self):
        try:
            os.close(self.w)
            os.close(self.r)
            os.waitpid(self.pid, 0)
        except OSError:
            pass


# ---- checking one leaf history ---------------------------------------------------------------------

def announce(text):
    """Tell the supervisor what is about to run (the worker's stderr is read back on a crash/hang)."""
    try:
        os.write(2, ("VERIF-AT " + text + "\n").encode())
    except OSError:
        pass


def announced(detail):
    """Last announcement found in a Crash detail text."""
    last = None
    for ln in detail.splitlines():
        if ln.startswith("VERIF-AT "):
            last = ln[len("VERIF-AT "):].strip()
    return last


def diff_observers(got, ref):
    for k in ("complete", "progress", "t", "data"):
        if got[k] != ref[k]:
            if k in ("t", "data"):
                import numpy as np
                return k, "%s = %r, canonical %r" % (k, np.frombuffer(got[k]).tolist(), np.frombuffer(ref[k]).tolist())
            return k, "%s = %r, canonical %r" % (k, got[k], ref[k])
    return None, None


def other_space(kind):
    return (kind[0], "graph" if kind[1] == "grid" else "grid")


def check_history(kinds, hist, zyg, variant="plain", twolive_stop=True, mixed=False):
    """Executes one history on real objects. kinds[o] = (engine, gtype) of object o.
    Returns (violations [(key, what, prefix)], n_ops_executed, n_observations)."""
    viol = []
    nobj = len(kinds)
    engines = [eng.make_engine(kinds[o][0], variant) for o in range(nobj)]
    names = [{"S": "a" if o == 0 else "c", "T": "b"} for o in range(nobj)]
    # mixed: the alternative script T lives on the OTHER space type (grid <-> graph) of the same engine
    skind = [{"S": kinds[o], "R": kinds[o], "T": other_space(kinds[o]) if mixed else kinds[o]} for o in range(nobj)]
    scripts = [{k: models.build_script(script_spec(skind[o][k], w)) for k, w in names[o].items()} for o in range(nobj)]
    akind = [kinds[o] for o in range(nobj)]      # space type / engine of the object's current set-up
    abst = [None] * nobj          # None | 'released' | (which, ops)
    last_ret = [None] * nobj      # return of the last driver call since the last setup
    completed_obs = [None] * nobj
    nops = nobs = 0
    two = nobj > 1
    pre = "two-objects" if two else "one-object"
    # Once an operation has been applied to one object while ANOTHER object was live, the two share native state (the
    # recorded known finding): whatever deviates later - possibly several operations later, e.g. when outputs are
    # memoised - is attributed to that interference.  Two-object histories whose lifetimes never overlap stay strict.
    tainted = False
    for q, (op, o) in enumerate(hist):
        if two and any(isinstance(abst[p_], tuple) for p_ in range(nobj) if p_ != o):
            tainted = True
        prefix = hist_str(hist[:q + 1])
        announce("op " + prefix)
        if two and tainted:
            pre = "two-objects-interference"
        try:
            if op == "G":
                import gc
                ghost = eng.make_engine(kinds[o][0], variant)
                del ghost
                gc.collect()
                ret = None
            elif op == "R":
                import gc
                fresh = eng.make_engine(kinds[o][0], variant)
                fresh.setup(scripts[o]["S"])
                engines[o] = fresh           # the last reference to the old object goes away here
                gc.collect()
                ret = None
            else:
                ret = apply_op(engines[o], op, scripts[o])
        except Exception as e:
            viol.append(("C10:%s:exception:%s" % (pre, op), "history %s: %s raised %s: %s" % (prefix, op, type(e).__name__, e), prefix))
            break
        nops += 1
        if op in "STR":
            akind[o] = skind[o][op]
        if op in "SR":
            abst[o] = (names[o]["S"], "")
            last_ret[o] = None
            completed_obs[o] = None
        elif op == "G":
            pass                         # nothing may change for any object
        elif op == "T":
            abst[o] = (names[o]["T"], "")
            last_ret[o] = None
            completed_obs[o] = None
        elif op == "F":
            abst[o] = "released"
        else:
            abst[o] = (abst[o][0], abst[o][1] + op)
            if op in "IN":
                last_ret[o] = ret
            elif op == "Z" and ret is False:
                last_ret[o] = False
        nlive = sum(1 for a in abst if isinstance(a, tuple))
        stop = False
        for p in range(nobj):
            if not isinstance(abst[p], tuple):
                continue
            announce("observers-of-object-%d-after " % p + prefix)
            tag = "two-objects-interference" if (two and (tainted or nlive > 1 or p != o)) else pre
            try:
                got = observers(engines[p])
            except Exception as e:
                viol.append(("C10:%s:observer-exception" % tag, "history %s: observers of object %d raised %s: %s" % (prefix, p, type(e).__name__, e), prefix))
                stop = True
                break
            nobs += 1
            # a deviation seen while another object is live, or on an object other than the one just operated,
            # is interference between engine objects
            tag = "two-objects-interference" if (two and (tainted or nlive > 1 or p != o)) else pre
            if not got["twice_equal"]:
                viol.append(("C10:%s:get_output-not-repeatable" % tag, "history %s: two consecutive get_output() of object %d differ" % (prefix, p), prefix))
            # (c) absolute invariants
            exp_complete = (last_ret[p] is False)
            if got["complete"] != exp_complete:
                cls = "stale-after-setup" if (last_ret[p] is None and got["complete"]) else "mismatch"
                viol.append(("C10:%s:is_complete:%s" % (tag, cls),
                             "history %s: is_complete() of object %d is %r but its last driver call since its set-up returned %r"
                             % (prefix, p, got["complete"], last_ret[p]), prefix))
            if p == o and op == "Z":
                was_complete = (last_ret[p] is False)
                if ret != (not was_complete):
                    viol.append(("C10:%s:iterate_n(0)-return" % tag,
                                 "history %s: iterate_n(0) returned %r on a simulation that is %scomplete" % (prefix, ret, "" if was_complete else "not "), prefix))
            if completed_obs[p] is not None and p == o and op in "INZ":
                if ret is not False:
                    viol.append(("C10:%s:completion-not-sticky" % tag, "history %s: %s on a completed simulation returned %r" % (prefix, op, ret), prefix))
                for k in ("t", "data", "progress"):
                    if got[k] != completed_obs[p][k]:
                        viol.append(("C10:%s:iteration-after-completion-changes-%s" % (tag, k), "history %s" % prefix, prefix))
            if got["complete"] and last_ret[p] is False:
                completed_obs[p] = got
            # (b) canonical-history equivalence
            cres = zyg.canonical(akind[p], abst[p][0], abst[p][1])
            if cres[0] != "ok":
                viol.append(("C10:canonical:%s" % cres[0], "canonical history S%s,%s of kind %r: %s" % (abst[p][0], abst[p][1], akind[p], cres[1]), prefix))
                stop = True
                break
            cret, cobs = cres[1][-1]
            if p == o and op in "INZ" and ret != cret:
                viol.append(("C10:%s:driver-return-differs-from-canonical" % tag, "history %s: %s returned %r, canonical %r" % (prefix, op, ret, cret), prefix))
            k, msg = diff_observers(got, cobs)
            if k is not None:
                viol.append(("C10:%s:%s-differs-from-canonical" % (tag, k),
                             "history %s: object %d (script %s, ops '%s' since its set-up): %s" % (prefix, p, abst[p][0], abst[p][1], msg[:500]), prefix))
                if nlive > 1 and twolive_stop:
                    stop = True
        if stop or (viol and any(v[2] == prefix for v in viol)):
            # do not extend a violating prefix (only minimal violating histories are reported)
            break
    # leave the process clean for the next history
    for p in range(nobj):
        if isinstance(abst[p], tuple):
            try:
                engines[p].finalize()
            except Exception:
                pass
    return viol, nops, nobs


def min_violations(viols):
    """Keep, per key, the violation with the shortest prefix (first in order on ties)."""
    best = {}
    for key, what, prefix in viols:
        if key not in best or len(prefix) < len(best[key][1]):
            best[key] = (what, prefix)
    return best
