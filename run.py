#!/venv/bin/python
"""Entry point of the /verif machinery.

    run.py <Cxx> --tier quick|thorough      run one property check (exit 0 / 1, evidence rewritten)
    run.py <Cxx> --replay <file>            re-execute one recorded case with plain library calls
    run.py --setup                          build engine variants + reference-model self-tests
"""
import argparse
import importlib
import json
import os
import sys
import warnings

warnings.filterwarnings("ignore", category=SyntaxWarning)
HERE = os.path.dirname(os.path.abspath(__file__))
sys.path.insert(0, HERE)
os.environ.setdefault("PYTHONHASHSEED", "0")

from mc import core  # noqa: E402

core.setup_paths()

MODULES = {
    "C01": "c01_ratelaw", "C02": "c02_conservation", "C03": "c03_chemostats", "C04": "c04_units_invariance",
    "C05": "c05_arithmetic", "C06": "c06_conversion", "C07": "c07_stochastic", "C08": "c08_purity",
    "C09": "c09_sampling", "C10": "c10_lifecycle", "C11": "c11_memsafety", "C12": "c12_roundtrip",
    "C13": "c13_defaults", "C14": "c14_initstate", "C15": "c15_grid", "C16": "c16_coarsegrain",
    "C17": "c17_accessors", "C18": "c18_text", "C19": "c19_reactions", "C20": "c20_rejection",
}


def load(pid):
    return importlib.import_module("checks." + MODULES[pid])


def main():
    ap = argparse.ArgumentParser()
    ap.add_argument("pid", nargs="?")
    ap.add_argument("--tier", default=os.environ.get("VERIF_TIER", "quick"), choices=["quick", "thorough"])
    ap.add_argument("--replay")
    ap.add_argument("--setup", action="store_true")
    a = ap.parse_args()
    seed = int(os.environ.get("VERIF_SEED", "0") or 0)

    if a.setup:
        from mc import selftest
        sys.exit(selftest.main())

    if a.pid not in MODULES:
        print("unknown property id", a.pid)
        sys.exit(2)
    mod = load(a.pid)

    if getattr(mod, "NEEDS_ASAN", False) and os.environ.get("VERIF_ASAN_ACTIVE") != "1":
        from mc import build
        env = dict(os.environ)
        env["LD_PRELOAD"] = build.asan_runtime()
        env["ASAN_OPTIONS"] = "detect_leaks=0:abort_on_error=1:handle_segv=1:allocator_may_return_null=1"
        env["UBSAN_OPTIONS"] = "print_stacktrace=1:halt_on_error=1"
        env["VERIF_ASAN_ACTIVE"] = "1"
        env["PYTHONMALLOC"] = "malloc"      # buffers the interpreter hands to the engine get real red zones too
        os.execve(sys.executable, [sys.executable] + sys.argv, env)

    if a.replay:
        with open(a.replay, encoding="utf-8") as f:
            rec = json.load(f)
        res = mod.replay(rec["case"])
        if res:
            for key, what in res:
                print("REPLAY-FAILS key=%s: %s" % (key, what))
            sys.exit(1)
        print("REPLAY-PASSES")
        sys.exit(0)

    ctx = core.Context(a.pid, a.tier, seed)
    try:
        mod.run(ctx)
    except Exception:
        import traceback
        traceback.print_exc()
        print("CHECK-ERROR property=%s (the checker itself failed; no verdict)" % a.pid)
        sys.exit(2)
    sys.exit(ctx.finish())


if __name__ == "__main__":
    main()
