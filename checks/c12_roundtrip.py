"""C12 — dictionary, JSON and file round trips preserve the model.

E1 bounded-exhaustive enumeration over an object catalogue (species, reactions, networks, grids, graphs,
systems, scripts, trajectories) x unit systems {default, 2 others} chosen independently at every level x
routes (dict, JSON text, save/load with absolute and relative paths, multi-file layouts with nested JSON
files and external .npy / .txt arrays), plus every key alias substituted one at a time and every
documented default omitted one at a time, all on the real *_to_dict / *_from_dict / save_* / load_*.

Oracles (from the property statement and documentation/json_and_dict_doc.rst):
  * the reloaded object is physically equal to the original (mc/ref/physical.py, SI comparison);
  * to_dict(from_dict(to_dict(x))) == to_dict(x) after a JSON dump/load of both sides; a saved file saved
    again after loading has the same content;
  * a to_dict result can be written as JSON text;
  * every documented alias gives the same object as the canonical key; an undocumented alias may be rejected
    as an unknown key but, if accepted, must give the same object;
  * an omitted key gives the same object as the documented default written explicitly.

Violation keys:
  C12:<kind>:changed:<field>                     a field of the innermost object of that kind differs
  C12:<kind>:not-fixpoint:<path>                 second serialisation (dictionary or file) differs from the first;
                                                 <kind> = innermost dictionary, <path> = position inside it
  C12:<function>:not-json-serialisable:<type>    json.dumps fails on a to_dict result
  C12:<function>:unexpected-exception:<Type>-<message slug>   (<function> = innermost library function)
  C12:<reader>:alias:<key>=<alias>:<rejected|differs>
  C12:<reader>:default:<key>
Observed, never a violation (counters aliasing_observed:<class>:<kind>:<field>, class = from_dict-shares-input |
to_dict-shares-object | roundtrip-copy-shares-original): containers shared between a dictionary and an object.
  C12:<saver>:files-interfere:<kind>.<field>     an object saved next to others (other names, same directory) comes
                                                 back different
"""
import contextlib
import copy
import itertools
import json
import os
import random
import re
import shutil
import tempfile
import traceback

import numpy as np

from mc import core, pool, uq
from mc.ref import si, physical

core.setup_paths()
from strengths.units import UnitArray  # noqa: E402
from strengths.rdnetwork import (Species, Reaction, RDNetwork, species_from_dict, species_to_dict,  # noqa: E402
                                 reaction_from_dict, reaction_to_dict, rdnetwork_from_dict, rdnetwork_to_dict,
                                 load_rdnetwork, save_rdnetwork)
from strengths.rdgridspace import RDGridSpace, rdgridspace_from_dict, rdgridspace_to_dict  # noqa: E402
from strengths.rdgraphspace import (RDGraphSpace, RDGraphSpaceNode, RDGraphSpaceEdge,  # noqa: E402
                                    rdgraphspace_from_dict, rdgraphspace_to_dict)
from strengths.rdspace import rdspace_from_dict, rdspace_to_dict, load_rdspace, save_rdspace  # noqa: E402
from strengths.rdsystem import RDSystem, rdsystem_from_dict, rdsystem_to_dict, load_rdsystem, save_rdsystem  # noqa: E402
from strengths import rdscript as _rdscript_mod  # noqa: E402
from strengths.rdscript import RDScript, rdscript_from_dict, rdscript_to_dict, load_rdscript  # noqa: E402
from strengths.rdoutput import RDTrajectory, save_rdtrajectory, load_rdtrajectory  # noqa: E402

PID = "C12"
U = [si.DEFAULT, ("m", "min", "mol"), ("cm", "ms", "µmol")]
POISON = ("km", "h", "kmol")          # a parent system that must never show through explicit units
STRENGTHS_DIR = os.path.join(core.REPO, "src", "strengths") + os.sep
TMP_PARENT = "/var/tmp"


def _ud(i):
    return uq.sysdict(U[i])


def _us(i):
    return uq.mk_sys(U[i])


# =====================================================================================================
# builders: JSON-able spec -> strengths object (plain constructor calls)
# =====================================================================================================

def b_species(sp):
    return Species(sp["label"], D=sp["D"], density=sp["density"], chstt=sp["chstt"], units_system=_us(sp["u"]))


def b_reaction(sp):
    return Reaction(sp["eq"], kf=sp["kf"], kr=sp["kr"], label=sp["label"], units_system=_us(sp["u"]))


def b_network(sp):
    env = tuple(sp["env"]) if sp.get("env_tuple") else list(sp["env"])
    return RDNetwork([b_species(s) for s in sp["species"]], [b_reaction(r) for r in sp["reactions"]],
                     environments=env, units_system=_us(sp["u"]))


def b_space(sp):
    npy = sp.get("np", False)
    if sp["kind"] == "grid":
        ce = sp["cell_env"]
        w, h, d = sp["w"], sp["h"], sp["d"]
        if npy:
            w, h, d = np.int64(w), np.int32(h), np.int64(d)
            ce = np.array(ce, dtype=np.int64) if isinstance(ce, list) else np.int64(ce)
        return RDGridSpace(w=w, h=h, d=d, cell_env=ce, cell_vol=sp["cell_vol"], boundary_conditions=sp["bc"],
                           units_system=_us(sp["u"]))
    nodes = [RDGraphSpaceNode(volume=n["volume"], environment=(np.int64(n["env"]) if npy else n["env"]),
                              units_system=_us(n["u"])) for n in sp["nodes"]]
    edges = [RDGraphSpaceEdge(np.int64(e["i"]) if npy else e["i"], e["j"], surface=e["surface"],
                              distance=e["distance"], units_system=_us(e["u"])) for e in sp["edges"]]
    return RDGraphSpace(nodes=nodes, edges=edges, units_system=_us(sp["u"]))


def _b_array(v):
    if isinstance(v, dict):
        return UnitArray(v["value"], v["units"])
    return v


def b_system(sp):
    st = sp["state"]
    st = st if (isinstance(st, dict) and "mode" in st) else _b_array(st)
    ch = sp["chemostats"]
    if sp.get("np") and ch is not None:
        ch = np.array(ch, dtype=np.int64)
    ch_mode = ch["mode"] if isinstance(ch, dict) else None
    st_mode = st["mode"] if isinstance(st, dict) else None
    system = RDSystem(b_network(sp["network"]), b_space(sp["space"]), state=(None if st_mode else st),
                      chemostats=(None if ch_mode else ch), units_system=_us(sp["u"]))
    if ch_mode:
        # maps defined relative to the one the species' flags generate
        gen = [int(v) for v in system.chemostats]
        if ch_mode == "zero":
            system.chemostats = [0] * len(gen)
        elif ch_mode == "reset":
            system.reset_chemostats()
        elif ch_mode == "one":
            system.chemostats = [1] * len(gen)
        elif ch_mode == "complement":
            system.chemostats = [1 - v for v in gen]
        elif ch_mode == "flip":
            k = len(gen) // 2
            system.chemostats = [(1 - v) if i == k else v for i, v in enumerate(gen)]
        else:
            raise ValueError(ch_mode)
    if st_mode:
        n = len(system.state)
        if st_mode == "zero":
            system.state = [0.0] * n
        elif st_mode == "shifted":
            # explicit values that differ from density x volume in every entry, in the units of the generated state
            system.state = UnitArray([float(v) * 3 + PRIMES[i % len(PRIMES)] for i, v in enumerate(system.state.value)],
                                     system.state.units)
        else:
            raise ValueError(st_mode)
    return system


def b_script(sp):
    seed = sp["seed"]
    if seed is None:
        random.seed(sp["pyseed"])      # the script draws its seed from `random`; the draw is made reproducible
    elif sp.get("np"):
        seed = np.int64(seed)
    return RDScript(b_system(sp["system"]), _b_array(sp["t_sample"]), time_step=sp["time_step"], t_max=sp["t_max"],
                    sampling_policy=sp["policy"], sampling_interval=sp["interval"], rng_seed=seed,
                    init_state_processing=sp["isp"], units_system=_us(sp["u"]))


def b_trajectory(sp):
    script = b_script(sp["script"])
    if sp["mode"] == "hand":
        system = script.system
        n = system.network.nspecies() * system.space.size()
        t = sp["t"]
        data = [2.0 + 0.5 * k for k in range(n * len(t["value"]))]
        cg = sp["cgmap"]
        if cg is not None and sp.get("cgmap_tuple"):
            cg = tuple(cg)
        return RDTrajectory(UnitArray(data, sp["data_units"]), UnitArray(t["value"], t["units"]), system,
                            script=(script if sp["with_script"] else None),
                            engine_description=sp["engine_description"], engine_option=sp["engine_option"],
                            cgmap=cg)
    from mc import eng
    from strengths.simulate import simulate_script
    try:
        engine = eng.make_engine("euler")
    except OSError:
        # the cached build was pruned by a concurrent run of another check: build again
        eng._paths.pop("plain", None)
        engine = eng.make_engine("euler")
    if sp["mode"] == "simcg":
        tr = simulate_script(script, engine, cgmap=list(sp["cgmap"]))
    else:
        tr = simulate_script(script, engine)
    if not sp["with_script"]:
        tr = RDTrajectory(tr.data, tr.t, tr.system, script=None, engine_description=tr.engine_description,
                          engine_option=tr.engine_option, cgmap=tr.cgmap)
    return tr


BUILD = {"species": b_species, "reaction": b_reaction, "rdnetwork": b_network, "rdgridspace": b_space,
         "rdgraphspace": b_space, "rdspace": b_space, "rdsystem": b_system, "rdscript": b_script,
         "rdtrajectory": b_trajectory}

TO = {"species": species_to_dict, "reaction": reaction_to_dict, "rdnetwork": rdnetwork_to_dict,
      "rdgridspace": rdgridspace_to_dict, "rdgraphspace": rdgraphspace_to_dict, "rdspace": rdspace_to_dict,
      "rdsystem": rdsystem_to_dict, "rdscript": rdscript_to_dict}
FROM = {"species": species_from_dict, "reaction": reaction_from_dict, "rdnetwork": rdnetwork_from_dict,
        "rdgridspace": rdgridspace_from_dict, "rdgraphspace": rdgraphspace_from_dict, "rdspace": rdspace_from_dict,
        "rdsystem": rdsystem_from_dict, "rdscript": rdscript_from_dict}
HAS_PARENT = ("species", "reaction", "rdnetwork", "rdgridspace", "rdgraphspace", "rdspace", "rdsystem")
SAVE = {"rdnetwork": save_rdnetwork, "rdspace": save_rdspace, "rdsystem": save_rdsystem,
        "rdscript": lambda obj, path: _rdscript_mod.save_rdscript(obj, path),
        "rdtrajectory": save_rdtrajectory}
SAVE_NAME = {"rdnetwork": "save_rdnetwork", "rdspace": "save_rdspace", "rdsystem": "save_rdsystem",
             "rdscript": "save_rdscript", "rdtrajectory": "save_rdtrajectory"}
LOAD = {"rdnetwork": load_rdnetwork, "rdspace": load_rdspace, "rdsystem": load_rdsystem,
        "rdscript": load_rdscript, "rdtrajectory": load_rdtrajectory}


# =====================================================================================================
# calling the library; attribution of exceptions
# =====================================================================================================

class Cx:
    """per-case bookkeeping"""

    def __init__(self):
        self.ops = 0
        self.evals = 0
        self.counts = {}

    def count(self, k, n=1):
        self.counts[k] = self.counts.get(k, 0) + n


class LibFail(Exception):
    def __init__(self, site, exc):
        Exception.__init__(self, str(exc))
        self.site = site
        self.exc = exc
        self.inner = _innermost(exc) or site
        self.tail = "".join(traceback.format_exception(type(exc), exc, exc.__traceback__))[-900:]

    def slug(self):
        return "%s-%s" % (type(self.exc).__name__, _slug(str(self.exc)))

    def key(self):
        return "%s:%s:unexpected-exception:%s" % (PID, self.inner, self.slug())

    def what(self, ctx=""):
        return "%s%s raised %s: %s" % (ctx, self.site, type(self.exc).__name__, str(self.exc)[:300])


def _slug(msg):
    msg = re.sub(r"/[^\s'\"]+", "PATH", msg)
    return re.sub(r"[^A-Za-z_]+", "-", msg).strip("-")[:60]


def _innermost(exc):
    """name of the innermost function of the strengths package on the traceback"""
    name = None
    for fr in traceback.extract_tb(exc.__traceback__):
        fn = os.path.abspath(fr.filename)
        if fn.startswith(STRENGTHS_DIR) and not fr.name.startswith("<"):
            name = fr.name
    return name


def _call(cx, site, f, *a, **k):
    cx.ops += 1
    try:
        return f(*a, **k)
    except Exception as e:  # noqa: BLE001 - every library exception is a finding here
        raise LibFail(site, e)


@contextlib.contextmanager
def _cwd(path):
    old = os.getcwd()
    os.chdir(path)
    try:
        yield
    finally:
        os.chdir(old)


# =====================================================================================================
# comparisons
# =====================================================================================================

_NUMSTR = re.compile(r"^\s*([-+]?(?:[0-9]+\.?[0-9]*|\.[0-9]+)(?:[eE][-+]?[0-9]+)?|[-+]?(?:inf|nan))\s+(\S+)\s*$")


def _num_close(a, b):
    if a == b:
        return True
    try:
        return abs(a - b) <= 1e-12 * max(abs(a), abs(b))
    except (TypeError, OverflowError):
        return False


def _same(a, b, path=""):
    """None if the two JSON values are the same (floats to 1e-12), else the path of the first difference."""
    if isinstance(a, dict) and isinstance(b, dict):
        for k in a:
            if k not in b:
                return "%s.%s<missing-after>" % (path, k)
        for k in b:
            if k not in a:
                return "%s.%s<added-after>" % (path, k)
        for k in a:
            r = _same(a[k], b[k], "%s.%s" % (path, k))
            if r is not None:
                return r
        return None
    if isinstance(a, list) and isinstance(b, list):
        if len(a) != len(b):
            return path + "<length>"
        for i, (x, y) in enumerate(zip(a, b)):
            r = _same(x, y, "%s[%d]" % (path, i))
            if r is not None:
                return r
        return None
    if isinstance(a, bool) or isinstance(b, bool) or a is None or b is None:
        return None if (type(a) is type(b) and a == b) else path
    if isinstance(a, (int, float)) and isinstance(b, (int, float)):
        return None if _num_close(a, b) else path
    if isinstance(a, str) and isinstance(b, str):
        if a == b:
            return None
        ma, mb = _NUMSTR.match(a), _NUMSTR.match(b)
        if ma and mb and ma.group(2) == mb.group(2) and _num_close(float(ma.group(1)), float(mb.group(1))):
            return None
        return path
    return path


_SEG_KIND = {"script": "rdscript", "system": "rdsystem", "network": "rdnetwork", "space": "rdspace",
             "species[]": "species", "reactions[]": "reaction", "nodes[]": "rdgraphspacenode",
             "edges[]": "rdgraphspaceedge"}
_TOP_KIND = {"rdgridspace": "rdspace", "rdgraphspace": "rdspace"}


def _fix_key(kind, path):
    """(innermost kind, remaining path) of a difference found at `path` of the dictionary of a `kind`"""
    segs = re.sub(r"\[\d+\]", "[]", path).lstrip(".").split(".")
    kind = _TOP_KIND.get(kind, kind)
    rest = []
    for sgm in segs:
        base = sgm.split("<")[0]
        # "nodes" of an edge dictionary is the pair of node indices, not a list of node dictionaries
        if base in _SEG_KIND and not (kind == "rdgraphspaceedge" and base == "nodes[]") \
                and not (kind == "rdtrajectory" and base == "space") and "<" not in sgm:
            kind, rest = _SEG_KIND[base], []
        else:
            rest.append(sgm)
    return "%s:%s:not-fixpoint:%s" % (PID, kind, ".".join(rest) or "<value>")


def _norm(cx, toname, d, out, ctx):
    """JSON dump/load normalisation; a to_dict result that cannot be dumped is a violation."""
    try:
        return json.loads(json.dumps(d))
    except (TypeError, ValueError) as e:
        m = re.search(r"of type (\w+)", str(e))
        out.append(("%s:%s:not-json-serialisable:%s" % (PID, toname, m.group(1) if m else type(e).__name__),
                    "%sjson.dumps(%s(x)) failed: %s" % (ctx, toname, e)))
        return None


def _phys(cx, a, b, out, ctx):
    """physical comparison; one violation per (innermost kind, field)"""
    cx.evals += 1
    try:
        es = physical.diff_entries(a, b)
    except Exception as e:  # noqa: BLE001 - an object the reference cannot even read is not equal
        out.append(("%s:%s:changed:unreadable" % (PID, type(b).__name__.lower()),
                    "%sreloaded object cannot be described: %s: %s" % (ctx, type(e).__name__, e)))
        return False
    if not es:
        return True
    groups = {}
    for e in es:
        groups.setdefault((e.kind, e.field), []).append(e)
    for (kind, field), lst in groups.items():
        out.append(("%s:%s:changed:%s" % (PID, kind, field),
                    "%s%d difference(s) original vs reloaded, e.g. %s" % (ctx, len(lst), "; ".join(x.text() for x in lst[:3]))))
    return False


# =====================================================================================================
# routes
# =====================================================================================================

def _from(cx, kind, d, parent=None, base_path=None):
    f = FROM[kind]
    if kind in HAS_PARENT and parent is not None:
        return _call(cx, f.__name__, f, d, uq.mk_sys(parent))
    if base_path is not None:
        return _call(cx, f.__name__, f, d, base_path=base_path)
    return _call(cx, f.__name__, f, d)


def rt_dict(cx, kind, obj, route, out):
    """dict / json / poison routes + fix-point"""
    ctx = "[%s %s] " % (kind, route)
    to = TO[kind]
    d1 = _call(cx, to.__name__, to, obj)
    n1 = _norm(cx, to.__name__, d1, out, ctx)
    if route == "json":
        if n1 is None:
            return
        src = json.loads(json.dumps(d1))
    else:
        src = d1
    y = _from(cx, kind, src, parent=(POISON if route == "poison" else None))
    _phys(cx, obj, y, out, ctx)
    d2 = _call(cx, to.__name__, to, y)
    n2 = _norm(cx, to.__name__, d2, out, ctx)
    if n1 is not None and n2 is not None:
        cx.evals += 1
        p = _same(n1, n2)
        if p is not None:
            out.append((_fix_key(kind, p),
                        "%sto_dict(from_dict(to_dict(x))) differs from to_dict(x) at %s" % (ctx, p)))


def _json_file(path):
    with open(path, "r", encoding="utf-8") as f:
        return json.load(f)


def _inline_data(d, json_path):
    """replace the external data file name of a trajectory JSON by the array content"""
    dd = d.get("data")
    if isinstance(dd, dict) and isinstance(dd.get("value"), str):
        p = os.path.join(os.path.dirname(json_path), dd["value"])
        dd = dict(dd)
        dd["value"] = np.load(p).tolist()
        d = dict(d)
        d["data"] = dd
    return d


def rt_file(cx, kind, obj, route, tmp, out, separate_data=True):
    """save_* / load_*: 'abs', 'abs-noext' (trajectories), 'rel' (relative path, loaded from another cwd)."""
    ctx = "[%s file:%s%s] " % (kind, route, "" if kind != "rdtrajectory" else ":separate_data=%s" % separate_data)
    a, b = os.path.join(tmp, "a"), os.path.join(tmp, "b")
    os.makedirs(os.path.join(a, "sub"))
    os.makedirs(b)
    save, load = SAVE[kind], LOAD[kind]
    kw = {"separate_data": separate_data} if kind == "rdtrajectory" else {}
    name = "obj" if route == "abs-noext" else "obj.json"
    if route == "rel":
        with _cwd(a):
            _call(cx, SAVE_NAME[kind], save, obj, os.path.join("sub", name), **kw)
        cx.count("relative_path_cases")
        with _cwd(b):
            y = _call(cx, load.__name__, load, os.path.join("..", "a", "sub", "obj.json"))
    else:
        with _cwd(b):
            _call(cx, SAVE_NAME[kind], save, obj, os.path.join(a, "sub", name), **kw)
            y = _call(cx, load.__name__, load, os.path.join(a, "sub", "obj.json"))
    cx.count("files_written")
    _phys(cx, obj, y, out, ctx)
    # saving the reloaded object again gives the same file
    p1 = os.path.join(a, "sub", "obj.json")
    p2 = os.path.join(b, "again.json")
    with _cwd(b):
        _call(cx, SAVE_NAME[kind], save, y, p2, **kw)
    j1, j2 = _json_file(p1), _json_file(p2)
    if kind == "rdtrajectory":
        j1, j2 = _inline_data(j1, p1), _inline_data(j2, p2)
    cx.evals += 1
    p = _same(j1, j2)
    if p is not None:
        out.append((_fix_key(kind, p),
                    "%ssave(load(save(x))) differs from save(x) at %s" % (ctx, p)))


# ---- multi-file layouts (files written by the check from the to_dict output) -----------------------------

def _dump(path, d):
    with open(path, "w", encoding="utf-8") as f:
        json.dump(d, f, indent=1)


# layouts of a text array file, all accepted by the documented reader (numbers separated by blanks, commas or line
# ends; the repository's own tests/test_json_files/*/env.txt use rows, commas, CRLF and a blank line between layers)
TXT_LAYOUTS = ["one-line", "one-per-line-commas", "one-per-line", "rows", "rows-blank-line-between-blocks",
               "leading-blank-lines", "trailing-blank-lines", "no-final-newline", "crlf-commas-blocks-like-the-tests",
               "tabs-and-blank-lines-with-spaces"]


def _txt_layout(ext):
    """'txt' -> 0, 'txtc' -> 1, 'txtL<k>' -> k"""
    if ext == "txt":
        return 0
    if ext == "txtc":
        return 1
    return int(ext[4:])


def _write_txt(path, arr, layout=0, row=3, block=6):
    vals = [str(int(x)) for x in arr]
    rows = [vals[i:i + row] for i in range(0, len(vals), row)]
    per_block = max(1, block // row)
    blocks = [rows[i:i + per_block] for i in range(0, len(rows), per_block)]
    name = TXT_LAYOUTS[layout]
    if name == "one-line":
        txt = " ".join(vals)
    elif name == "one-per-line-commas":
        txt = ",\n".join(vals) + "\n"
    elif name == "one-per-line":
        txt = "\n".join(vals) + "\n"
    elif name == "rows":
        txt = "\n".join(" ".join(r) for r in rows) + "\n"
    elif name == "rows-blank-line-between-blocks":
        txt = "\n\n".join("\n".join(" ".join(r) for r in bl) for bl in blocks) + "\n"
    elif name == "leading-blank-lines":
        txt = "\n\n" + "\n".join(" ".join(r) for r in rows) + "\n"
    elif name == "trailing-blank-lines":
        txt = "\n".join(" ".join(r) for r in rows) + "\n\n\n"
    elif name == "no-final-newline":
        txt = "\n".join(" ".join(r) for r in rows)
    elif name == "crlf-commas-blocks-like-the-tests":
        txt = ",\r\n\r\n".join(",\r\n".join(",".join(r) for r in bl) for bl in blocks)
    elif name == "tabs-and-blank-lines-with-spaces":
        txt = "\n  \n".join("\n".join("\t".join(r) + "  " for r in bl) for bl in blocks) + "\n"
    else:
        raise ValueError(layout)
    with open(path, "w", encoding="utf-8", newline="") as f:
        f.write(txt)


def _strip_inherited(d, parent_units, children):
    """delete a nested "units" entry equal to the parent's (the documented default "inherit" restores it)"""
    n = 0
    for c in children:
        if isinstance(c, dict) and c.get("units") == parent_units:
            del c["units"]
            n += 1
    return n


class NoLayout(Exception):
    """the to_dict output does not have the documented shape, so no multi-file layout can be derived from it
    (the dict / json routes report what is wrong with it)"""


def write_system_layout(cx, d, root, ext, strip):
    try:
        return _write_system_layout(cx, d, root, ext, strip)
    except (KeyError, TypeError, AttributeError, ValueError, IndexError) as e:
        raise NoLayout("%s: %s" % (type(e).__name__, e))


def _write_system_layout(cx, d, root, ext, strip):
    """system.json -> net/network.json, sp/space.json (-> env file), state.npy, chemostats file."""
    sysdir = os.path.join(root, "sys")
    os.makedirs(os.path.join(sysdir, "net"))
    os.makedirs(os.path.join(sysdir, "sp"))
    d = copy.deepcopy(d)
    net, space = d["network"], d["space"]
    if strip:
        k = _strip_inherited(net, net.get("units"), list(net["species"]) + list(net["reactions"]))
        k += _strip_inherited(d, d.get("units"), [net, space])
        cx.count("inherited_units_entries_stripped", k)
    if space.get("type") == "grid" and isinstance(space.get("cell_env"), list):
        if ext == "npy":
            np.save(os.path.join(sysdir, "sp", "env.npy"), np.array(space["cell_env"], dtype=int))
            space["cell_env"] = "env.npy"
        else:
            _write_txt(os.path.join(sysdir, "sp", "env.txt"), space["cell_env"], 0 if ext == "txt" else _txt_layout(ext),
                       row=int(space["w"]), block=int(space["w"]) * int(space["h"]))
            space["cell_env"] = "env.txt"
        cx.count("external_cell_env_files")
    _dump(os.path.join(sysdir, "net", "network.json"), net)
    _dump(os.path.join(sysdir, "sp", "space.json"), space)
    np.save(os.path.join(sysdir, "state.npy"), np.array(d["state"]["value"], dtype=float))
    top = {"units": d["units"], "network": "net/network.json", "space": "sp/space.json",
           "state": {"value": "state.npy", "units": d["state"]["units"]}}
    if ext == "npy":
        np.save(os.path.join(sysdir, "chem.npy"), np.array(d["chemostats"], dtype=int))
        top["chemostats"] = "chem.npy"
    else:
        nsp = max(1, len(net["species"]))
        _write_txt(os.path.join(sysdir, "chem.txt"), d["chemostats"], 1 if ext == "txt" else _txt_layout(ext),
                   row=max(1, len(d["chemostats"]) // nsp // 2), block=len(d["chemostats"]) // nsp)
        top["chemostats"] = "chem.txt"
    _dump(os.path.join(sysdir, "system.json"), top)
    cx.count("files_written", 5)
    cx.count("external_array_files", 2)
    return os.path.join(sysdir, "system.json")


def _load_two_ways(cx, kind, root, relfile, how):
    """how = 'abs' (absolute path, cwd elsewhere) | 'rel' (relative path from another directory)"""
    other = os.path.join(root, "elsewhere", "deep")
    os.makedirs(other, exist_ok=True)
    load = LOAD[kind]
    with _cwd(other):
        if how == "abs":
            return _call(cx, load.__name__, load, os.path.join(root, relfile))
        cx.count("relative_path_cases")
        return _call(cx, load.__name__, load, os.path.join("..", "..", relfile))


def rt_multi(cx, kind, obj, route, tmp, out):
    try:
        return _rt_multi(cx, kind, obj, route, tmp, out)
    except (KeyError, TypeError, AttributeError, IndexError) as e:
        raise NoLayout("%s: %s" % (type(e).__name__, e))


def _rt_multi(cx, kind, obj, route, tmp, out):
    """route = 'multi:<npy|txt>:<abs|rel>:<keep|strip>[:text]' ; kind in rdsystem / rdscript / rdtrajectory."""
    _, ext, how, strip = route.split(":")[:4]
    t_ext = route.endswith(":text")
    ctx = "[%s %s] " % (kind, route)
    root = os.path.join(tmp, "m")
    os.makedirs(root)
    if kind == "rdsystem":
        d = _norm(cx, "rdsystem_to_dict", _call(cx, "rdsystem_to_dict", rdsystem_to_dict, obj), out, ctx)
        if d is None:
            return
        write_system_layout(cx, d, root, ext, strip == "strip")
        y = _load_two_ways(cx, kind, root, os.path.join("sys", "system.json"), how)
    elif kind == "rdscript":
        d = _norm(cx, "rdscript_to_dict", _call(cx, "rdscript_to_dict", rdscript_to_dict, obj), out, ctx)
        if d is None:
            return
        write_system_layout(cx, d["system"], root, ext, strip == "strip")
        os.makedirs(os.path.join(root, "scr"))
        np.save(os.path.join(root, "scr", "ts.npy"), np.array(d["t_sample"]["value"], dtype=float))
        d["system"] = "../sys/system.json"
        d["t_sample"] = {"value": "ts.npy", "units": d["t_sample"]["units"]}
        _dump(os.path.join(root, "scr", "script.json"), d)
        cx.count("files_written", 2)
        y = _load_two_ways(cx, kind, root, os.path.join("scr", "script.json"), how)
    else:
        # a trajectory file as save_rdtrajectory writes it, with every nested part moved to its own file
        os.makedirs(os.path.join(root, "trj"))
        with _cwd(root):
            _call(cx, "save_rdtrajectory", save_rdtrajectory, obj, os.path.join(root, "trj", "traj.json"), True)
        d = _json_file(os.path.join(root, "trj", "traj.json"))
        write_system_layout(cx, d["system"], root, ext, strip == "strip")
        top = _json_file(os.path.join(root, "sys", "system.json"))
        top["network"] = "../sys/" + top["network"]
        top["space"] = "../sys/" + top["space"]
        top["state"]["value"] = "../sys/" + top["state"]["value"]
        top["chemostats"] = "../sys/" + top["chemostats"]
        d["system"] = top
        np.save(os.path.join(root, "trj", "ts.npy"), np.array(d["script"]["t_sample"]["value"], dtype=float))
        d["script"]["system"] = "../sys/system.json"
        d["script"]["t_sample"] = {"value": "ts.npy", "units": d["script"]["t_sample"]["units"]}
        if t_ext:
            np.save(os.path.join(root, "trj", "traj_t.npy"), np.array(d["t_sample"]["value"], dtype=float))
            d["t_sample"] = {"value": "traj_t.npy", "units": d["t_sample"]["units"]}
            cx.count("trajectory_external_t_sample")
        _dump(os.path.join(root, "trj", "traj.json"), d)
        cx.count("files_written", 3)
        y = _load_two_ways(cx, kind, root, os.path.join("trj", "traj.json"), how)
    _phys(cx, obj, y, out, ctx)


def rt_space_external(cx, obj, route, tmp, out):
    try:
        return _rt_space_external(cx, obj, route, tmp, out)
    except (KeyError, TypeError, AttributeError, IndexError) as e:
        raise NoLayout("%s: %s" % (type(e).__name__, e))


def _rt_space_external(cx, obj, route, tmp, out):
    """a space JSON whose cell_env is an external .npy / .txt file: 'ext:<npy|txt|txtc>:<abs|rel>'"""
    _, ext, how = route.split(":")
    ctx = "[rdspace %s] " % route
    d = _norm(cx, "rdspace_to_dict", _call(cx, "rdspace_to_dict", rdspace_to_dict, obj), out, ctx)
    if d is None:
        return
    root = os.path.join(tmp, "m")
    os.makedirs(os.path.join(root, "sp"))
    if ext == "npy":
        np.save(os.path.join(root, "sp", "env.npy"), np.array(d["cell_env"], dtype=int))
        d["cell_env"] = "env.npy"
    else:
        _write_txt(os.path.join(root, "sp", "env.txt"), d["cell_env"], _txt_layout(ext), row=int(d["w"]),
                   block=int(d["w"]) * int(d["h"]))
        d["cell_env"] = "env.txt"
    _dump(os.path.join(root, "sp", "space.json"), d)
    cx.count("files_written", 2)
    cx.count("external_cell_env_files")
    y = _load_two_ways(cx, "rdspace", root, os.path.join("sp", "space.json"), how)
    _phys(cx, obj, y, out, ctx)


# =====================================================================================================
# aliases (documentation/json_and_dict_doc.rst; undocumented ones are the extra spellings the readers list)
# =====================================================================================================

UA = ["units_system", "units system", "u"]
# reader -> [(canonical key, [aliases], documented)]
ALIASES = {
    "species": [("label", ["l"], True), ("density", ["concentration", "dens", "conc", "C"], True),
                ("D", ["diff_coef", "diff coef", "diffusion_coefficient", "diffusion coefficient"], True),
                ("chstt", ["chemostat"], True), ("units", UA, True)],
    "reaction": [("label", ["l"], True), ("stoichiometry", ["sto", "equation", "eq"], True),
                 ("k+", ["kf"], True), ("k-", ["kr"], True), ("units", UA, True)],
    "rdnetwork": [("environments", ["env"], True), ("units", UA, True)],
    "rdgridspace": [("w", ["width"], True), ("h", ["height"], True), ("d", ["depth"], True),
                    ("cell_env", ["cell_environments"], True),
                    ("cell_env", ["cell environments", "environments", "env"], False),
                    ("cell_volume", ["cell_vol"], True), ("units", UA, True)],
    "rdgraphspace": [("units", UA, False)],
    "rdgraphspacenode": [("volume", ["vol"], False), ("environment", ["env"], False), ("units", UA, False)],
    "rdgraphspaceedge": [("units", UA, False)],
    "rdsystem": [("network", ["rdnetwork"], True), ("space", ["rdspace"], True), ("units", UA, True)],
    "rdscript": [("units", UA, True), ("time_step", ["time step", "dt"], False), ("t_max", ["tmax"], False),
                 ("sampling_policy", ["sampling policy"], False),
                 ("sampling_interval", ["sampling interval"], False), ("rng_seed", ["rng seed", "seed"], False)],
}


def _alias_bases():
    sA = {"label": "A", "density": {"a": 13, "default": "17 µM"}, "D": 3, "chstt": {"a": True}, "units": _ud(1)}
    sB = {"label": "B", "density": 19, "D": {"b": "7 nm2/µs"}, "chstt": True, "units": _ud(2)}
    sC = {"label": "C", "D": "5 cm2/min", "units": _ud(1)}
    r0 = {"label": "bind", "stoichiometry": "A + 2 B -> C", "k+": 2, "k-": {"a": 5, "default": 7}, "units": _ud(2)}
    r1 = {"label": "src", "stoichiometry": " -> A", "k+": 11, "k-": 0, "units": _ud(1)}
    net = {"species": [sA, sB, sC], "reactions": [r0, r1], "environments": ["a", "b"], "units": _ud(1)}
    grid = {"type": "grid", "w": 3, "h": 2, "d": 1, "cell_env": [0, 1, 0, 1, 0, 1], "cell_volume": 3,
            "boundary_conditions": {"x": "periodical", "y": "reflecting", "z": "reflecting"}, "units": _ud(2)}
    node0 = {"volume": 2, "environment": 1, "units": _ud(2)}
    node1 = {"volume": "7 fL", "environment": 0, "units": _ud(1)}
    edge0 = {"nodes": [0, 1], "surface": 11, "distance": 19, "units": _ud(2)}
    graph = {"type": "graph", "nodes": [node0, node1], "edges": [edge0], "units": _ud(1)}

    def system(space, ncells):
        return {"network": net, "space": space,
                "state": {"value": [2 + k for k in range(3 * ncells)], "units": "mmol"},
                "chemostats": [(k % 3 == 0) * 1 for k in range(3 * ncells)], "units": _ud(2)}

    def script(space, ncells):
        return {"system": system(space, ncells), "t_sample": {"value": [0, 0.5, 1.5], "units": "min"},
                "time_step": 0.25, "t_max": "2 min", "sampling_policy": "on_interval", "sampling_interval": "30 s",
                "rng_seed": 77, "units": _ud(1)}

    return {"species": sA, "reaction": r0, "rdnetwork": net, "rdgridspace": grid, "rdgraphspace": graph,
            "rdsystem": system(grid, 6), "rdscript": script(grid, 6), "rdscript_graph": script(graph, 2)}


# where the dictionary of each reader sits inside its top-level / nested holder
ALIAS_SITES = {
    # reader: [(holder base, holder reader, path to the reader's dict)]
    "species": [("species", "species", []), ("rdscript", "rdscript", ["system", "network", "species", 0])],
    "reaction": [("reaction", "reaction", []), ("rdscript", "rdscript", ["system", "network", "reactions", 0])],
    "rdnetwork": [("rdnetwork", "rdnetwork", []), ("rdscript", "rdscript", ["system", "network"])],
    "rdgridspace": [("rdgridspace", "rdgridspace", []), ("rdgridspace", "rdspace", []),
                    ("rdscript", "rdscript", ["system", "space"])],
    "rdgraphspace": [("rdgraphspace", "rdgraphspace", []), ("rdgraphspace", "rdspace", []),
                     ("rdscript_graph", "rdscript", ["system", "space"])],
    "rdgraphspacenode": [("rdgraphspace", "rdgraphspace", ["nodes", 0]),
                         ("rdscript_graph", "rdscript", ["system", "space", "nodes", 1])],
    "rdgraphspaceedge": [("rdgraphspace", "rdgraphspace", ["edges", 0]),
                         ("rdscript_graph", "rdscript", ["system", "space", "edges", 0])],
    "rdsystem": [("rdsystem", "rdsystem", []), ("rdscript", "rdscript", ["system"])],
    "rdscript": [("rdscript", "rdscript", []), ("rdscript_graph", "rdscript", [])],
}


def _at(d, path):
    for p in path:
        d = d[p]
    return d


def check_alias(cx, case, out):
    reader, key, alias, documented, site = case["reader"], case["key"], case["alias"], case["documented"], case["site"]
    base_name, holder, path = ALIAS_SITES[reader][site]
    base = copy.deepcopy(_alias_bases()[base_name])
    ctx = "[alias %s: %r -> %r in %s at %s] " % (reader, key, alias, holder, path)
    try:
        ref = _from(cx, holder, copy.deepcopy(base), parent=POISON)
    except LibFail as lf:
        cx.count("alias_base_failed")
        out.append((lf.key(), lf.what(ctx + "canonical dictionary: ")))
        return
    d = _at(base, path)
    if key not in d:
        raise AssertionError("checker: base of %s lacks %s" % (reader, key))
    new = {}
    for k, v in d.items():            # keep the position of the key
        new[alias if k == key else k] = v
    d.clear()
    d.update(new)
    try:
        got = _from(cx, holder, base, parent=POISON)
    except LibFail as lf:
        if not documented and isinstance(lf.exc, ValueError) and "key" in str(lf.exc):
            cx.count("undocumented_alias_rejected")
            return
        out.append(("%s:%s_from_dict:alias:%s=%s:rejected" % (PID, reader, key, alias), lf.what(ctx)))
        return
    cx.count("alias_accepted_documented" if documented else "alias_accepted_undocumented")
    tmp_out = []
    if not _phys(cx, ref, got, tmp_out, ctx):
        out.append(("%s:%s_from_dict:alias:%s=%s:differs" % (PID, reader, key, alias),
                    ctx + "object differs from the one read with the canonical key: " + tmp_out[0][1]))


# =====================================================================================================
# documented defaults
# =====================================================================================================
# Each claim: reader, key, list of variant dictionaries that the documentation makes equivalent.

DEFAULT_UNITS = uq.sysdict(si.DEFAULT)


def _default_claims():
    B = _alias_bases()
    cl = []

    def add(reader, key, variants, parents=(None,), doc=""):
        for p in parents:
            cl.append({"reader": reader, "key": key, "variants": variants, "parent": p, "doc": doc})

    def without(d, k):
        d = copy.deepcopy(d)
        del d[k]
        return d

    def with_(d, k, v):
        d = copy.deepcopy(d)
        d[k] = v
        return d

    P = (None, 2)          # parent unit systems tried (None = the reader's own default argument)

    def units_variants(base, parent, reader):
        inh = "default" if reader == "rdscript" else "inherit"
        pd = DEFAULT_UNITS if (parent is None or reader == "rdscript") else _ud(parent)
        vs = [("omitted", without(base, "units")), ("'%s'" % inh, with_(base, "units", inh)),
              ("explicit dictionary", with_(base, "units", pd))]
        if reader in ("rdscript", "rdsystem") and parent is None:
            # "In the specific case of the reaction-diffusion system/script, inherit is the same as default"
            vs.insert(2, ("'inherit'" if inh == "default" else "'default'",
                          with_(base, "units", "inherit" if inh == "default" else "default")))
        return vs

    sp = {"label": "A", "density": 13, "D": 3, "chstt": True, "units": _ud(1)}
    add("species", "density", [("omitted", without(sp, "density")), ("0", with_(sp, "density", 0))], P, "default: 0")
    add("species", "D", [("omitted", without(sp, "D")), ("0", with_(sp, "D", 0))], P, "default: 0")
    add("species", "chstt", [("omitted", without(sp, "chstt")), ("false", with_(sp, "chstt", False))], P, "default: false")
    for p in P:
        add("species", "units", units_variants(sp, p, "species"), (p,), 'default: "inherit"')
    add("species", "density.default", [("no 'default' entry", with_(sp, "density", {"a": 13})),
                                       ("'default': 0", with_(sp, "density", {"a": 13, "default": 0}))], P,
        'by default, "default" is 0')
    add("species", "D.default", [("no 'default' entry", with_(sp, "D", {"a": 3})),
                                 ("'default': 0", with_(sp, "D", {"a": 3, "default": 0}))], P,
        'by default, "default" is 0')
    add("species", "chstt.default", [("no 'default' entry", with_(sp, "chstt", {"a": True})),
                                     ("'default': false", with_(sp, "chstt", {"a": True, "default": False}))], P,
        'by default, "default" is false')

    re_ = {"label": "r", "stoichiometry": "A + B -> C", "k+": 2, "k-": 5, "units": _ud(1)}
    add("reaction", "label", [("omitted", without(re_, "label")), ("null", with_(re_, "label", None))], P, "default: None/null")
    add("reaction", "k+", [("omitted", without(re_, "k+")), ("0", with_(re_, "k+", 0))], P, "default: 0")
    add("reaction", "k-", [("omitted", without(re_, "k-")), ("0", with_(re_, "k-", 0))], P, "default: 0")
    for p in P:
        add("reaction", "units", units_variants(re_, p, "reaction"), (p,), 'default: "inherit"')

    net = with_(B["rdnetwork"], "reactions", [])
    add("rdnetwork", "reactions", [("omitted", without(net, "reactions")), ("[]", net)], P, "default: []")
    net2 = copy.deepcopy(B["rdnetwork"])
    for s in net2["species"]:
        s.pop("units", None)
    for p in P:
        add("rdnetwork", "units", units_variants(net2, p, "rdnetwork"), (p,), 'default: "inherit"')

    for reader in ("rdgridspace", "rdspace"):
        g = {"w": 2, "h": 3, "d": 2, "cell_env": [k % 2 for k in range(12)], "cell_volume": 3, "units": _ud(1)}
        for ax, sz in (("w", 6), ("h", 4), ("d", 6)):
            gb = with_(g, "cell_env", [k % 2 for k in range(sz)])
            add(reader, ax, [("omitted", without(gb, ax)), ("1", with_(gb, ax, 1))], P, "default: 1")
        add(reader, "cell_env", [("omitted", without(g, "cell_env")), ("0", with_(g, "cell_env", 0))], P, "default: 0")
        add(reader, "cell_volume", [("omitted", without(g, "cell_volume")), ("1", with_(g, "cell_volume", 1))], P,
            "default: 1")
        for p in P:
            add(reader, "units", units_variants(g, p, reader), (p,), 'default: "inherit"')
    g = {"w": 2, "h": 1, "d": 1, "cell_env": [0, 1], "cell_volume": 3, "units": _ud(1)}
    add("rdspace", "type", [("omitted", g), ("'grid'", with_(g, "type", "grid"))], P,
        "the grid section lists no type key; load_rdspace / rdspace_from_dict are its readers")

    sy = copy.deepcopy(B["rdsystem"])
    add("rdsystem", "state", [("omitted", without(sy, "state")), ("null", with_(sy, "state", None))], P, "default: None/null")
    add("rdsystem", "chemostats", [("omitted", without(sy, "chemostats")), ("null", with_(sy, "chemostats", None))], P,
        "default: None/null (documented under the name chstt_map)")
    # "a default system state will be generated, based on the species densities" (amount = density of the cell's
    # environment x volume of the cell) / "according to the species chemostats": the generated values themselves,
    # on a grid and on a graph whose nodes of one environment have different volumes
    gnodes = [{"volume": 2, "environment": 1, "units": _ud(2)}, {"volume": "7 fL", "environment": 0},
              {"volume": 8, "environment": 1, "units": _ud(2)}, {"volume": 5, "environment": 0}]
    gsp = {"type": "graph", "nodes": gnodes, "edges": [{"nodes": [0, 2], "surface": 3, "distance": 2}], "units": _ud(1)}
    for nm, base in (("grid", sy), ("graph", with_(sy, "space", gsp))):
        b = without(without(base, "state"), "chemostats")
        for p in P:
            cl.append({"reader": "rdsystem", "key": "state-value", "computed": "state", "parent": p, "loc": nm,
                       "variants": [("omitted", b), ("null", with_(b, "state", None))],
                       "doc": "state null/omitted: default state generated from the species densities (density x volume)"})
            cl.append({"reader": "rdsystem", "key": "chemostats-value", "computed": "chemostats", "parent": p, "loc": nm,
                       "variants": [("omitted", b), ("null", with_(b, "chemostats", None))],
                       "doc": "map null/omitted: generated according to the species chemostats"})
    sy1 = without(without(sy, "state"), "chemostats")
    for p in P:
        # the system's own units are explicit here, so the grid must inherit exactly these
        expl = {"type": "grid", "w": 1, "h": 1, "d": 1, "cell_env": 0, "cell_volume": 1, "units": sy1["units"]}
        add("rdsystem", "space-omitted", [("omitted", without(sy1, "space")), ("explicit default grid in the system's units",
                                                                           with_(sy1, "space", expl))], (p,),
            "default: None/null = RDGridSpace(units_system=system.units_system)")
        add("rdsystem", "space-null", [("null", with_(sy1, "space", None)), ("explicit default grid in the system's units",
                                                                        with_(sy1, "space", expl))], (p,),
            "None/null: cell grid built with default parameters, units system inherited from the system")
    sy2 = copy.deepcopy(sy)
    sy2["network"].pop("units")
    sy2["space"].pop("units")
    for p in P:
        add("rdsystem", "units", units_variants(sy2, p, "rdsystem"), (p,), 'default: "inherit"')

    sc = copy.deepcopy(B["rdscript"])
    sc2 = copy.deepcopy(sc)
    sc2["system"].pop("units")
    add("rdscript", "units", units_variants(sc2, None, "rdscript"), (None,), 'default: "default"')
    add("rdscript", "t_max=default", [("'default'", with_(sc, "t_max", "default")),
                                      ("the last t_sample value", with_(sc, "t_max", "1.5 min"))], (None,),
        '"default": t_max will be the last value in t_sample')
    # constructor defaults listed in the RDScript class documentation
    add("rdscript", "time_step", [("omitted", without(sc, "time_step")), ("1e-3", with_(sc, "time_step", 1e-3))], (None,),
        "RDScript: time_step : 1e-3")
    add("rdscript", "t_max", [("omitted", without(sc, "t_max")), ("'default'", with_(sc, "t_max", "default"))], (None,),
        'RDScript: t_max : "default"')
    add("rdscript", "sampling_policy", [("omitted", without(sc, "sampling_policy")),
                                        ("'on_t_sample'", with_(sc, "sampling_policy", "on_t_sample"))], (None,),
        'RDScript: sampling_policy : "on_t_sample"')
    add("rdscript", "sampling_interval", [("omitted", without(sc, "sampling_interval")),
                                          ("1", with_(sc, "sampling_interval", 1))], (None,),
        "RDScript: sampling_interval : 1")
    add("rdscript", "init_state_processing", [("omitted", sc), ("'auto'", with_(sc, "init_state_processing", "auto"))],
        (None,), 'RDScript: init_state_processing : "auto" (only evaluated when rdscript_to_dict writes that key)')

    # partial units-system dictionaries and the "default" string, at every place a "units" entry is read
    locs = [("species", "species", []), ("reaction", "reaction", []), ("rdnetwork", "rdnetwork", []),
            ("rdgridspace", "rdgridspace", []), ("rdgraphspace", "rdgraphspace", []),
            ("rdgraphspacenode", "rdgraphspace", ["nodes", 0]), ("rdgraphspaceedge", "rdgraphspace", ["edges", 0]),
            ("rdsystem", "rdsystem", []), ("rdscript", "rdscript", [])]
    full = _ud(1)
    names = ("space", "time", "quantity")
    for loc, holder, path in locs:
        base = copy.deepcopy(B[holder])
        for mask in range(7):                      # every proper subset of the three keys
            part = {n: full[n] for i, n in enumerate(names) if mask >> i & 1}
            comp = {n: (full[n] if mask >> i & 1 else DEFAULT_UNITS[n]) for i, n in enumerate(names)}
            a, b = copy.deepcopy(base), copy.deepcopy(base)
            _at(a, path)["units"] = part
            _at(b, path)["units"] = comp
            cl.append({"reader": holder, "key": "units-partial", "site": "unitssystem_from_dict",
                       "variants": [("partial %s" % sorted(part), a), ("completed with the defaults", b)],
                       "parent": 2 if holder in HAS_PARENT else None, "loc": loc,
                       "doc": 'Units system: default "µm" / "s" / "molecule" per key'})
        a, b = copy.deepcopy(base), copy.deepcopy(base)
        _at(a, path)["units"] = "default"
        _at(b, path)["units"] = dict(DEFAULT_UNITS)
        cl.append({"reader": holder, "key": "units=default", "variants": [("'default'", a), ("explicit µm, s, molecule", b)],
                   "parent": 2 if holder in HAS_PARENT else None, "loc": loc,
                   "doc": '"default": apply the default units system = µm, s, molecules'})
    return cl


_CLAIMS = None


def _claims():
    global _CLAIMS
    if _CLAIMS is None:
        _CLAIMS = _default_claims()
    return _CLAIMS


def check_default(cx, case, out):
    cl = case          # the case is the claim itself (reader, key, variants, parent, doc)
    reader, key = cl["reader"], cl["key"]
    site = cl.get("site", FROM[reader].__name__)
    vkey = "%s:%s:default:%s" % (PID, site, key if key != "units-partial" else "partial-dict")
    ctx = "[default %s %r%s, parent units %s; doc: %s] " % (
        reader, key, (" at " + cl["loc"]) if "loc" in cl else "", cl["parent"], cl["doc"])
    if key == "init_state_processing":
        # the key name is taken from the writer; without it there is nothing unambiguous to claim
        try:
            probe = rdscript_to_dict(rdscript_from_dict(copy.deepcopy(cl["variants"][0][1])))
        except Exception:  # noqa: BLE001
            probe = {}
        if "init_state_processing" not in probe:
            cx.count("default_init_state_processing_not_evaluated")
            return
    objs = []
    for name, d in cl["variants"]:
        try:
            objs.append((name, _from(cx, reader, copy.deepcopy(d), parent=(U[cl["parent"]] if cl["parent"] is not None else None))))
        except LibFail as lf:
            out.append((vkey, "%svariant %s: %s" % (ctx, name, lf.what())))
            return
    cx.count("default_claims_evaluated")
    if cl.get("computed"):
        for name, o in objs:
            cx.evals += 1
            if cl["computed"] == "state":
                exp = physical.default_state_si(o.network, o.space)
                got = physical.q_array(o.state)
                bad = [i for i in range(max(len(exp), len(got)))
                       if i >= len(exp) or i >= len(got) or not physical.q_equal(exp[i], got[i])]
            else:
                exp = physical.default_chemostats(o.network, o.space)
                got = [int(v) for v in o.chemostats]
                bad = [i for i in range(max(len(exp), len(got))) if i >= len(exp) or i >= len(got) or exp[i] != got[i]]
            if bad:
                i = bad[0]
                out.append((vkey, "%svariant %s: generated %s differs from the documented default at %d entr%s, e.g. [%d]: %r, "
                            "documented %r" % (ctx, name, cl["computed"], len(bad), "y" if len(bad) == 1 else "ies", i,
                                               got[i] if i < len(got) else None, exp[i] if i < len(exp) else None)))
                return
        return
    ref_name, ref = objs[-1]
    for name, o in objs[:-1]:
        tmp = []
        if not _phys(cx, ref, o, tmp, ""):
            out.append((vkey, "%svariant %s differs from %s: %s" % (ctx, name, ref_name, tmp[0][1])))
            return



# =====================================================================================================
# file names: several objects saved next to each other must not interfere
# =====================================================================================================
# (directory, name given to save_*).  Names with and without .json, with one or two dots inside the stem, names
# that only differ after a dot, the same name in different directories, directories with a dot.
NAME_TARGETS = [("d", "run"), ("d", "run.json"), ("d", "run.1"), ("d", "run.1.json"), ("d", "run.10"),
                ("d", "run.1.5"), ("d", "sweep_kf_0.1"), ("d", "sweep_kf_0.25"), ("d", "a.b.c"), ("d", "a.b.d"),
                ("e", "run"), ("e", "run.1"), ("v1.0", "run"), ("v1.0", "run.1"), ("v1.1", "run")]
NAME_SAVERS = ["rdtrajectory", "rdnetwork", "rdspace", "rdsystem", "rdscript"]


_TINY = {}


def _tiny(kind, k):
    """small object number k of a kind (built once per process; saving does not modify it)"""
    if (kind, k) not in _TINY:
        _TINY[(kind, k)] = _tiny_build(kind, k)
    return _TINY[(kind, k)]


def _tiny_build(kind, k):
    """all objects of a kind have the same shape, every quantity differs with k"""
    net = RDNetwork([Species("A", density=3 + k, D=1 + k), Species("B", density=1)],
                    [Reaction("A -> B", kf=2 + k, kr=0.5)])
    if kind == "rdnetwork":
        return net
    space = RDGridSpace(w=2, h=1, d=1, cell_env=0, cell_vol=1 + k)
    if kind == "rdspace":
        return space
    system = RDSystem(net, space)
    if kind == "rdsystem":
        return system
    script = RDScript(system, [0, 1, 2 + k], time_step=0.25, rng_seed=5 + k)
    if kind == "rdscript":
        return script
    return RDTrajectory(UnitArray([100 * (k + 1) + j + 0.5 for j in range(12)], "molecule"),
                        UnitArray([0, 1, 2 + k], "s"), system, script=script,
                        engine_description="engine %d" % k, engine_option="euler")


def _destination(kind, path):
    """the JSON file a save_* call writes, as documented: save_rdtrajectory adds .json when it is absent, the
    other savers write exactly the given path"""
    if kind == "rdtrajectory" and not path.endswith(".json"):
        return path + ".json"
    return path


def check_names(cx, case, tmp, out):
    kind = case["kind"]
    save, load = SAVE[kind], LOAD[kind]
    # one directory tree per scratch directory, emptied (files only) after every case: removing directories is
    # by far the slowest operation on this file system
    root = os.path.join(tmp, "names-root")
    other = os.path.join(tmp, "names-elsewhere")
    dirs = [os.path.join(root, dname) for dname in sorted(set(t[0] for t in NAME_TARGETS))]
    if not os.path.isdir(other):
        os.makedirs(other)
        for dpath in dirs:
            os.makedirs(dpath)
    try:
        _check_names(cx, case, root, other, out)
    finally:
        for dpath in dirs + [other, root]:
            for fn in os.listdir(dpath):
                fp = os.path.join(dpath, fn)
                if os.path.isfile(fp):
                    os.unlink(fp)


def _check_names(cx, case, root, other, out):
    kind = case["kind"]
    save, load = SAVE[kind], LOAD[kind]
    ctx = "[%s names %s separate_data=%s paths=%s] " % (kind, case["targets"], case["sep"], case["modes"])
    last = {}                       # destination -> (index of the last object saved there, relative path, mode)
    order = []
    objs = []
    for i, ((dname, name), sep, mode) in enumerate(zip(case["targets"], case["sep"], case["modes"])):
        obj = _tiny(kind, i)
        objs.append(obj)
        kw = {"separate_data": sep} if kind == "rdtrajectory" else {}
        rel = os.path.join(dname, name)
        if mode == "rel":
            with _cwd(root):
                _call(cx, SAVE_NAME[kind], save, obj, rel, **kw)
        else:
            with _cwd(other):
                _call(cx, SAVE_NAME[kind], save, obj, os.path.join(root, rel), **kw)
        dest = _destination(kind, rel)
        if dest in last:
            cx.count("name_cases_overwriting_a_destination")
        else:
            order.append(dest)
        last[dest] = (i, mode)
    cx.count("files_written", len(case["targets"]))
    for dest in order:
        i, mode = last[dest]
        if mode == "rel":
            with _cwd(root):
                y = _call(cx, load.__name__, load, dest)
        else:
            with _cwd(other):
                y = _call(cx, load.__name__, load, os.path.join(root, dest))
        tmp_out = []
        if not _phys(cx, objs[i], y, tmp_out, ""):
            for k, w in tmp_out:
                parts = k.split(":")          # C12:<kind>:changed:<field>
                out.append(("%s:%s:files-interfere:%s.%s" % (PID, SAVE_NAME[kind], parts[1], parts[3]),
                            "%sobject #%d saved as %r came back different after the other saves: %s"
                            % (ctx, i, case["targets"][i], w)))


# =====================================================================================================
# aliasing: dictionaries and objects on the two sides of a conversion are independent
# =====================================================================================================
# A   d -> x = from_dict(d); every mutable container of d is then changed in place: x must not change
# B1  d2 = to_dict(x); y = from_dict(d2); every container of d2 changed in place: neither x nor y may change
# B2  every mutable value reachable through y's public properties changed in place: neither x nor d2 may change
# B3  the same on x: neither d2 nor y may change
ALIASING_BASES = {"species": "species", "reaction": "reaction", "rdnetwork": "rdnetwork",
                  "rdgridspace": "rdgridspace", "rdgraphspace": "rdgraphspace", "rdsystem": "rdsystem",
                  "rdscript": "rdscript", "rdscript_graph": "rdscript"}      # base dictionary -> reader


def _dict_sites(d, path="", out=None):
    """paths of every dict / list inside a JSON-like value (the value itself included), in order"""
    if out is None:
        out = []
    if isinstance(d, dict):
        out.append(path)
        for k, v in d.items():
            _dict_sites(v, "%s.%s" % (path, k), out)
    elif isinstance(d, list):
        out.append(path)
        for i, v in enumerate(d):
            _dict_sites(v, "%s[%d]" % (path, i), out)
    return out


def _dict_at(d, path):
    for tok in re.findall(r"\.([^.\[]+)|\[(\d+)\]", path):
        d = d[tok[0]] if tok[0] else d[int(tok[1])]
    return d


_MUTABLE_TYPES = ("UnitValue", "UnitArray", "UnitsSystem")


def _obj_sites(o, path="", out=None, seen=None):
    """(path, object) of every mutable value reachable through public properties: dict, list, ndarray,
    UnitValue, UnitArray, UnitsSystem; tuples and strengths objects are traversed"""
    if out is None:
        out, seen = [], set()
    if o is None or isinstance(o, (str, bytes, int, float, bool, np.generic)) or id(o) in seen:
        return out
    seen.add(id(o))
    tname = type(o).__name__
    if isinstance(o, dict):
        out.append((path, o))
        for k in o:
            _obj_sites(o[k], "%s.%s" % (path, k), out, seen)
    elif isinstance(o, (list, tuple)):
        if isinstance(o, list):
            out.append((path, o))
        for i, v in enumerate(o):
            _obj_sites(v, "%s[%d]" % (path, i), out, seen)
    elif isinstance(o, np.ndarray):
        out.append((path, o))
    elif tname in _MUTABLE_TYPES:
        out.append((path, o))
    elif type(o).__module__.startswith("strengths"):
        for name in sorted(dir(type(o))):
            if name.startswith("_") or not isinstance(getattr(type(o), name, None), property):
                continue
            try:
                v = getattr(o, name)
            except Exception:  # noqa: BLE001 - a property that cannot be read offers nothing to mutate
                continue
            _obj_sites(v, "%s.%s" % (path, name), out, seen)
    return out


def _mutate(c):
    """change a mutable value in place so that anything sharing it is seen to change"""
    tname = type(c).__name__
    if isinstance(c, dict):
        c.clear()
        c["mutated-in-place"] = 1
    elif isinstance(c, list):
        del c[:]
    elif isinstance(c, np.ndarray):
        if c.size:
            c += 1
    elif tname == "UnitValue":
        c.value = c.value + 1.0
    elif tname == "UnitArray":
        if len(c.value):
            c.value[...] = c.value + 1.0
    elif tname == "UnitsSystem":
        c.time = "h" if c.time != "h" else "min"
    else:
        raise TypeError(tname)


def _site_kind(reader, path):
    """(innermost object kind, field) of a dictionary / attribute path"""
    kind = _TOP_KIND.get(reader, reader)
    rest = []
    for sgm in re.sub(r"\[\d+\]", "[]", path).lstrip(".").split("."):
        if sgm in _SEG_KIND and not (kind == "rdgraphspaceedge" and sgm == "nodes[]"):
            kind, rest = _SEG_KIND[sgm], []
        elif sgm:
            rest.append(sgm)
    return kind, (rest[0] if rest else "<self>")


def _snapshot(reader, obj):
    """what the object says about itself: JSON text of its dictionary + physical description"""
    try:
        txt = json.dumps(TO[reader](obj), sort_keys=True)
    except Exception as e:  # noqa: BLE001
        txt = "to_dict raised %s: %s" % (type(e).__name__, e)
    try:
        desc = physical.describe(obj)
    except Exception as e:  # noqa: BLE001
        desc = {"__kind__": "unreadable", "error": "%s: %s" % (type(e).__name__, e)}
    return txt, desc


def _snap_changed(a, b):
    if a[0] != b[0]:
        return "to_dict changed"
    ds = physical.diff_descriptions(a[1], b[1])
    return ds[0].text() if ds else None


def _aliasing_setup(cx, base_name):
    reader = ALIASING_BASES[base_name]
    d = copy.deepcopy(_alias_bases()[base_name])
    x = _from(cx, reader, d)
    return reader, d, x


def aliasing_sites(base_name):
    """all (mode, site) of one base, computed on the current tree; [] when the base cannot be converted (the alias
    sub-space reports that)"""
    cx = Cx()
    try:
        reader, d, x = _aliasing_setup(cx, base_name)
        d2 = TO[reader](x)
        y = _from(cx, reader, d2)
    except Exception:  # noqa: BLE001
        return []
    out = [("A", pth) for pth in _dict_sites(d)]
    out += [("B1", pth) for pth in _dict_sites(d2)]
    out += [("B2", pth) for pth, _ in _obj_sites(y)]
    out += [("B3", pth) for pth, _ in _obj_sites(x)]
    return out


def check_aliasing(cx, case, out):
    base_name, mode, site = case["base"], case["mode"], case["site"]
    reader, d, x = _aliasing_setup(cx, base_name)
    ctx = "[aliasing %s %s at %r] " % (base_name, mode, site)
    ikind, field = _site_kind(reader, site)

    def report(cls, who, why):
        # OBSERVATION ONLY: the C12 statement does not speak of independence from later in-place edits (both
        # sides of a shared container always have the same content), so sharing is counted, never judged
        cx.count("aliasing_observed:%s:%s:%s" % (cls, ikind, field))

    if mode == "A":
        before = _snapshot(reader, x)
        _mutate(_dict_at(d, site))
        cx.evals += 1
        why = _snap_changed(before, _snapshot(reader, x))
        if why:
            report("from_dict-shares-input", "the object changed when the dictionary it was built from was edited afterwards", why)
        return
    d2 = _call(cx, TO[reader].__name__, TO[reader], x)
    d2_before = json.dumps(d2, sort_keys=True)
    y = _from(cx, reader, d2)
    x_before, y_before = _snapshot(reader, x), _snapshot(reader, y)
    if mode == "B1":
        try:
            target = _dict_at(d2, site)
        except (KeyError, IndexError, TypeError):
            cx.count("aliasing_site_not_present")
            return
        _mutate(target)
    else:
        sites = dict(_obj_sites(y if mode == "B2" else x))
        if site not in sites:
            cx.count("aliasing_site_not_present")
            return
        _mutate(sites[site])
    cx.evals += 2
    if mode != "B3":
        why = _snap_changed(x_before, _snapshot(reader, x))
        if why:
            if mode == "B1":
                report("to_dict-shares-object", "the object changed when the dictionary returned by to_dict was edited", why)
            else:
                report("roundtrip-copy-shares-original", "x changed when y = from_dict(to_dict(x)) was edited", why)
    if mode != "B2":
        why = _snap_changed(y_before, _snapshot(reader, y))
        if why:
            if mode == "B1":
                report("from_dict-shares-input", "y = from_dict(d2) changed when d2 was edited afterwards", why)
            else:
                report("roundtrip-copy-shares-original", "y = from_dict(to_dict(x)) changed when x was edited", why)
    if mode != "B1":
        try:
            after = json.dumps(d2, sort_keys=True)
        except Exception as e:  # noqa: BLE001
            after = "unserialisable: %s" % e
        if after != d2_before:
            if mode == "B3":
                report("to_dict-shares-object", "the dictionary returned by to_dict(x) changed when x was edited", "dictionary differs")
            else:
                report("from_dict-shares-input", "the dictionary y was built from changed when y was edited", "dictionary differs")

# =====================================================================================================
# one case
# =====================================================================================================

def check_case(case, tmp=None):
    """One case; returns [(key, what)].  Scratch files live in a fresh directory removed afterwards."""
    out, _ = _check(case, tmp)
    return out


def _check(case, tmp=None):
    cx = Cx()
    out = []
    own = None
    old_cwd = os.getcwd()
    try:
        sub = case["sub"]
        if sub == "alias":
            check_alias(cx, case, out)
        elif sub == "default":
            check_default(cx, case, out)
        elif sub == "aliasing":
            try:
                check_aliasing(cx, case, out)
            except LibFail:
                cx.count("aliasing_case_not_evaluated_conversion_raised")   # reported by the round-trip sub-spaces
        elif sub == "names":
            if tmp is None:
                own = tempfile.mkdtemp(dir=TMP_PARENT, prefix="c12-case-")
                tmp = own
            try:
                check_names(cx, case, tmp, out)
            except LibFail as lf:
                out.append((lf.key(), lf.what("[%s names %s] " % (case["kind"], case["targets"])) + "\n" + lf.tail))
        else:
            kind, route = case["kind"], case["route"]
            needs_tmp = route.split(":")[0] in ("abs", "abs-noext", "rel", "multi", "ext")
            if needs_tmp:
                if tmp is None:
                    own = tempfile.mkdtemp(dir=TMP_PARENT, prefix="c12-case-")
                    tmp = own
                work = tempfile.mkdtemp(dir=tmp, prefix="c")
            try:
                obj = BUILD[kind](case["spec"])
            except Exception as e:  # noqa: BLE001 - the catalogue only holds objects the constructors accept
                raise AssertionError("checker: catalogue object could not be built: %s: %s\n%s"
                                     % (type(e).__name__, e, traceback.format_exc()[-1500:]))
            if kind in ("rdscript", "rdtrajectory"):
                # the system held by a script / trajectory is the system it was built from (the reference is built
                # directly from the specification, never through a script): a state held in another unit than the
                # system's, chemostats, spaces ... must not change on the way in
                sys_spec = case["spec"]["system"] if kind == "rdscript" else case["spec"]["script"]["system"]
                given = b_system(sys_spec)
                for nm, held in (("system", obj.system), ("script.system", getattr(getattr(obj, "script", None), "system", None))):
                    if held is None or (kind == "rdscript" and nm != "system"):
                        continue
                    if nm == "script.system" and case["spec"].get("mode") == "simcg":
                        continue        # the script of a coarse-grained run legitimately holds the coarse-grained system
                    tmp_out = []
                    if not _phys(cx, given, held, tmp_out, ""):
                        for k, w in tmp_out:
                            parts = k.split(":")
                            out.append(("%s:%s:system-changed-when-embedded:%s.%s" % (PID, kind, parts[1], parts[3]),
                                        "[%s] the %s held by the %s differs from the RDSystem it was built from: %s"
                                        % (kind, nm, kind, w)))
            try:
                r0 = route.split(":")[0]
                if r0 in ("dict", "json", "poison"):
                    rt_dict(cx, kind, obj, route, out)
                elif r0 in ("abs", "abs-noext", "rel"):
                    rt_file(cx, kind, obj, r0, work, out, separate_data=case.get("separate_data", True))
                elif r0 == "multi":
                    rt_multi(cx, kind, obj, route, work, out)
                elif r0 == "ext":
                    rt_space_external(cx, obj, route, work, out)
                else:
                    raise ValueError(route)
            except LibFail as lf:
                out.append((lf.key(), lf.what("[%s %s] " % (kind, route)) + "\n" + lf.tail))
            except NoLayout:
                cx.count("multi_file_layout_not_derivable_from_to_dict_output")
            finally:
                if needs_tmp:
                    shutil.rmtree(work, ignore_errors=True)
    finally:
        os.chdir(old_cwd)
        if own is not None:
            shutil.rmtree(own, ignore_errors=True)
    # one violation per key per case
    seen, uniq = set(), []
    for k, w in out:
        if k not in seen:
            seen.add(k)
            uniq.append((k, w))
    return uniq, cx


def replay(case):
    return check_case(case)


# =====================================================================================================
# the catalogue
# =====================================================================================================

D_FORMS = [3, "5 cm2/min", {"a": 2, "b": "7 nm2/µs"}, {"a": 2, "default": 11}, 0]
C_FORMS = [13, "17 µM", {"a": 19, "b": "23 mol/m3"}, {"b": "29 nM", "default": 31}, 0]
F_FORMS = [False, True, {"a": True}, {"a": False, "default": True}, {"b": 1, "default": 0}]

# (stoichiometry, forward order, reverse order)
EQS = [("A -> B", 1, 1), ("A + B -> C", 2, 1), ("2 A -> B", 2, 1), ("A + A -> B", 2, 1), (" -> A", 0, 1),
       ("A -> ", 1, 0), ("A + 2 B -> 3 C + A", 3, 4), ([{"A": 1, "B": 2}, {"C": 1}], 3, 1),
       ([{"A": 1, "B": 0}, {"C": 2}], 1, 2)]
KSYS = ("dm", "min", "mmol")


def _kstr(v, order):
    return "%g %s" % (v, si.units_string(KSYS, (3 * order - 3, -1, 1 - order)))


def _kf_forms(order):
    return [2, _kstr(3, order), {"a": 3, "b": _kstr(5, order)}, {"a": 5, "default": 7}]


def _kr_forms(order):
    return [0, 11, {"b": 13, "default": _kstr(17, order)}]


def species_spec(label, di, ci, fi, u):
    return {"label": label, "D": D_FORMS[di], "density": C_FORMS[ci], "chstt": F_FORMS[fi], "u": u}


def reaction_spec(ei, label, kfi, kri, u):
    eq, of, orv = EQS[ei]
    return {"eq": eq, "label": label, "kf": _kf_forms(of)[kfi], "kr": _kr_forms(orv)[kri], "u": u}


# the position of a label in the list is what cell_env / node environment indices refer to: lists that are NOT in
# alphabetical order are part of the catalogue (indices 3, 4), at network and at system level
ENVS = [[""], ["a", "b"], ["a", "b", "c"], ["b", "a"], ["c", "a", "b"]]


def network_spec(variant, envi, nu, mu, env_tuple=False):
    """variant 0..4; member units mu in 0..2 (all members) or 3 (mixed)."""
    def su(k):
        return mu if mu < 3 else k % 3

    def ru(k):
        return mu if mu < 3 else (k + 1) % 3

    if variant in (0, 1):
        species = [species_spec("A", 0, 0, 0, su(0))]
    else:
        species = [species_spec("A", 2, 3, 2, su(0)), species_spec("B", 3, 2, 4, su(1)), species_spec("C", 1, 1, 1, su(2))]
    if variant in (0, 2):
        reactions = []
    elif variant == 1:
        reactions = [reaction_spec(4, None, 0, 0, ru(0)), reaction_spec(2, "dim", 2, 1, ru(1))]
        reactions[1]["eq"] = "2 A -> A"
        reactions[1]["kr"] = 11
    elif variant == 3:
        reactions = [reaction_spec(1, "bind", 0, 1, ru(0))]
    else:
        reactions = [reaction_spec(1, "bind", 2, 2, ru(0)), reaction_spec(2, None, 0, 0, ru(1)),
                     reaction_spec(4, None, 1, 1, ru(2)), reaction_spec(6, None, 3, 0, ru(3)),
                     reaction_spec(5, "deg", 0, 0, ru(4))]
        reactions[4]["eq"] = "C -> "
    return {"species": species, "reactions": reactions, "env": ENVS[envi], "env_tuple": env_tuple, "u": nu}


GRID_SHAPES = [(1, 1, 1), (2, 1, 1), (3, 2, 1), (2, 3, 2)]
BCS = []
for _m in range(8):
    BCS.append(None if _m == 0 else {ax: ("periodical" if _m >> i & 1 else "reflecting") for i, ax in enumerate("xyz")})
VOL_FORMS = [3, "2.5 pL", "1 pL"]          # the last: numerically the reader's default (1) but in other units


def grid_spec(shape, envmode, nenv, voli, bci, u, npy=False):
    w, h, d = GRID_SHAPES[shape]
    n = w * h * d
    ce = 0 if envmode == 0 else [(k * 2 + k // 2) % nenv for k in range(n)]
    return {"kind": "grid", "w": w, "h": h, "d": d, "cell_env": ce, "cell_vol": VOL_FORMS[voli], "bc": BCS[bci],
            "u": u, "np": npy}


GRAPH_SHAPES = [(1, []), (2, [(0, 1)]), (3, [(0, 1), (2, 1)]), (3, [(0, 1), (1, 2), (2, 0)])]
NODE_VOL = [2, "7 fL", 5]
EDGE_SURF = [11, "17 cm2", 13]
EDGE_DIST = [19, 29, "23 nm"]
# value set 1: numbers equal to what the readers apply to an omitted key (1), in the member's own units and in others
NODE_VOL1 = ["1 pL", 1, "1 mm3"]
EDGE_SURF1 = ["1 cm2", 1, "1 nm2"]
EDGE_DIST1 = [1, "1 mm", "1 nm"]


def _own(pattern, gu, k):
    """unit-system index of member k of a graph whose own index is gu"""
    if pattern == 0:
        return gu
    if pattern == 1:
        return (gu + 1) % 3 if k == 0 else gu
    return (gu + 1 + k) % 3


def graph_spec(shape, npat, epat, nenv, u, npy=False, ones=False):
    nn, ed = GRAPH_SHAPES[shape]
    nv, esf, eds = (NODE_VOL1, EDGE_SURF1, EDGE_DIST1) if ones else (NODE_VOL, EDGE_SURF, EDGE_DIST)
    nodes = [{"volume": nv[k], "env": (k + 1) % nenv, "u": _own(npat, u, k)} for k in range(nn)]
    edges = [{"i": i, "j": j, "surface": esf[k], "distance": eds[k], "u": _own(epat, u, k)}
             for k, (i, j) in enumerate(ed)]
    return {"kind": "graph", "nodes": nodes, "edges": edges, "u": u, "np": npy}


def _space_size(sp):
    return sp["w"] * sp["h"] * sp["d"] if sp["kind"] == "grid" else len(sp["nodes"])


PRIMES = [2, 3, 5, 7, 11, 13, 17, 19, 23, 29, 31, 37, 41, 43, 47, 53, 59, 61, 67, 71, 73, 79, 83, 89, 97, 101,
          103, 107, 109, 113, 127, 131, 137, 139, 149, 151]

SYS_NETS = [(1, 0), (4, 4)]                 # (network variant, environment list); the 2nd is ("c", "a", "b")
SYS_SPACES = ["grid2", "grid321", "graph3"]


def system_spec(neti, spacei, statei, chemi, nu, mu, su, yu, npy=False):
    variant, envi = SYS_NETS[neti]
    nenv = len(ENVS[envi])
    net = network_spec(variant, envi, nu, mu)
    if spacei == 0:
        space = grid_spec(1, 0, nenv, 0, 0, su, npy)
    elif spacei == 1:
        space = grid_spec(2, 1, nenv, 1, 1, su, npy)
    else:
        space = graph_spec(2, 2, 2, nenv, su, npy)
    n = len(net["species"]) * _space_size(space)
    if statei == 0:
        state = None
    elif statei == 1:
        state = [PRIMES[k % len(PRIMES)] + 0.25 for k in range(n)]
    else:
        state = {"value": [PRIMES[(k + 3) % len(PRIMES)] * 0.5 for k in range(n)], "units": "mmol"}
    chem = None if chemi == 0 else [1 if (k % 3 == 1 or k == n - 1) else 0 for k in range(n)]
    return {"network": net, "space": space, "state": state, "chemostats": chem, "u": yu, "np": npy}


POLICIES = ["on_t_sample", "on_iteration", "on_interval", "no_sampling"]
ISPS = ["auto", "none", "Poisson", "redist"]


def script_spec(poli, ispi, tmaxi, system, u, seed, pyseed=None, npy=False):
    k = poli * 4 + ispi
    if tmaxi == 0:
        t_max = "default"
    elif tmaxi == 1:
        t_max = 2.5
    else:
        t_max = "3 min"
    if tmaxi != 0 and poli in (1, 3) and ispi % 2 == 1:
        t_sample = []                              # no requested times at all; needs an explicit t_max
    elif k % 2 == 0:
        t_sample = [0, 0.5, 1.25, 2.0]
    else:
        t_sample = {"value": [0, 0.25, 1.5], "units": "ms" if k % 4 == 1 else "min"}
    return {"system": system, "t_sample": t_sample, "time_step": [1e-3, 0.25, "15 ms"][k % 3], "t_max": t_max,
            "policy": POLICIES[poli], "interval": [1, "2 min", "1 min", "1 ms"][k % 4], "seed": seed, "pyseed": pyseed,
            "isp": ISPS[ispi], "u": u, "np": npy}


def _nontrivial(x):
    """a case is non-trivial when some level carries a non-default unit system"""
    if isinstance(x, dict):
        if x.get("u", 0) != 0:
            return True
        return any(_nontrivial(v) for v in x.values())
    if isinstance(x, list):
        return any(_nontrivial(v) for v in x)
    return False


# =====================================================================================================
# sub-spaces
# =====================================================================================================

def _spaces(tier, seed):
    thorough = tier == "thorough"
    sp = []
    R3 = ["dict", "json", "poison"]
    R5 = R3 + ["abs", "rel"]

    def gen_species():
        for di in range(5):
            for ci in range(5):
                for fi in range(5):
                    for u in range(3):
                        for r in R3:
                            yield {"sub": "rt", "kind": "species", "route": r, "spec": species_spec("A", di, ci, fi, u)}
    sp.append(("species: 5 D forms x 5 density forms x 5 chemostat forms x 3 unit systems x {dict, json, dict with a foreign parent system}",
               gen_species, 5 * 5 * 5 * 3 * 3, 200))

    def gen_reactions():
        for ei in range(len(EQS)):
            for label in (None, "r1"):
                for kfi in range(4):
                    for kri in range(3):
                        for u in range(3):
                            for r in R3:
                                yield {"sub": "rt", "kind": "reaction", "route": r, "spec": reaction_spec(ei, label, kfi, kri, u)}
    sp.append(("reactions: 9 stoichiometries (labelled / unlabelled, empty sides, repeated species, dict form) x 4 k+ forms x 3 k- forms x 3 unit systems x 3 routes",
               gen_reactions, len(EQS) * 2 * 4 * 3 * 3 * 3, 200))

    def gen_networks():
        for variant in range(5):
            for envi in range(len(ENVS)):
                for tup in (False, True):
                    for nu in range(3):
                        for mu in range(4):
                            for r in R5:
                                yield {"sub": "rt", "kind": "rdnetwork", "route": r,
                                       "spec": network_spec(variant, envi, nu, mu, tup)}
    sp.append(("networks: 5 contents x 5 environment lists (1-3 labels, sorted and not sorted) x {list, tuple} x 3 network systems x 4 member-system patterns x {dict, json, foreign parent, save/load absolute, relative from another cwd}",
               gen_networks, 5 * len(ENVS) * 2 * 3 * 4 * 5, 60))

    GR = ["dict", "json", "poison", "abs", "rel"]

    def gen_grids():
        for shape in range(4):
            for envmode in (0, 1):
                for voli in range(3):
                    for bci in range(8):
                        for u in range(3):
                            for npy in (False, True):
                                spec = grid_spec(shape, envmode, 3, voli, bci, u, npy)
                                yield {"sub": "rt", "kind": "rdgridspace", "route": "dict", "spec": spec}
                                for r in GR:
                                    yield {"sub": "rt", "kind": "rdspace", "route": r, "spec": spec}
    sp.append(("grids: 4 shapes x 2 environment maps x 3 volume forms (number, other units, numerically 1 in other units) x 8 boundary combinations x 3 unit systems x {python, numpy integers} x {direct dict, rdspace dict, json, foreign parent, save/load absolute, relative}",
               gen_grids, 4 * 2 * 3 * 8 * 3 * 2 * 6, 100))

    def gen_grid_ext():
        for shape in (1, 2, 3):
            for u in range(3):
                for bci in (0, 5):
                    for ext in ("npy", "txt", "txtc"):
                        for how in ("abs", "rel"):
                            yield {"sub": "rt", "kind": "rdspace", "route": "ext:%s:%s" % (ext, how),
                                   "spec": grid_spec(shape, 1, 3, 1, bci, u)}
    sp.append(("grid files with an external cell_env array: 3 shapes x 3 unit systems x 2 boundary sets x {.npy, .txt blanks, .txt commas} x {absolute, relative path}",
               gen_grid_ext, 3 * 3 * 2 * 3 * 2, 30))

    def gen_txt_layouts():
        for k in range(len(TXT_LAYOUTS)):
            for how in ("abs", "rel"):
                for u in (0, 2):
                    for shape in (1, 2, 3):
                        yield {"sub": "rt", "kind": "rdspace", "route": "ext:txtL%d:%s" % (k, how),
                               "spec": grid_spec(shape, 1, 3, 1, 0, u)}
                    for shp, us in (((1, 1, 1, 1), (u, 1, u, 2)), ((1, 0, 2, 0), (1, u, 2, u))):
                        yield {"sub": "rt", "kind": "rdsystem", "route": "multi:txtL%d:%s:keep" % (k, how),
                               "spec": system_spec(*shp, *us)}
    sp.append(("text array files: %d layouts the reader accepts (one line, one value per line with / without commas, rows, blank line between z layers / between species blocks, leading / trailing blank lines, no final newline, CRLF + commas as in tests/test_json_files, tabs) x {cell_env of 3 grid files, cell_env + chemostats of 2 multi-file systems} x 2 unit-system choices x {absolute, relative path}; state / t_sample / data files can only be .npy (unitarray_from_dict)"
               % len(TXT_LAYOUTS), gen_txt_layouts, len(TXT_LAYOUTS) * 2 * 2 * 5, 25))

    def gen_graphs():
        for shape in range(4):
            for npat in range(3):
                for epat in range(3):
                    for u in range(3):
                        for npy, ones in ((False, False), (True, False), (False, True)):
                            spec = graph_spec(shape, npat, epat, 3, u, npy, ones)
                            yield {"sub": "rt", "kind": "rdgraphspace", "route": "dict", "spec": spec}
                            for r in GR:
                                yield {"sub": "rt", "kind": "rdspace", "route": r, "spec": spec}
    sp.append(("graphs: 4 shapes x 3 node-system patterns x 3 edge-system patterns (own systems differ from the graph's) x 3 graph systems x {python ints, numpy ints, volumes / surfaces / distances numerically 1 in own and in other units} x 6 routes",
               gen_graphs, 4 * 3 * 3 * 3 * 3 * 6, 100))

    SR = ["dict", "json", "poison", "abs", "rel"]
    U4 = list(itertools.product(range(3), repeat=4))        # network, members, space, system
    shapes_all = [(a, b, c, d) for a in range(2) for b in range(3) for c in range(3) for d in range(2)]
    shapes_rep = [(1, 1, 1, 1), (1, 2, 2, 1), (0, 0, 0, 0)]
    u_rep = [(0, 0, 0, 0), (1, 2, 1, 2), (2, 1, 0, 1)]

    def gen_systems():
        if thorough:
            for shp in shapes_all:
                for us in U4:
                    for r in SR:
                        yield {"sub": "rt", "kind": "rdsystem", "route": r, "spec": system_spec(*shp, *us)}
        else:
            for shp in shapes_rep:
                for us in U4:
                    for r in SR:
                        yield {"sub": "rt", "kind": "rdsystem", "route": r, "spec": system_spec(*shp, *us)}
            for shp in shapes_all:
                for us in u_rep:
                    for r in SR:
                        yield {"sub": "rt", "kind": "rdsystem", "route": r,
                               "spec": system_spec(*shp, *us, npy=(us == u_rep[1]))}
    if thorough:
        sp.append(("systems: 36 shapes (2 networks x 3 spaces x 3 state forms x 2 chemostat forms) x 3^4 unit systems (network, members, space, system) x 5 routes",
                   gen_systems, 36 * 81 * 5, 40))
    else:
        sp.append(("systems: 3 shapes x all 3^4 unit-system combinations (network, members, space, system) x 5 routes + all 36 shapes (2 networks x 3 spaces x 3 state forms x 2 chemostat forms) x 3 combinations x 5 routes",
                   gen_systems, 3 * 81 * 5 + 36 * 3 * 5, 40))

    MR = ["multi:%s:%s:%s" % (e, h, s) for e in ("npy", "txt") for h in ("abs", "rel") for s in ("keep", "strip")]
    u_multi = U4 if thorough else [(0, 0, 0, 0), (1, 1, 1, 1), (1, 2, 1, 2), (2, 1, 0, 1), (2, 2, 0, 2), (0, 1, 1, 1)]
    shapes_multi = shapes_all if thorough else [(0, 0, 0, 0), (1, 1, 1, 1), (1, 2, 2, 1), (0, 1, 2, 1), (1, 0, 1, 0), (1, 1, 0, 1)]

    def gen_multi_sys():
        for shp in shapes_multi:
            for us in u_multi:
                for r in MR:
                    yield {"sub": "rt", "kind": "rdsystem", "route": r, "spec": system_spec(*shp, *us)}
    sp.append(("multi-file systems (system.json -> net/network.json, sp/space.json -> env file, state.npy, chemostats file): %d shapes x %d unit-system combinations x {.npy, .txt} x {absolute, relative} x {units explicit, inheritable units removed}"
               % (len(shapes_multi), len(u_multi)), gen_multi_sys, len(shapes_multi) * len(u_multi) * 8, 30))

    U5 = list(itertools.product(range(3), repeat=5))        # script, network, members, space, system
    CR = ["dict", "json", "abs", "rel", "multi:npy:abs:keep", "multi:txt:rel:strip"]
    sshapes = [(p, i, t) for p in range(4) for i in range(4) for t in range(3)]
    srep = [(2, 3, 2)] if not thorough else [(0, 1, 0), (2, 3, 2), (1, 2, 1), (3, 0, 2)]
    u5_rep = [(0, 0, 0, 0, 0), (1, 2, 1, 2, 0), (2, 1, 0, 1, 2)]
    sys_for = [(1, 1, 1, 1), (0, 0, 0, 0), (1, 2, 2, 1)]

    def gen_scripts():
        n = 0
        for shp in srep:
            for us in U5:
                for r in CR:
                    n += 1
                    yield {"sub": "rt", "kind": "rdscript", "route": r,
                           "spec": script_spec(*shp, system_spec(*sys_for[0], *us[1:]), us[0], 1000 * seed + 101)}
        for k, shp in enumerate(sshapes):
            for j, us in enumerate(u5_rep):
                for r in CR:
                    # one third of the scripts draw their seed themselves (rng_seed=None, reproducible `random`)
                    given = (k + j) % 3 != 0
                    yield {"sub": "rt", "kind": "rdscript", "route": r,
                           "spec": script_spec(*shp, system_spec(*sys_for[k % 3], *us[1:]), us[0],
                                               # the boundary seeds 0, 2^31-1, 2^32-1 are part of every window
                                               ([0, 2 ** 31 - 1, 2 ** 32 - 1][(k // 2) % 3] if k % 2 == 0 else (1000 * seed + 7 + k)) if given else None,
                                               pyseed=1000 * seed + k, npy=(j == 1))}
    sp.append(("scripts: %d shapes x all 3^5 unit-system combinations (script, network, members, space, system) x 6 routes + all 48 shapes (4 policies x 4 processing modes x 3 t_max forms; given and self-drawn seeds) x 3 combinations x 6 routes {dict, json, save/load absolute, relative, 2 multi-file layouts}"
               % len(srep), gen_scripts, len(srep) * 243 * 6 + 48 * 3 * 6, 30))

    # trajectories -------------------------------------------------------------------------------------
    def traj_specs():
        u9 = [(a, b) for a in range(3) for b in range(3)]          # script system, system system
        for (cu, yu) in u9:
            def scr(poli=0, ispi=1, tmaxi=1, sysshape=(1, 1, 1, 0)):
                # grid 3x2x1, reflecting for the coarse-grained runs
                system = system_spec(*sysshape, (cu + 1) % 3, 3, (yu + 1) % 3, yu)
                return script_spec(poli, ispi, tmaxi, system, cu, 1000 * seed + 31)
            hand = {"mode": "hand", "t": {"value": [0, 0.5, 1.5], "units": "min"}, "data_units": "mmol",
                    "engine_description": None, "engine_option": None, "cgmap": None, "with_script": True}
            for with_script in (True, False):
                for cg in (None, "list", "tuple"):
                    s = dict(hand)
                    s["script"] = scr(2, 3, 2, (1, 2, 2, 1))
                    s["with_script"] = with_script
                    if cg is not None:
                        s["cgmap"] = [0, 0, -1]
                        s["cgmap_tuple"] = cg == "tuple"
                        s["engine_description"], s["engine_option"] = "some engine", "opt"
                    yield s
            for mode in ("sim", "simcg"):
                for with_script in (True, False):
                    # 3 species, one reversible reaction, grid 3x2x1 (reflecting: coarse-graining needs it)
                    net = network_spec(3, 1, (cu + 1) % 3, 3)
                    space = grid_spec(2, 1, 2, 1, 0, (yu + 1) % 3)
                    space["cell_env"] = [0, 0, 1, 1, 1, 0]
                    system = {"network": net, "space": space, "chemostats": None, "u": yu,
                              "state": [PRIMES[k] + 0.25 for k in range(18)]}
                    script = script_spec(0, 1, 0, system, cu, 1000 * seed + 31)
                    script["t_sample"] = [0, 0.001953125, 0.00390625]
                    script["time_step"] = 0.0009765625
                    yield {"mode": mode, "with_script": with_script, "script": script,
                           "cgmap": [0, 0, 1, 1, 1, 2] if mode == "simcg" else None}

    def gen_traj():
        for s in traj_specs():
            for sep in (True, False):
                for r in ("abs", "abs-noext", "rel"):
                    yield {"sub": "rt", "kind": "rdtrajectory", "route": r, "separate_data": sep, "spec": s}
    sp.append(("trajectories: 9 unit-system pairs (script, system) x (6 hand-built: with / without script x cgmap none / list / tuple + 4 simulated by the euler engine: plain / coarse-grained x with / without script) x both separate_data modes x {absolute path, path without .json, relative path from another cwd}",
               gen_traj, 9 * 10 * 2 * 3, 12))

    def gen_traj_multi():
        for s in traj_specs():
            if s["mode"] == "simcg" or s.get("cgmap_tuple") or not s["with_script"]:
                continue
            for how in ("abs", "rel"):
                for text in (False, True):
                    yield {"sub": "rt", "kind": "rdtrajectory", "spec": s,
                           "route": "multi:npy:%s:keep%s" % (how, ":text" if text else "")}
    sp.append(("multi-file trajectories (nested script -> system.json, system -> network / space / state / chemostats files, data.npy; sample times inline or external): 9 unit-system pairs x 3 trajectories x {absolute, relative} x {inline, external t_sample}",
               gen_traj_multi, 9 * 3 * 2 * 2, 12))

    # chemostat map / state independent of what the species would regenerate ----------------------------
    FLAGS = [False, True, {"a": True}, {"a": False, "default": True}]
    CH_MODES = [None, "zero", "reset", "one", "complement", "flip"]
    ST_MODES = [None, "shifted", "zero"]
    SM_SYS = ["dict", "json", "abs", "rel", "multi:npy:abs:keep", "multi:txtL4:rel:keep"]
    SM_SCR = ["dict", "json", "abs"]

    def sysmap_spec(fi, ci, sti, spi, us):
        nu, mu, su, yu = us
        net = network_spec(3, 3, nu, mu)            # environments ("b", "a")
        net["species"][0]["chstt"] = FLAGS[fi]
        net["species"][1]["chstt"] = False
        net["species"][2]["chstt"] = {"b": True}
        space = grid_spec(2, 1, 2, 1, 1, su) if spi == 0 else graph_spec(2, 2, 2, 2, su)
        return {"network": net, "space": space, "u": yu,
                "state": None if ST_MODES[sti] is None else {"mode": ST_MODES[sti]},
                "chemostats": None if CH_MODES[ci] is None else {"mode": CH_MODES[ci]}}

    def gen_sysmaps():
        for fi in range(len(FLAGS)):
            for ci in range(len(CH_MODES)):
                for sti in range(len(ST_MODES)):
                    for spi in (0, 1):
                        us = [(0, 0, 0, 0), (1, 2, 1, 2)][(fi + ci + sti + spi) % 2]
                        system = sysmap_spec(fi, ci, sti, spi, us)
                        for r in SM_SYS:
                            yield {"sub": "rt", "kind": "rdsystem", "route": r, "spec": system}
                        script = script_spec(0, 1, 1, system, us[1], 1000 * seed + 13)
                        for r in SM_SCR:
                            yield {"sub": "rt", "kind": "rdscript", "route": r, "spec": script}
                        yield {"sub": "rt", "kind": "rdtrajectory", "route": "abs", "separate_data": True,
                               "spec": {"mode": "hand", "t": {"value": [0, 0.5, 1.5], "units": "min"}, "data_units": "mmol",
                                        "engine_description": None, "engine_option": None, "cgmap": None,
                                        "with_script": True, "script": script}}
    sp.append(("system map and state vs species flags: chstt of a species in {false, true, per-environment dict without / with 'default'} x chemostat map in {generated default, all zero, reset_chemostats(), all one, complement of the default, one entry flipped} x state in {generated default, explicit values different from density x volume, all zero} x {grid, graph} x {system: dict, json, save/load absolute, relative, 2 multi-file layouts; inside a script: dict, json, file; inside a trajectory file}",
               gen_sysmaps, 4 * 6 * 3 * 2 * 10, 30))

    # aliasing -----------------------------------------------------------------------------------------
    alias_cases = [{"sub": "aliasing", "base": b, "mode": m, "site": pth}
                   for b in ALIASING_BASES for (m, pth) in aliasing_sites(b)]

    def gen_aliasing():
        for c in alias_cases:
            yield dict(c)
    sp.append(("aliasing, OBSERVED, NOT JUDGED (the statement does not speak of independence from later in-place edits; sharing is counted in aliasing_observed:*, never a violation): %d base dictionaries (species ... script with a grid / with a graph; per-environment D / density / chstt / k dictionaries, state / cell_env / t_sample / chemostats lists, units and boundary-condition dictionaries) x every mutable container of the input dictionary (A), of the dictionary returned by to_dict (B1), every mutable value reachable through the public properties of the re-read object (B2) and of the original (B3), each changed in place one at a time; which other party changes with it is recorded"
               % len(ALIASING_BASES), gen_aliasing, len(alias_cases), 25))

    # file names ---------------------------------------------------------------------------------------
    T = [list(t) for t in NAME_TARGETS]
    pairs = [(a, b) for a in T for b in T if a != b]
    same_dir = T[:6]
    triples = [(a, b, c) for a in same_dir for b in same_dir for c in same_dir if a != b and b != c and a != c]
    pmodes = [("abs", "abs"), ("rel", "rel"), ("abs", "rel")]
    omodes = pmodes if thorough else [("rel", "rel")]

    def gen_names():
        for (a, b) in pairs:
            for s1 in (True, False):
                for s2 in (True, False):
                    for m in pmodes:
                        yield {"sub": "names", "kind": "rdtrajectory", "targets": [a, b], "sep": [s1, s2], "modes": list(m)}
        for tr in triples:
            for sdat in (True, False):
                yield {"sub": "names", "kind": "rdtrajectory", "targets": list(tr), "sep": [sdat] * 3, "modes": ["abs"] * 3}
        for kind in NAME_SAVERS[1:]:
            for (a, b) in pairs:
                for m in omodes:
                    yield {"sub": "names", "kind": kind, "targets": [a, b], "sep": [True, True], "modes": list(m)}
    sp.append(("file names: 2 different trajectories saved one after the other under every ordered pair of %d (directory, name) targets (with / without .json, dots inside the stem, names differing only after a dot, same name in other directories, dotted directories) x separate_data of each x {absolute, relative, mixed paths}, every ordered triple of 6 same-directory names x separate_data, and every ordered pair for save_rdnetwork / rdspace / rdsystem / rdscript x %d path modes; every destination is loaded back and compared with the last object saved there"
               % (len(T), len(omodes)), gen_names,
               len(pairs) * 4 * 3 + len(triples) * 2 + 4 * len(pairs) * len(omodes), 60))

    # aliases ------------------------------------------------------------------------------------------
    def gen_alias():
        for reader in ALIASES:
            for key, als, documented in ALIASES[reader]:
                for al in als:
                    for site in range(len(ALIAS_SITES[reader])):
                        yield {"sub": "alias", "reader": reader, "key": key, "alias": al, "documented": documented,
                               "site": site}
    n_alias = sum(len(als) * len(ALIAS_SITES[r]) for r in ALIASES for _, als, _ in ALIASES[r])
    sp.append(("aliases: every alias of every key of every reader substituted one at a time, at top level and nested inside a script",
               gen_alias, n_alias, 20))

    def gen_default():
        for cl in _claims():
            case = {"sub": "default"}
            case.update(copy.deepcopy(cl))
            case["variants"] = [[n, d] for n, d in case["variants"]]
            yield case
    sp.append(("defaults: every documented optional key omitted one at a time vs the default written explicitly; every proper subset of a units-system dictionary and the 'default' string at the 9 places a units entry is read",
               gen_default, len(_claims()), 20))
    return sp


_SPACES = None
_TMP = None


def _work(job):
    si_, lo, hi = job
    name, gen, size, chunk = _SPACES[si_]
    acc = core.Acc()
    tmp = tempfile.mkdtemp(dir=_TMP or TMP_PARENT, prefix="w%d-" % os.getpid())
    nt = 0
    try:
        for case in itertools.islice(gen(), lo, hi):
            try:
                res, cx = _check(case, tmp)
            except Exception as e:  # noqa: BLE001 - a defect of the checker itself, attributed to the case
                res, cx = [("%s:checker:case-exception" % PID, "%s: %s\n%s" % (type(e).__name__, e, traceback.format_exc()[-1500:]))], Cx()
            acc.add(states=1, transitions=cx.ops, traces=1, evaluations=cx.evals)
            for k, v in cx.counts.items():
                acc.count(k, v)
            if case["sub"] != "rt" or _nontrivial(case.get("spec")) or case["route"].split(":")[0] in ("multi", "ext"):
                nt += 1
            if case["sub"] == "rt":
                acc.count("roundtrip_cases")
                if not res:
                    acc.count("roundtrip_cases_clean")
                if case["kind"] in ("rdspace", "rdgraphspace") and case["spec"]["kind"] == "graph" and any(
                        e["u"] != case["spec"]["u"] for e in case["spec"]["edges"]):
                    acc.count("graph_cases_with_an_edge_in_its_own_units")
                if case["kind"] == "rdtrajectory" and not case["spec"]["with_script"]:
                    acc.count("trajectory_cases_without_script")
            for key, what in res:
                acc.violation(key, what, case)
            if lo == 0 and acc.states == 1:
                acc.sample(case)
    finally:
        shutil.rmtree(tmp, ignore_errors=True)
    acc.add(nontrivial=nt)
    return acc.pack()


def run(ctx):
    global _SPACES, _TMP
    from mc import eng
    eng.so_path("plain")                       # build once in the parent; workers inherit the path
    _SPACES = _spaces(ctx.tier, ctx.seed)
    _claims()
    _TMP = tempfile.mkdtemp(dir=TMP_PARENT, prefix="c12-")
    try:
        jobs = []
        for i, (name, gen, size, chunk) in enumerate(_SPACES):
            n = sum(1 for _ in gen())
            if n != size:
                raise AssertionError("checker: sub-space %r declares %d cases but generates %d" % (name[:40], size, n))
            for lo, hi in pool.chunks(size, chunk):
                jobs.append((i, lo, hi))
        # heavy sub-spaces first does not matter for determinism: results come back in job order
        res = pool.pmap(_work, jobs, timeout=600)
    finally:
        shutil.rmtree(_TMP, ignore_errors=True)
        _TMP = None
    per = {}
    for job, r in zip(jobs, res):
        if isinstance(r, pool.Crash):
            ctx.violation("C12:checker:worker-%s" % r.kind, r.detail, {"job": list(job), "subspace": _SPACES[job[0]][0]})
            continue
        core.merge(ctx, r)
        per[job[0]] = per.get(job[0], 0) + r["n"][0]
    for i, (name, gen, size, chunk) in enumerate(_SPACES):
        ctx.subspace(name, size, per.get(i, 0), exhaustive=(per.get(i, 0) == size))
    ctx.note("aliasing_observed_not_judged", {k[len("aliasing_observed:"):]: v for k, v in sorted(ctx.counters.items())
                                              if k.startswith("aliasing_observed:")})
    ctx.note("unit_systems", [list(u) for u in U])
    ctx.note("defaults_claimed", sorted(set("%s:%s" % (c["reader"], c["key"]) for c in _claims())))
    ctx.rule("every case of each listed sub-space is enumerated in fixed order on the real to_dict / from_dict / "
             "save / load functions; a round-trip case is non-trivial when at least one level of the object carries "
             "a non-default unit system or the route is a multi-file layout; alias and default cases are non-trivial "
             "by construction (base dictionaries use non-default, pairwise different unit systems at every level and "
             "a foreign parent system); file-name cases save 2 or 3 different objects next to each other and are "
             "non-trivial by construction; cases are distinct tuples of the product")
    ctx.assume("exact SI scales of mc/ref/si.py; physical equality as specified in DESIGN appendix A.7 "
               "(mc/ref/physical.py); Python's float <-> text round trip is exact; numpy .npy files and the json "
               "module are trusted")
