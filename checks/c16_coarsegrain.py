"""C16 -- coarse-graining conserves matter and geometry; un-coarse-graining inverts it.

E1 bounded-exhaustive enumeration: for small 1-D / 2-D / 3-D grids EVERY index map of {-1..m}^n is
classified by the reference validity predicate (mc/ref/cg.py, written from the documented rules) and fed to
the real `coarsegrain_system`:

  valid   => accepted, and node volumes, per-species group totals, group environments, any-member chemostat
             flags, the edge set (exactly the pairs of groups sharing >= 1 face; no self loops, no duplicates),
             contact surfaces (= shared faces x face area) and centroid distances agree with the brute-force
             reference, all compared in SI;
  invalid => an exception.

`uncoarsegrain_trajectory` is checked on hand-built coarse trajectories with pairwise distinct values and on
simulated ones (Euler, through `simulate_script(..., cgmap=map)`): shape nsamples x nspecies x ncells, group
totals preserved, equal shares among the members, dropped cells exactly zero, for every sample.  The identity
map must reproduce the plain Euler simulation within 1e-9.
"""
import importlib
import math

from mc import core, pool, uq
from mc.ref import si, cg

core.setup_paths()
from strengths.units import UnitValue, UnitArray, UnitsSystem  # noqa: E402
from strengths.rdnetwork import RDNetwork, Species, Reaction  # noqa: E402
from strengths.rdspace import RDGridSpace, RDGraphSpace, RDGraphSpaceNode, RDGraphSpaceEdge  # noqa: E402
from strengths.rdsystem import RDSystem  # noqa: E402
from strengths.rdscript import RDScript  # noqa: E402
from strengths.rdoutput import RDTrajectory  # noqa: E402
from strengths.coarsegrain import coarsegrain_system, uncoarsegrain_trajectory  # noqa: E402

_simmod = importlib.import_module("strengths.simulate")      # `strengths.simulate` (attribute) is a function
simulate_script = _simmod.simulate_script

TOL = 1e-9
SITE = "coarsegrain_system"


def _primes(k):
    out, c = [], 2
    while len(out) < k:
        if all(c % p for p in out if p * p <= c):
            out.append(c)
        c += 1
    return out


PRIMES = _primes(1300)

# ---- alphabets ------------------------------------------------------------------------------------------

# environment maps (indices into the network's environments ["a","b","c"]); never the constructor default 0
# for the uniform map, so that "environment left at its default" is visible.
E2 = [2, 0, 0, 2, 2, 0, 2, 0, 0]
E3 = [0, 2, 1, 1, 0, 2, 2, 1, 0]


def env_map(name, n):
    if name == "uniform":
        return [1] * n
    if name == "two":
        return E2[:n]
    if name == "three":
        return E3[:n]
    raise ValueError(name)


def chem_rich(nspecies, n):
    """Species-major chemostat map whose rows differ: species 0 flagged where cell % 3 == 0, species 1 where
    cell % 4 == 1 (so groups with flagged and unflagged members exist and the species rows differ)."""
    out = []
    for s in range(nspecies):
        for i in range(n):
            out.append(1 if (i % 3 == 0 if s == 0 else (i % 4 == 1 if s == 1 else i % 5 == 2)) else 0)
    return out


# unit-system configurations: the same physical grid (cells of 8 µm3: edge 2 µm, face 4 µm2 -- all distinct)
# declared through different unit systems of the space / the network / the system.
UNITS = [
    {"name": "default", "space": ("µm", "s", "molecule"), "net": ("µm", "s", "molecule"),
     "sys": ("µm", "s", "molecule"), "vol": 8, "vol_units": ("µm", "s", "molecule"), "state_units": None},
    {"name": "space nm/ms/mol, network mm/min/pmol, system cm/h/fmol (plain numbers)",
     "space": ("nm", "ms", "mol"), "net": ("mm", "min", "pmol"), "sys": ("cm", "h", "fmol"),
     "vol": 8e9, "vol_units": ("nm", "ms", "mol"), "state_units": None},
    {"name": "space dm/h/mmol with cell_vol '8 µm3', network km/h/kmol, system pm/fs/fmol with state in molecule",
     "space": ("dm", "h", "mmol"), "net": ("km", "h", "kmol"), "sys": ("pm", "fs", "fmol"),
     "vol": "8 µm3", "vol_units": ("µm", "s", "molecule"), "state_units": "molecule"},
]


def _us(t):
    return UnitsSystem(space=t[0], time=t[1], quantity=t[2])


# network alphabet: reaction orders 0, 1, 2, 3 in both directions (rate constants carry explicit units, so the same
# physical network is declared whatever the network's units system is; kf of the zero-/first-order ones per environment)
_K0 = {"a": "0.7 molecule.µm-3.s-1", "b": "1.3 molecule.µm-3.s-1", "c": "0.2 molecule.µm-3.s-1"}
_K1 = {"a": "0.7 s-1", "b": "1.3 s-1", "c": "0 s-1"}
NETS = [
    {"name": "A -> B (orders 1/1)", "species": 2, "eq": "A -> B", "kf": _K1, "kr": "0.4 s-1"},
    {"name": " -> A (orders 0/1)", "species": 2, "eq": " -> A", "kf": _K0, "kr": "0.4 s-1"},
    {"name": "A ->  (orders 1/0)", "species": 2, "eq": "A -> ", "kf": _K1, "kr": "0.9 molecule.µm-3.s-1"},
    {"name": "2 A -> B (orders 2/1)", "species": 2, "eq": "2 A -> B", "kf": "0.05 µm3.molecule-1.s-1", "kr": "0.4 s-1"},
    {"name": "A + B -> C (orders 2/1)", "species": 3, "eq": "A + B -> C", "kf": "0.05 µm3.molecule-1.s-1", "kr": "0.3 s-1"},
    {"name": "2 A + B -> C (orders 3/1)", "species": 3, "eq": "2 A + B -> C", "kf": "0.004 µm6.molecule-2.s-1",
     "kr": "0.3 s-1"},
]
NET_VOLS = [1, 8, "0.3 µm3"]


def net_var(u, vol_index):
    """Cell-volume override of the network families: 1, 8 (plain numbers in the default space unit) or '0.3 µm3';
    always an explicit string for the non-default units configuration 2 (space unit dm)."""
    v = NET_VOLS[vol_index]
    if u != 0 and not isinstance(v, str):
        v = "%d µm3" % v
    return {"vol": v, "vol_units": ("µm", "s", "molecule"), "shift": 0}


# state alphabet: 0 = distinct primes (integers); 1 = dyadic fractions mixed with integer cells (0.25, 0.5, 1.75, 7.75,
# 7, 1.375, 1.625, 17, ...); 2 = every cell below 1 (odd/128); 3 = default state generated from fractional densities
# (state=None; 0.3 / 1.25 / 0.7 molecule/µm3 per environment for A, 0.55 for B, 0.15 for C).  All pairwise distinct.
DENS = [{"a": 0.3, "b": 1.25, "c": 0.7}, {"a": 0.55, "b": 0.55, "c": 0.55}, {"a": 0.15, "b": 0.15, "c": 0.15}]
STATE_KINDS = ("primes", "dyadic fractions mixed with integers", "all cells below 1", "default state from fractional densities")


def state_values(kind, k, shift=0):
    """k state numbers (in the system's quantity unit) of the state alphabet."""
    if kind == 0:
        return [float(x) for x in PRIMES[shift:shift + k]]
    if kind == 1:
        head = [0.25, 0.5, 1.75, 7.75]
        tail = [PRIMES[j + 3] / 8.0 if j % 3 else float(PRIMES[j + 3]) for j in range(k + shift)]
        return (head + tail)[shift:shift + k]
    if kind == 2:
        return [(2 * (j + shift) + 1) / 128.0 for j in range(k)]
    raise ValueError(kind)


def build_system(grid, env, chem, nspecies, u, var=None, net=0, state_kind=0):
    """The fine system of a case and its reference description (SI).  var (history family) may override the
    cell volume ("vol", "vol_units") and shift the window of primes used as state ("shift")."""
    w, h, d = grid
    n = w * h * d
    cfg = UNITS[u]
    shift = 0
    if var is not None:
        cfg = dict(cfg, vol=var["vol"], vol_units=tuple(var["vol_units"]))
        shift = int(var.get("shift", 0))
    def dens(j):
        return {e: "%r molecule.µm-3" % v for e, v in DENS[j].items()}
    species = [Species("A", D={"a": "2 µm2/s", "b": "3 µm2/s", "c": "0.5 µm2/s"}, density=dens(0),
                       units_system=_us(cfg["net"]))]
    reactions = []
    if nspecies >= 2:
        species.append(Species("B", D="5 µm2/s", density=dens(1), units_system=_us(cfg["net"])))
    if nspecies >= 3:
        species.append(Species("C", D="1.5 µm2/s", density=dens(2), units_system=_us(cfg["net"])))
    if nspecies >= 2:
        nd = NETS[net]
        if nd["species"] > nspecies:
            raise ValueError("network %d needs %d species" % (net, nd["species"]))
        reactions.append(Reaction(nd["eq"], kf=nd["kf"], kr=nd["kr"], units_system=_us(cfg["net"])))
    network = RDNetwork(species=species, reactions=reactions, environments=["a", "b", "c"],
                        units_system=_us(cfg["net"]))
    space = RDGridSpace(w=w, h=h, d=d, cell_env=list(env), cell_vol=cfg["vol"], units_system=_us(cfg["space"]))
    vnum = float(str(cfg["vol"]).split()[0])
    v_si = vnum * float(si.si_scale(cfg["vol_units"], (3, 0, 0)))
    if state_kind == 3:
        # the documented default state: density of the cell's environment x cell volume
        state = None
        v_um3 = v_si / 1e-18
        vals = [DENS[s_][("a", "b", "c")[env[i]]] * v_um3 for s_ in range(nspecies) for i in range(n)]
        q_si = 1.0                     # molecules
    else:
        vals = state_values(state_kind, nspecies * n, shift)
        state = list(vals) if cfg["state_units"] is None else UnitArray(list(vals), cfg["state_units"])
        qsys = cfg["sys"] if cfg["state_units"] is None else ("m", "s", cfg["state_units"])
        q_si = float(si.si_scale(qsys, (0, 0, 1)))
    system = RDSystem(network, space, state=state, chemostats=list(chem), units_system=_us(cfg["sys"]))
    ref = {"v_si": v_si,
           "state_si": [[vals[s * n + i] * q_si for i in range(n)] for s in range(nspecies)],
           "chem": [[int(chem[s * n + i]) for i in range(n)] for s in range(nspecies)]}
    return system, ref


def _fingerprint(system):
    sp = system.space
    return (tuple(float(x) for x in system.state.value), str(system.state.units),
            tuple(int(x) for x in system.chemostats), tuple(int(x) for x in sp.cell_env),
            float(sp.cell_vol.value), str(sp.cell_vol.units), sp.w, sp.h, sp.d)


def _get_system(case, cache):
    net = int(case.get("net", 0))
    var = net_var(case["units"], case["vol"]) if case.get("vol") is not None else None
    sk = int(case.get("state", 0))
    key = (tuple(case["grid"]), tuple(case["env"]), tuple(case["chem"]), case["nspecies"], case["units"], net,
           case.get("vol"), sk)
    args = (case["grid"], case["env"], case["chem"], case["nspecies"], case["units"], var, net, sk)
    if cache is None:
        return build_system(*args), None, key
    if key not in cache:
        if len(cache) > 64:
            cache.clear()
        s, r = build_system(*args)
        cache[key] = (s, r, _fingerprint(s))
    s, r, fp = cache[key]
    return (s, r), fp, key


# ---- SI readers -------------------------------------------------------------------------------------------

class _Bad(Exception):
    def __init__(self, key, what):
        Exception.__init__(self, what)
        self.key = key
        self.what = what


def _si_scale_of(units, expect, site, which):
    dim = (units.dim.space, units.dim.time, units.dim.quantity)
    di = []
    for x in dim:
        r = int(round(float(x)))
        if abs(float(x) - r) > 1e-9:
            raise _Bad("C16:%s:dimension:%s" % (site, which), "%s has the non-integral dimension %s" % (which, dim))
        di.append(r)
    if tuple(di) != tuple(expect):
        raise _Bad("C16:%s:dimension:%s" % (site, which),
                   "%s has dimension %s, expected %s" % (which, tuple(di), tuple(expect)))
    return float(si.si_scale(uq.sys_of(units), tuple(di)))


def _si_value(q, expect, site, which):
    return float(q.value) * _si_scale_of(q.units, expect, site, which)


def _si_array(q, expect, site, which):
    sc = _si_scale_of(q.units, expect, site, which)
    return [float(x) * sc for x in q.value]


def _close(got, ref, scale):
    return abs(got - ref) <= TOL * scale


def _drop_detail(m, env):
    if -1 not in m:
        return "no-dropped-cells"
    if len(cg.dropped_environments(m, env)) >= 2:
        return "dropped-cells-of-different-environments"
    return "dropped-cells-of-one-environment"


# ---- the static part: coarsegrain_system ----------------------------------------------------------------

def _compare_static(cgs, R, ref, case, out, info):
    """cgs: library result, R: cg.coarse(...) in SI."""
    G = R["n_groups"]
    S = case["nspecies"]
    w, h, d = case["grid"]
    ev = 0
    space = cgs.space
    if space.size() != G:
        out.append(("C16:%s:node-count" % SITE, "%d nodes, expected %d groups" % (space.size(), G)))
        return ev
    # volumes
    vols = [_si_value(nd.volume, (3, 0, 0), SITE, "node-volume") for nd in space.nodes]
    for g in range(G):
        ev += 1
        if not _close(vols[g], R["volume"][g], R["volume"][g]):
            out.append(("C16:%s:node-volume" % SITE, "group %d (%d cells): volume %.12g m3, expected %.12g m3"
                        % (g, len(R["members"][g]), vols[g], R["volume"][g])))
            break
    ev += 1
    tv = math.fsum(R["volume"])
    if not _close(math.fsum(vols), tv, tv):
        out.append(("C16:%s:total-volume" % SITE, "total volume %.12g m3, retained cells have %.12g m3"
                    % (math.fsum(vols), tv)))
    # environments
    envs = [int(e) for e in space.get_cell_env_array()]
    for g in range(G):
        ev += 1
        if envs[g] != R["env"][g]:
            out.append(("C16:%s:node-environment" % SITE, "group %d has environment %d, its members have %d"
                        % (g, envs[g], R["env"][g])))
            break
    # state
    st = _si_array(cgs.state, (0, 0, 1), SITE, "state")
    if len(st) != S * G:
        out.append(("C16:%s:state-length" % SITE, "state has %d entries, expected %d x %d" % (len(st), S, G)))
    else:
        bad = False
        for s in range(S):
            for g in range(G):
                ev += 1
                if not bad and not _close(st[s * G + g], R["total"][s][g], R["total"][s][g]):
                    out.append(("C16:%s:group-state" % SITE,
                                "species %d group %d: %.12g, members total %.12g (SI)"
                                % (s, g, st[s * G + g], R["total"][s][g])))
                    bad = True
            ev += 1
            tot = math.fsum(R["total"][s])
            if not _close(math.fsum(st[s * G:(s + 1) * G]), tot, tot):
                out.append(("C16:%s:species-total" % SITE, "species %d: total %.12g, retained cells hold %.12g (SI)"
                            % (s, math.fsum(st[s * G:(s + 1) * G]), tot)))
    # chemostats
    ch = [int(x) for x in cgs.chemostats]
    if len(ch) != S * G:
        out.append(("C16:%s:chemostat-length" % SITE, "chemostat map has %d entries, expected %d x %d"
                    % (len(ch), S, G)))
    else:
        for s in range(S):
            for g in range(G):
                ev += 1
                if bool(ch[s * G + g]) != bool(R["flag"][s][g]):
                    out.append(("C16:%s:chemostat" % SITE,
                                "species %d group %d: flag %d, members' flags %s"
                                % (s, g, ch[s * G + g], [ref["chem"][s][i] for i in R["members"][g]])))
                    break
            else:
                continue
            break
    # edges
    seen = {}
    structural = False
    for e in space.edges:
        i, j = int(e.i), int(e.j)
        ev += 1
        if not (0 <= i < G and 0 <= j < G):
            out.append(("C16:%s:edge-index-out-of-range" % SITE, "edge (%d,%d) in a graph of %d nodes" % (i, j, G)))
            structural = True
            continue
        if i == j:
            out.append(("C16:%s:edge-self-loop" % SITE, "edge (%d,%d)" % (i, j)))
            structural = True
            continue
        k = (min(i, j), max(i, j))
        if k in seen:
            out.append(("C16:%s:edge-duplicate" % SITE, "edge %s occurs more than once" % (k,)))
            structural = True
            continue
        seen[k] = e
    for k in seen:
        if k not in R["edges"]:
            out.append(("C16:%s:edge-spurious" % SITE, "edge %s although the groups share no face" % (k,)))
            structural = True
            break
    for k in R["edges"]:
        if k not in seen:
            out.append(("C16:%s:edge-missing" % SITE, "no edge %s although the groups share %d face(s)"
                        % (k, R["edges"][k]["faces"])))
            structural = True
            break
    if not structural:
        dscale = R["cell_edge"] * (w + h + d)
        sb = db = False
        for k in sorted(seen):
            e = seen[k]
            r = R["edges"][k]
            ev += 2
            sf = _si_value(e.surface, (2, 0, 0), SITE, "edge-surface")
            if not sb and not _close(sf, r["surface"], r["surface"]):
                out.append(("C16:%s:edge-surface" % SITE, "edge %s: surface %.12g m2, %d shared face(s) x %.12g m2 = %.12g m2"
                            % (k, sf, r["faces"], R["cell_face"], r["surface"])))
                sb = True
            ds = _si_value(e.distance, (1, 0, 0), SITE, "edge-distance")
            if not db and not _close(ds, r["distance"], dscale):
                out.append(("C16:%s:edge-distance" % SITE, "edge %s: distance %.12g m, centroids are %.12g m apart"
                            % (k, ds, r["distance"])))
                db = True
    # vacuity information
    info["multi_face_edges"] = sum(1 for r in R["edges"].values() if r["faces"] >= 2)
    info["zero_distance_edges"] = sum(1 for r in R["edges"].values() if r["distance"] == 0.0)
    info["edges"] = len(R["edges"])
    info["noncontiguous"] = sum(1 for c in R["members"] if not cg.is_contiguous(c, w, h, d))
    info["single_cell_groups"] = sum(1 for c in R["members"] if len(c) == 1)
    info["multi_cell_groups"] = sum(1 for c in R["members"] if len(c) >= 2)
    info["mixed_flag_groups"] = sum(1 for s in range(S) for c in R["members"]
                                    if 0 < sum(ref["chem"][s][i] for i in c) < len(c))
    return ev


def _eval_static(case, cache):
    out, info = [], {}
    w, h, d = case["grid"]
    n = w * h * d
    m = list(case["map"])
    env = list(case["env"])
    (system, ref), fp, key = _get_system(case, cache)
    cls = cg.classify(m, n, env)
    info["class"] = cls or "valid"
    info["transitions"] = 1
    try:
        cgs = coarsegrain_system(system, list(m))
    except Exception as e:
        cgs = None
        if cls is None:
            det = _drop_detail(m, env)
            info["drop_detail"] = det
            out.append(("C16:%s:valid-map-rejected:%s:%s" % (SITE, det, type(e).__name__),
                        "map %s is valid by the documented rules (environments %s) but raised %s: %s"
                        % (m, env, type(e).__name__, e)))
    else:
        if cls is not None:
            out.append(("C16:%s:invalid-map-accepted:%s" % (SITE, cls),
                        "map %s (environments %s) is invalid (%s) but was accepted" % (m, env, cls)))
    info["evaluations"] = 1
    if cgs is not None and cls is None:
        info["drop_detail"] = _drop_detail(m, env)
        R = cg.coarse(w, h, d, ref["v_si"], env, ref["state_si"], ref["chem"], m)
        try:
            info["evaluations"] += _compare_static(cgs, R, ref, case, out, info)
        except _Bad as b:
            out.append((b.key, b.what))
        except Exception as e:
            out.append(("C16:%s:unexpected-exception" % SITE, "reading the result: %s: %s" % (type(e).__name__, e)))
    if cache is not None and fp is not None:
        try:
            same = _fingerprint(system) == fp
        except Exception:
            same = False
        if not same:          # the library changed its input: never reuse it (not a claim of C16)
            cache.pop(key, None)
            info["input_mutated"] = 1
    return out, info


# ---- un-coarse-graining ----------------------------------------------------------------------------------

def _check_spread(site, fine_si, coarse_si, m, nsamples, S, out):
    """fine_si: flat list (sample, species, cell); coarse_si: flat list (sample, species, group)."""
    n = len(m)
    mem = cg.members(m)
    G = len(mem)
    drop = cg.dropped(m)
    ev = 0
    if len(fine_si) != nsamples * S * n:
        out.append(("C16:%s:shape" % site, "data has %d entries, expected %d x %d x %d"
                    % (len(fine_si), nsamples, S, n)))
        return ev
    if len(coarse_si) != nsamples * S * G:
        out.append(("C16:%s:coarse-shape" % site, "coarse data has %d entries, expected %d x %d x %d"
                    % (len(coarse_si), nsamples, S, G)))
        return ev
    bt = be = bd = False
    for k in range(nsamples):
        for s in range(S):
            base = (k * S + s) * n
            for g in range(G):
                c = coarse_si[(k * S + s) * G + g]
                if c != c or c in (float("inf"), float("-inf")):
                    continue
                sc = abs(c)
                vals = [fine_si[base + i] for i in mem[g]]
                ev += 2
                if not bt and not _close(math.fsum(vals), c, sc):
                    out.append(("C16:%s:group-total" % site,
                                "sample %d species %d group %d: members sum to %.12g, coarse value %.12g"
                                % (k, s, g, math.fsum(vals), c)))
                    bt = True
                if not be and any(not _close(v, c / len(vals), sc) for v in vals):
                    out.append(("C16:%s:unequal-shares" % site,
                                "sample %d species %d group %d: members %s, equal share is %.12g"
                                % (k, s, g, vals, c / len(vals))))
                    be = True
            for i in drop:
                ev += 1
                if not bd and fine_si[base + i] != 0:
                    out.append(("C16:%s:dropped-nonzero" % site, "sample %d species %d dropped cell %d holds %.12g"
                                % (k, s, i, fine_si[base + i])))
                    bd = True
    return ev


DATA_UNITS = ["molecule", "pmol"]
NS_HAND = 3


def _eval_unc(case, cache):
    """Hand-built coarse trajectory (distinct primes) on a coarse system built from the reference."""
    out, info = [], {"transitions": 0, "evaluations": 1}
    site = "uncoarsegrain_trajectory"
    w, h, d = case["grid"]
    n = w * h * d
    m = list(case["map"])
    env = list(case["env"])
    cls = cg.classify(m, n, env)
    info["class"] = cls or "valid"
    if cls is not None:
        info["filtered"] = 1
        return out, info
    S = 2
    (system, ref), fp, key = _get_system(dict(case, chem=[0] * (S * n), nspecies=S, units=0), cache)
    R = cg.coarse(w, h, d, 8.0, env, [[1.0] * n] * S, [[0] * n] * S, m)     # µm units for the hand-built graph
    G = R["n_groups"]
    nodes = [RDGraphSpaceNode(volume=R["volume"][g], environment=R["env"][g]) for g in range(G)]
    edges = [RDGraphSpaceEdge(i=k[0], j=k[1], surface=v["surface"], distance=v["distance"])
             for k, v in sorted(R["edges"].items())]
    graph = RDGraphSpace(nodes=nodes, edges=edges)
    cgsys = RDSystem(system.network, graph, state=[1.0] * (S * G), chemostats=[0] * (S * G))
    vals = [float(p) for p in PRIMES[7:7 + NS_HAND * S * G]]
    du = DATA_UNITS[case["data_units"]]
    traj = RDTrajectory(data=UnitArray(list(vals), du), t_sample=UnitArray([0.0, 0.5, 1.25], "s"), system=cgsys)
    info["transitions"] = 1
    try:
        res = uncoarsegrain_trajectory(traj, system, list(m))
        fine = _si_array(res.data, (0, 0, 1), site, "data")
        qs = float(si.si_scale(("m", "s", du), (0, 0, 1)))
        coarse = [v * qs for v in vals]
        info["evaluations"] += _check_spread(site, fine, coarse, m, NS_HAND, S, out)
        info["evaluations"] += 1
        if (res.nsamples(), res.nspecies(), res.ncells()) != (NS_HAND, S, n):
            out.append(("C16:%s:shape" % site, "trajectory reports %d samples x %d species x %d cells, expected %d x %d x %d"
                        % (res.nsamples(), res.nspecies(), res.ncells(), NS_HAND, S, n)))
    except _Bad as b:
        out.append((b.key, b.what))
    except Exception as e:
        out.append(("C16:%s:unexpected-exception" % site, "map %s: %s: %s" % (m, type(e).__name__, e)))
    info["drop_detail"] = _drop_detail(m, env)
    info["multi_cell_groups"] = sum(1 for c in R["members"] if len(c) >= 2)
    return out, info


_ENGINE = None


class _NoEngine(Exception):
    pass


def _engine():
    """The Euler engine on a fresh build of the working tree.  run() creates it in the parent so that the
    forked workers inherit the loaded library (the build cache may be pruned by concurrent runs)."""
    global _ENGINE
    if _ENGINE is None:
        from mc import eng
        import time
        err = None
        for attempt in range(4):            # the build cache may be pruned by a concurrent run: build again
            try:
                _ENGINE = eng.make_engine("euler")
                break
            except Exception as e:
                err = e
                eng._paths.clear()
                time.sleep(0.5 * (attempt + 1))
        if _ENGINE is None:
            raise _NoEngine("%s: %s" % (type(err).__name__, err))
    return _ENGINE


def _script(system, dt, sunits=0):
    if not sunits:
        return RDScript(system=system, t_sample=[0, dt, 2 * dt, 3 * dt, 4 * dt], time_step=dt)
    # another script units system; times stay the same physical times (explicit seconds)
    return RDScript(system=system, t_sample=UnitArray([0, dt, 2 * dt, 3 * dt, 4 * dt], "s"), time_step="%r s" % dt,
                    units_system=_us(SCRIPT_UNITS[sunits]))


NS_SIM = 5


def _eval_simcg(case, cache):
    """simulate_script(script, euler, cgmap=map) against the un-spread coarse simulation."""
    out, info = [], {"transitions": 0, "evaluations": 1}
    site = "simulate_script"
    w, h, d = case["grid"]
    n = w * h * d
    m = list(case["map"])
    env = list(case["env"])
    S = case["nspecies"]
    cls = cg.classify(m, n, env)
    info["class"] = cls or "valid"
    if cls is not None:
        info["filtered"] = 1
        return out, info
    (system, ref), fp, key = _get_system(case, None)
    R = cg.coarse(w, h, d, ref["v_si"], env, ref["state_si"], ref["chem"], m)
    if any(r["distance"] <= 1e-12 * R["cell_edge"] for r in R["edges"].values()):
        info["filtered_zero_distance"] = 1     # coincident centroids: the diffusion rate D s/(V d) is undefined
        return out, info
    det = _drop_detail(m, env)
    info["drop_detail"] = det
    script = _script(system, 0.001, case.get("sunits", 0))
    try:
        engine = _engine()
    except _NoEngine as e:
        return [("C16:checker:engine-unavailable", str(e))], info
    info["transitions"] = 1
    try:
        res = simulate_script(script, engine, cgmap=list(m))
    except Exception as e:
        out.append(("C16:%s:valid-map-rejected:%s:%s" % (site, det, type(e).__name__),
                    "cgmap %s (environments %s) is valid but simulate_script raised %s: %s"
                    % (m, env, type(e).__name__, e)))
        return out, info
    try:
        cgscript = script.copy()
        cgscript.system = coarsegrain_system(system, list(m))
        cgout = simulate_script(cgscript, engine)
        info["transitions"] += 2
        fine = _si_array(res.data, (0, 0, 1), site, "data")
        coarse = _si_array(cgout.data, (0, 0, 1), site, "coarse-data")
        info["evaluations"] += _check_spread(site + ":cgmap", fine, coarse, m, NS_SIM, S, out)
        info["evaluations"] += 1
        if (res.nsamples(), res.nspecies(), res.ncells()) != (NS_SIM, S, n):
            out.append(("C16:%s:cgmap:shape" % site, "trajectory reports %d samples x %d species x %d cells, expected %d x %d x %d"
                        % (res.nsamples(), res.nspecies(), res.ncells(), NS_SIM, S, n)))
        G = R["n_groups"]
        if len(coarse) == NS_SIM * S * G and any(coarse[(NS_SIM - 1) * S * G + k] != coarse[k] for k in range(S * G)):
            info["dynamic"] = 1
    except _Bad as b:
        out.append((b.key, b.what))
    except Exception as e:
        out.append(("C16:%s:cgmap:unexpected-exception" % site, "map %s: %s: %s" % (m, type(e).__name__, e)))
    return out, info


def _eval_ident(case, cache):
    """Identity map: the graph route must reproduce the plain grid simulation."""
    out, info = [], {"transitions": 0, "evaluations": 1, "class": "valid"}
    site = "simulate_script:identity"
    w, h, d = case["grid"]
    n = w * h * d
    S = case["nspecies"]
    (system, ref), fp, key = _get_system(case, None)
    script = _script(system, 0.01, case.get("sunits", 0))
    try:
        engine = _engine()
    except _NoEngine as e:
        return [("C16:checker:engine-unavailable", str(e))], info
    try:
        plain = simulate_script(script, engine)
        info["transitions"] = 1
        a = _si_array(plain.data, (0, 0, 1), site, "plain-data")
    except _Bad as b:
        return [(b.key, b.what)], info
    except Exception as e:     # not C16's claim: the plain simulation itself failed
        info["plain_failed"] = 1
        return [("C16:%s:plain-simulation-failed" % site, "%s: %s" % (type(e).__name__, e))], info
    try:
        idn = simulate_script(script, engine, cgmap=list(range(n)))
        info["transitions"] = 2
        b_ = _si_array(idn.data, (0, 0, 1), site, "data")
        if len(a) != NS_SIM * S * n or len(b_) != len(a):
            out.append(("C16:%s:shape" % site, "identity-map data has %d entries, plain %d, expected %d x %d x %d"
                        % (len(b_), len(a), NS_SIM, S, n)))
            return out, info
        ta = _si_array(plain.t, (0, 1, 0), site, "plain-t")
        tb = _si_array(idn.t, (0, 1, 0), site, "t")
        info["evaluations"] += 1
        if len(ta) != len(tb) or any(not _close(x, y, max(abs(x), 1e-300)) for x, y in zip(ta, tb)):
            out.append(("C16:%s:sample-times" % site, "sample times %s vs plain %s" % (tb, ta)))
        for k in range(NS_SIM):
            blk = a[k * S * n:(k + 1) * S * n]
            scale = math.fsum(abs(x) for x in blk)
            for q in range(S * n):
                info["evaluations"] += 1
                x, y = blk[q], b_[k * S * n + q]
                if not _close(y, x, scale):
                    out.append(("C16:%s:differs%s" % (site, ":network-%d" % case["net"] if "net" in case else ""),
                                "sample %d species %d cell %d: identity-map run gives %.15g, plain run %.15g (SI; scale %.6g)"
                                % (k, q // n, q % n, y, x, scale)))
                    return out, info
        if any(a[(NS_SIM - 1) * S * n + q] != a[q] for q in range(S * n)):
            info["dynamic"] = 1
    except _Bad as b:
        out.append((b.key, b.what))
    except Exception as e:
        out.append(("C16:%s:unexpected-exception" % site, "%s: %s" % (type(e).__name__, e)))
    return out, info



# ---- process histories: several coarse-grainings one after the other in ONE process ---------------------------

MOD = __name__

# system variants of one grid layout (w, h, d): other cell volume / unit systems / environment map / state
HIST_VARIANTS = [
    {"units": 0, "vol": 8, "vol_units": ("µm", "s", "molecule"), "env": "uniform", "shift": 0},
    {"units": 0, "vol": 27, "vol_units": ("µm", "s", "molecule"), "env": "two", "shift": 5, "state": 1},
    {"units": 1, "vol": 8e9, "vol_units": ("nm", "ms", "mol"), "env": "three", "shift": 0},     # = 8 µm3, other unit
    {"units": 1, "vol": 1e9, "vol_units": ("nm", "ms", "mol"), "env": "uniform", "shift": 11, "state": 2},
    {"units": 2, "vol": "64 µm3", "vol_units": ("µm", "s", "molecule"), "env": "uniform", "shift": 3, "state": 3},
    {"units": 2, "vol": "8 µm3", "vol_units": ("µm", "s", "molecule"), "env": "two", "shift": 0},
    {"units": 1, "vol": 8, "vol_units": ("nm", "ms", "mol"), "env": "uniform", "shift": 2},      # same number as variant 0
]
HIST_FUNCS = ("coarsegrain_system", "coarsegrain_grid", "grid_to_graph")


def hist_maps(n):
    """Index maps used by the history family: identity, two halves (several shared faces), halves with the first
    cell dropped (relabelled so that 0..max are all present)."""
    ident = list(range(n))
    halves = [(2 * i) // n for i in range(n)]
    drop = [-1] + halves[1:]
    lab = []
    for g in drop:
        if g >= 0 and g not in lab:
            lab.append(g)
    drop = [g if g < 0 else lab.index(g) for g in drop]
    out = [ident]
    for m in (halves, drop):
        if m not in out and max(m) >= 0:
            out.append(m)
    return out


def _hist_system(case, v):
    var = HIST_VARIANTS[v]
    w, h, d = case["grid"]
    n = w * h * d
    env = env_map(var["env"], n)
    return build_system(case["grid"], env, chem_rich(2, n), 2, var["units"], var, 0, int(var.get("state", 0))), env


def _summarize(fn, obj):
    """Plain (picklable) SI description of a library result."""
    site = "history:" + fn
    space = obj if fn != "coarsegrain_system" else obj.space
    out = {"nodes": [(_si_value(nd.volume, (3, 0, 0), site, "node-volume"), int(nd.environment)) for nd in space.nodes],
           "edges": [(int(e.i), int(e.j), _si_value(e.surface, (2, 0, 0), site, "edge-surface"),
                      _si_value(e.distance, (1, 0, 0), site, "edge-distance")) for e in space.edges]}
    if fn == "coarsegrain_system":
        out["state"] = _si_array(obj.state, (0, 0, 1), site, "state")
        out["chem"] = [int(x) for x in obj.chemostats]
    return out


def _hist_child(case):
    """Runs in a pristine process: the steps of the history one after the other; returns their summaries."""
    import strengths.coarsegrain as lib
    res = []
    for v in case["steps"]:
        (system, ref), env = _hist_system(case, v)
        fn = case["fn"]
        try:
            if fn == "coarsegrain_system":
                obj = lib.coarsegrain_system(system, list(case["map"]))
            elif fn == "coarsegrain_grid":
                obj = lib.coarsegrain_grid(system.space, list(case["map"]))
            else:
                obj = lib.grid_to_graph(system.space)
        except Exception as e:
            res.append({"exc": "%s: %s" % (type(e).__name__, e)})
            continue
        try:
            res.append(_summarize(fn, obj))
        except _Bad as b:
            res.append({"bad": (b.key, b.what)})
        except Exception as e:
            res.append({"bad": ("C16:history:%s:unexpected-exception" % fn, "reading the result: %s: %s"
                                % (type(e).__name__, e))})
    return res


def _compare_summary(sm, R, S, fn, tag, dscale, out, pre=None):
    """Summary of a library result against the reference coarse graph R (SI).  Returns #comparisons."""
    pre = pre or "C16:history:%s:" % fn
    ev = 0
    G = R["n_groups"]
    if len(sm["nodes"]) != G:
        out.append((pre + "node-count", "%s: %d nodes, expected %d" % (tag, len(sm["nodes"]), G)))
        return ev
    for g in range(G):
        ev += 2
        if not _close(sm["nodes"][g][0], R["volume"][g], R["volume"][g]):
            out.append((pre + "node-volume", "%s: group %d volume %.12g m3, expected %.12g m3"
                        % (tag, g, sm["nodes"][g][0], R["volume"][g])))
            break
        if sm["nodes"][g][1] != R["env"][g]:
            out.append((pre + "node-environment", "%s: group %d environment %d, expected %d"
                        % (tag, g, sm["nodes"][g][1], R["env"][g])))
            break
    if "state" in sm:
        if len(sm["state"]) != S * G or len(sm["chem"]) != S * G:
            out.append((pre + "state-length", "%s: %d state / %d chemostat entries, expected %d"
                        % (tag, len(sm["state"]), len(sm["chem"]), S * G)))
        else:
            for s_ in range(S):
                for g in range(G):
                    ev += 2
                    if not _close(sm["state"][s_ * G + g], R["total"][s_][g], R["total"][s_][g]):
                        out.append((pre + "group-state", "%s: species %d group %d holds %.12g, members total %.12g"
                                    % (tag, s_, g, sm["state"][s_ * G + g], R["total"][s_][g])))
                        return ev
                    if bool(sm["chem"][s_ * G + g]) != bool(R["flag"][s_][g]):
                        out.append((pre + "chemostat", "%s: species %d group %d flag %d, expected %d"
                                    % (tag, s_, g, sm["chem"][s_ * G + g], R["flag"][s_][g])))
                        return ev
    seen = {}
    for (i, j, sf, ds) in sm["edges"]:
        ev += 1
        k = (min(i, j), max(i, j))
        if not (0 <= i < G and 0 <= j < G) or i == j or k in seen:
            out.append((pre + "edge-structure", "%s: edge (%d,%d) is out of range, a self loop or a duplicate" % (tag, i, j)))
            return ev
        seen[k] = (sf, ds)
    if sorted(seen) != sorted(R["edges"]):
        out.append((pre + "edge-set", "%s: edges %s, groups sharing a face %s" % (tag, sorted(seen), sorted(R["edges"]))))
        return ev
    for k in sorted(seen):
        ev += 2
        r = R["edges"][k]
        if not _close(seen[k][0], r["surface"], r["surface"]):
            out.append((pre + "edge-surface", "%s: edge %s surface %.12g m2, %d shared face(s) x %.12g m2 = %.12g m2"
                        % (tag, k, seen[k][0], r["faces"], R["cell_face"], r["surface"])))
            break
        if not _close(seen[k][1], r["distance"], dscale):
            out.append((pre + "edge-distance", "%s: edge %s distance %.12g m, centroids are %.12g m apart"
                        % (tag, k, seen[k][1], r["distance"])))
            break
    return ev


def _same_summary(a, b, scale_len):
    """First field in which two summaries of the same input differ (1e-9 relative), or None."""
    if ("exc" in a) != ("exc" in b):
        return "exception"
    if "exc" in a:
        return None if a["exc"].split(":")[0] == b["exc"].split(":")[0] else "exception-type"
    if ("bad" in a) or ("bad" in b):
        return None if a.get("bad") == b.get("bad") else "dimension"
    if len(a["nodes"]) != len(b["nodes"]) or len(a["edges"]) != len(b["edges"]):
        return "structure"
    for x, y in zip(a["nodes"], b["nodes"]):
        if not _close(x[0], y[0], abs(y[0])):
            return "node-volume"
        if x[1] != y[1]:
            return "node-environment"
    for x, y in zip(a["edges"], b["edges"]):
        if (x[0], x[1]) != (y[0], y[1]):
            return "edge-order"
        if not _close(x[2], y[2], abs(y[2])):
            return "edge-surface"
        if not _close(x[3], y[3], scale_len):
            return "edge-distance"
    if "state" in a:
        if len(a["state"]) != len(b["state"]) or a["chem"] != b["chem"]:
            return "state-or-chemostat"
        for x, y in zip(a["state"], b["state"]):
            if not _close(x, y, abs(y)):
                return "state"
    return None


_PRISTINE = None


def _pristine():
    """A zygote forked from this process.  It is only pristine if this process has not coarse-grained anything
    yet: run() sends the history jobs to fresh workers that do nothing else, replay runs in a fresh process."""
    global _PRISTINE
    if _PRISTINE is None:
        from mc.pristine import Pristine
        _PRISTINE = Pristine(timeout=60.0)
    return _PRISTINE


def _eval_hist(case, cache):
    out, info = [], {"transitions": 0, "evaluations": 0, "class": "valid"}
    fn = case["fn"]
    w, h, d = case["grid"]
    n = w * h * d
    m = list(case["map"]) if fn != "grid_to_graph" else list(range(n))
    steps = list(case["steps"])
    P = _pristine()
    st, res = P.call(MOD, "_hist_child", dict(case))
    info["transitions"] = len(steps)
    if st != "ok" or len(res) != len(steps):
        out.append(("C16:history:%s:worker-%s" % (fn, st), "history %s: %s" % (steps, str(res)[:500])))
        return out, info
    if cache is None:
        cache = {}
    for k, v in enumerate(steps):
        var = HIST_VARIANTS[v]
        env = env_map(var["env"], n)
        tag = "step %d of history %s (variant %d: cell_vol %r, units configuration %d, environments %s)" % (
            k + 1, steps, v, var["vol"], var["units"], var["env"])
        # -- against the reference
        cls = None if fn == "grid_to_graph" else cg.classify(m, n, env)
        sm = res[k]
        info["evaluations"] += 1
        if "bad" in sm:
            out.append((sm["bad"][0], tag + ": " + sm["bad"][1]))
        elif cls is not None:
            if "exc" not in sm:
                out.append(("C16:history:%s:invalid-map-accepted:%s" % (fn, cls), "%s: map %s accepted" % (tag, m)))
            info["invalid_steps"] = info.get("invalid_steps", 0) + 1
        elif "exc" in sm:
            out.append(("C16:history:%s:valid-map-rejected:%s" % (fn, sm["exc"].split(":")[0]),
                        "%s: map %s raised %s" % (tag, m, sm["exc"])))
        else:
            (_sys, ref_), _env = _hist_system(case, v)      # only builds the input (no coarse-graining in-process)
            R = cg.coarse(w, h, d, ref_["v_si"], env, ref_["state_si"], ref_["chem"], m)
            info["evaluations"] += _compare_summary(sm, R, 2, fn, tag, R["cell_edge"] * (w + h + d), out)
        # -- against the same input in a pristine process
        key = (tuple(case["grid"]), fn, tuple(m), v)
        if key not in cache:
            st1, r1 = P.call(MOD, "_hist_child", dict(case, steps=[v]))
            cache[key] = r1[0] if st1 == "ok" and len(r1) == 1 else None
            info["transitions"] += 1
        alone = cache[key]
        if alone is None:
            out.append(("C16:history:%s:worker-pristine-failed" % fn, tag))
            continue
        info["evaluations"] += 1
        vnum = float(str(var["vol"]).split()[0])
        edge_si = (vnum * float(si.si_scale(tuple(var["vol_units"]), (3, 0, 0)))) ** (1.0 / 3.0)
        diff = _same_summary(sm, alone, edge_si * (w + h + d))
        if diff is not None:
            out.append(("C16:history:%s:differs-from-pristine:%s" % (fn, diff),
                        "%s: the result depends on what the process computed before (field %s)" % (tag, diff)))
    if len(set(steps)) > 1:
        info["dynamic"] = 1
    return out, info


# ---- the script alphabet through the cgmap path --------------------------------------------------------------

_ENGINES = {}


def _engine_of(kind):
    if kind == "euler":
        return _engine()
    if kind not in _ENGINES:
        from mc import eng
        import time
        err = None
        for attempt in range(4):
            try:
                _ENGINES[kind] = eng.make_engine(kind)
                break
            except Exception as e:
                err = e
                eng._paths.clear()
                time.sleep(0.5 * (attempt + 1))
        if kind not in _ENGINES:
            raise _NoEngine("%s: %s" % (type(err).__name__, err))
    return _ENGINES[kind]


POLICIES = ("on_t_sample", "on_interval", "on_iteration", "no_sampling")
INTERVALS = (None, 0.25, "500 ms")                      # None = the default (1 in the script's time unit)
TMAXS = (None, 1.5)                                     # None = "default" (last request)
REQUESTS = ([0, 0.5, 1.0], [0.3, 0.31, 1.2], [0, 0.0625, 0.125, 0.25, 2.0])
TIME_STEPS = (0.05, 0.125)
SCRIPT_UNITS = (("µm", "s", "molecule"), ("nm", "ms", "pmol"), ("mm", "ds", "mol"))
SCRIPT_MAPS = {(3, 2, 1): [0, 1, 2, 2, -1, 1], (2, 2, 1): [0, 1, 1, -1]}     # valid for the 3- / 2-environment map


def _mk_script(case, system, seed=None):
    kw = {"system": system, "t_sample": list(REQUESTS[case["req"]]), "time_step": TIME_STEPS[case["dt"]],
          "sampling_policy": case["policy"], "rng_seed": case["seed"] if seed is None else seed,
          "init_state_processing": case["init"], "units_system": _us(SCRIPT_UNITS[case["sunits"]])}
    if INTERVALS[case["interval"]] is not None:
        kw["sampling_interval"] = INTERVALS[case["interval"]]
    if TMAXS[case["tmax"]] is not None:
        kw["t_max"] = TMAXS[case["tmax"]]
    return RDScript(**kw)


def _times_equal(ta, tb, scale):
    return len(ta) == len(tb) and all(_close(x, y, scale) for x, y in zip(ta, tb))


def _eval_script(case, cache):
    out, info = [], {"transitions": 0, "evaluations": 1, "class": "valid"}
    kind = case["engine"]
    site = "simulate_script:script:%s" % kind
    pol = case["policy"]
    w, h, d = case["grid"]
    n = w * h * d
    S = case["nspecies"]
    m = list(case["map"])
    ident = m == list(range(n))
    try:
        engine = _engine_of(kind)
    except _NoEngine as e:
        return [("C16:checker:engine-unavailable", str(e))], info
    (system, ref), fp, key = _get_system(case, None)
    if cg.classify(m, n, list(case["env"])) is not None:
        return [("C16:checker:script-map-invalid", "map %s" % m)], info
    try:
        script = _mk_script(case, system)
        tscale = max(abs(_si_value(script.t_max, (0, 1, 0), site, "t_max")),
                     _si_value(script.time_step, (0, 1, 0), site, "time_step"))
        # the coarse run made separately with the library's own pieces (same script, same seed)
        cgscript = script.copy()
        cgscript.system = coarsegrain_system(system, list(m))
        cgout = simulate_script(cgscript, engine)
        info["transitions"] += 1
        tc = _si_array(cgout.t, (0, 1, 0), site, "coarse-t")
        coarse = _si_array(cgout.data, (0, 0, 1), site, "coarse-data")
    except _Bad as b:
        return [(b.key, b.what)], info
    except Exception as e:      # the reference run itself failed: nothing C16 can claim for this script
        info["reference_failed"] = 1
        return out, info
    try:
        res = simulate_script(_mk_script(case, system), engine, cgmap=list(m))
        info["transitions"] += 1
        tr = _si_array(res.t, (0, 1, 0), site, "t")
        fine = _si_array(res.data, (0, 0, 1), site, "data")
        info["evaluations"] += 2
        if len(tr) != len(tc):
            out.append(("C16:%s:cgmap:sample-count:%s" % (site, pol),
                        "cgmap run has %d samples, the coarse script run separately has %d (times %s vs %s)"
                        % (len(tr), len(tc), tr[:6], tc[:6])))
        elif not _times_equal(tr, tc, tscale):
            out.append(("C16:%s:cgmap:sample-times:%s" % (site, pol), "cgmap run sampled at %s, coarse run at %s"
                        % (tr[:8], tc[:8])))
        else:
            o2 = []
            info["evaluations"] += _check_spread(site + ":cgmap", fine, coarse, m, len(tc), S, o2)
            out.extend((k + ":" + pol, wht) for k, wht in o2)
            if (res.nsamples(), res.nspecies(), res.ncells()) != (len(tc), S, n):
                out.append(("C16:%s:cgmap:shape:%s" % (site, pol), "trajectory reports %d x %d x %d, expected %d x %d x %d"
                            % (res.nsamples(), res.nspecies(), res.ncells(), len(tc), S, n)))
        G = max(m) + 1
        if len(tc) >= 2 and any(coarse[(len(tc) - 1) * S * G + k] != coarse[k] for k in range(S * G)):
            info["dynamic"] = 1
        info["samples"] = len(tc)
        if ident:
            plain = simulate_script(_mk_script(case, system), engine)
            info["transitions"] += 1
            tp = _si_array(plain.t, (0, 1, 0), site, "plain-t")
            a = _si_array(plain.data, (0, 0, 1), site, "plain-data")
            claim_times = True
            if kind == "gillespie":
                # event-driven engine: the sample times are the times of random events, and the grid run and the
                # graph run consume the random numbers in different orders -> neither data nor times nor the
                # number of samples of the plain run are claimed (only "no_sampling" records nothing, always).
                claim_times = pol == "no_sampling"
                if not claim_times:
                    info["times_random"] = 1
            elif kind == "tauleap":
                # fixed-step stochastic engine: data is not claimed (other order of draws on the graph), but the
                # sample times are a function of the script alone; guarded: they are claimed only if the plain
                # run with another seed has the same times.
                plain2 = simulate_script(_mk_script(case, system, seed=case["seed"] + 1), engine)
                info["transitions"] += 1
                tp2 = _si_array(plain2.t, (0, 1, 0), site, "plain-t")
                claim_times = tp2 == tp
                if not claim_times:
                    info["times_random"] = 1
            if claim_times:
                info["evaluations"] += 2
                if len(tr) != len(tp):
                    out.append(("C16:%s:identity:sample-count:%s" % (site, pol),
                                "identity-map run has %d samples, plain run %d (times %s vs %s)"
                                % (len(tr), len(tp), tr[:6], tp[:6])))
                elif not _times_equal(tr, tp, tscale):
                    out.append(("C16:%s:identity:sample-times:%s" % (site, pol),
                                "identity-map run sampled at %s, plain run at %s" % (tr[:8], tp[:8])))
            if len(fine) != len(tr) * S * n:
                out.append(("C16:%s:identity:shape:%s" % (site, pol), "%d data entries for %d samples x %d x %d"
                            % (len(fine), len(tr), S, n)))
            if kind == "euler" and len(tr) == len(tp) and len(a) == len(fine):
                for k in range(len(tp)):
                    blk = a[k * S * n:(k + 1) * S * n]
                    scale = math.fsum(abs(x) for x in blk)
                    for q in range(S * n):
                        info["evaluations"] += 1
                        if not _close(fine[k * S * n + q], blk[q], scale):
                            out.append(("C16:%s:identity:data:%s" % (site, pol),
                                        "sample %d species %d cell %d: identity-map run %.15g, plain run %.15g"
                                        % (k, q // n, q % n, fine[k * S * n + q], blk[q])))
                            return out, info
            elif kind == "euler" and len(tr) == len(tp) and len(a) != len(fine):
                out.append(("C16:%s:identity:shape:%s" % (site, pol), "%d data entries, plain run %d" % (len(fine), len(a))))
    except _Bad as b:
        out.append((b.key, b.what))
    except Exception as e:
        out.append(("C16:%s:unexpected-exception:%s" % (site, pol), "%s: %s" % (type(e).__name__, e)))
    return out, info



# ---- repeated calls on the SAME input objects -----------------------------------------------------------------

def _traj_fp(traj):
    return (tuple(float(x) for x in traj.data.value), str(traj.data.units), tuple(float(x) for x in traj.t.value))


def _eval_rep(case, cache):
    """coarsegrain_system / coarsegrain_grid / grid_to_graph / uncoarsegrain_trajectory(_data) called three times on
    the same input objects.  Every call must give the reference result of the ORIGINAL input (the statement's clauses
    hold on every call); a modified input object alone is only counted."""
    import strengths.coarsegrain as lib
    out, info = [], {"transitions": 0, "evaluations": 1}
    w, h, d = case["grid"]
    n = w * h * d
    m0 = list(case["map"])
    env = list(case["env"])
    cls = cg.classify(m0, n, env)
    info["class"] = cls or "valid"
    if cls is not None:
        info["filtered"] = 1
        return out, info
    S = 2
    NCALL = 3
    (system, ref), _, _ = _get_system(dict(case, chem=chem_rich(S, n), nspecies=S), None)
    R = cg.coarse(w, h, d, ref["v_si"], env, ref["state_si"], ref["chem"], m0)
    Rid = cg.coarse(w, h, d, ref["v_si"], env, ref["state_si"], ref["chem"], list(range(n)))
    dscale = R["cell_edge"] * (w + h + d)
    mut = {}

    def note(what):
        mut[what] = 1

    # -- coarse-graining functions -------------------------------------------------------------------------
    m = list(m0)
    for fn in ("coarsegrain_system", "coarsegrain_grid", "grid_to_graph"):
        first = None
        for k in range(1, NCALL + 1):
            fp0 = _fingerprint(system)
            tag = "call %d of %s on the same objects (map %s)" % (k, fn, m0)
            try:
                if fn == "coarsegrain_system":
                    obj = lib.coarsegrain_system(system, m)
                elif fn == "coarsegrain_grid":
                    obj = lib.coarsegrain_grid(system.space, m)
                else:
                    obj = lib.grid_to_graph(system.space)
                info["transitions"] += 1
                sm = _summarize(fn, obj)
                info["evaluations"] += _compare_summary(sm, R if fn != "grid_to_graph" else Rid, S, fn, tag, dscale, out,
                                                        pre="C16:repeat:%s:call-%d:" % (fn, k))
                if first is None:
                    first = sm
                else:
                    info["evaluations"] += 1
                    df = _same_summary(sm, first, dscale)
                    if df is not None:
                        out.append(("C16:repeat:%s:call-%d:differs-from-first-call:%s" % (fn, k, df), tag))
            except _Bad as b:
                out.append((b.key, tag + ": " + b.what))
            except Exception as e:
                out.append(("C16:repeat:%s:call-%d:unexpected-exception" % (fn, k), "%s: %s: %s" % (tag, type(e).__name__, e)))
            try:
                if _fingerprint(system) != fp0:
                    note("system")
            except Exception:
                note("system")
            if m != m0:
                note("index_map")
            if out:
                break
        if out:
            break
    # -- un-coarse-graining: hand-built coarse trajectory on the reference coarse system ----------------------
    if not out:
        Rg = cg.coarse(w, h, d, 8.0, env, [[1.0] * n] * S, [[0] * n] * S, m0)
        G = Rg["n_groups"]
        nodes = [RDGraphSpaceNode(volume=Rg["volume"][g], environment=Rg["env"][g]) for g in range(G)]
        edges = [RDGraphSpaceEdge(i=k_[0], j=k_[1], surface=v["surface"], distance=v["distance"])
                 for k_, v in sorted(Rg["edges"].items())]
        cgsys = RDSystem(system.network, RDGraphSpace(nodes=nodes, edges=edges), state=[1.0] * (S * G),
                         chemostats=[0] * (S * G))
        vals = [float(p) for p in PRIMES[11:11 + NS_HAND * S * G]]
        for fn in ("uncoarsegrain_trajectory", "uncoarsegrain_trajectory_data"):
            traj = RDTrajectory(data=UnitArray(list(vals), "molecule"), t_sample=UnitArray([0.0, 0.5, 1.25], "s"),
                                system=cgsys)
            m = list(m0)
            first = None
            for k in range(1, NCALL + 1):
                tfp, sfp = _traj_fp(traj), _fingerprint(system)
                tag = "call %d of %s on the same coarse trajectory (map %s)" % (k, fn, m0)
                site = "repeat:%s:call-%d" % (fn, k)
                try:
                    if fn == "uncoarsegrain_trajectory":
                        data = lib.uncoarsegrain_trajectory(traj, system, m).data
                    else:
                        data = lib.uncoarsegrain_trajectory_data(traj, system.space, m)
                    info["transitions"] += 1
                    fine = _si_array(data, (0, 0, 1), site, "data")
                    o2 = []
                    # the reference is the spread of the ORIGINAL coarse data (what the caller put in the trajectory)
                    info["evaluations"] += _check_spread(site, fine, vals, m0, NS_HAND, S, o2)
                    out.extend((key, tag + ": " + wht) for key, wht in o2)
                    if first is None:
                        first = fine
                    elif not o2 and (len(fine) != len(first) or
                                     any(not _close(x, y, abs(y)) for x, y in zip(fine, first))):
                        out.append(("C16:%s:differs-from-first-call" % site, tag))
                except _Bad as b:
                    out.append((b.key, tag + ": " + b.what))
                except Exception as e:
                    out.append(("C16:%s:unexpected-exception" % site, "%s: %s: %s" % (tag, type(e).__name__, e)))
                if _traj_fp(traj) != tfp:
                    note("coarse_trajectory")
                if _fingerprint(system) != sfp:
                    note("system")
                if m != m0:
                    note("index_map")
                if out:
                    break
            if out:
                break
    for k_ in mut:
        info["mutated_" + k_] = 1
    info["drop_detail"] = _drop_detail(m0, env)
    info["multi_cell_groups"] = sum(1 for c in R["members"] if len(c) >= 2)
    return out, info


_EVAL = {"cg": _eval_static, "unc": _eval_unc, "simcg": _eval_simcg, "ident": _eval_ident, "hist": _eval_hist,
         "script": _eval_script, "rep": _eval_rep}


def check_case(case, cache=None):
    """One case, plain library calls; returns [(key, what)]."""
    try:
        return _EVAL[case["sub"]](case, cache)[0]
    except Exception as e:
        return [("C16:%s:unexpected-exception" % case.get("sub", "?"), "%s: %s" % (type(e).__name__, e))]


# ---- enumeration ---------------------------------------------------------------------------------------------

def _labels(m, extra=()):
    return list(range(0, m + 1)) + [-1] + list(extra)


def _sp(name, sub, grid, labels, envs=("uniform", "two", "three"), chems="rich", nspecies=2, units=(0,),
        maplen=None, data_units=(0,), engine=False, state=0):
    w, h, d = grid
    n = w * h * d
    L = maplen if maplen is not None else n
    nchem = 2 ** (nspecies * n) if chems == "all" else (2 if chems == "none+rich" else 1)
    nmaps = len(labels) ** L if labels is not None else 1
    dims = [len(units), len(data_units), nchem, len(envs), nmaps]
    size = 1
    for x in dims:
        size *= x
    return {"name": name, "sub": sub, "grid": list(grid), "labels": labels, "envs": list(envs), "chems": chems,
            "nspecies": nspecies, "units": list(units), "maplen": L, "data_units": list(data_units), "dims": dims,
            "size": size, "engine": engine, "state": state}


def decode(sp, idx):
    """Case number idx of a sub-space (mixed radix: units, data units, chemostat map, environment map outermost;
    the index map innermost, first label = 0, last = -1 / -2)."""
    if "cases" in sp:
        return dict(sp["cases"][idx])
    dims = sp["dims"]
    digs = []
    for b in reversed(dims):
        digs.append(idx % b)
        idx //= b
    iu, idu, ich, ienv, imap = reversed(digs)
    w, h, d = sp["grid"]
    n = w * h * d
    S = sp["nspecies"]
    if sp["chems"] == "all":
        chem = [(ich >> (S * n - 1 - k)) & 1 for k in range(S * n)]
    elif sp["chems"] == "none+rich":
        chem = [0] * (S * n) if ich == 0 else chem_rich(S, n)
    else:
        chem = chem_rich(S, n)
    case = {"sub": sp["sub"], "grid": list(sp["grid"]), "env": env_map(sp["envs"][ienv], n), "chem": chem,
            "nspecies": S, "units": sp["units"][iu]}
    if sp["labels"] is not None:
        lab = sp["labels"]
        m = []
        for _ in range(sp["maplen"]):
            m.append(lab[imap % len(lab)])
            imap //= len(lab)
        m.reverse()
        case["map"] = m
    if sp["sub"] == "unc":
        case["data_units"] = sp["data_units"][idu]
    if sp.get("state"):
        case["state"] = sp["state"]
    return case


def _sp_list(name, sub, cases, engine=False):
    """A sub-space given as an explicit, fixed-order list of cases (history / script families)."""
    return {"name": name, "sub": sub, "cases": cases, "size": len(cases), "engine": engine}


def _hist_spaces(T):
    import itertools
    V = list(range(len(HIST_VARIANTS)))
    if T:
        grids = [(2, 1, 1), (3, 1, 1), (2, 2, 1), (3, 2, 1), (2, 2, 2)]
        triples = list(itertools.product(V, repeat=3))
        tname = "all %d ordered triples of the %d variants" % (len(V) ** 3, len(V))
    else:
        grids = [(3, 1, 1), (2, 2, 1), (2, 2, 2)]
        triples = list(itertools.product((0, 1, 3), repeat=3))
        tname = "all 27 ordered triples of the variants 0, 1, 3"
    pairs = list(itertools.product(V, repeat=2))
    out = []
    for g in grids:
        n = g[0] * g[1] * g[2]
        maps = hist_maps(n)
        halves = maps[1] if len(maps) > 1 else maps[0]
        cases = []
        for steps in pairs:
            for m in maps:
                cases.append({"sub": "hist", "grid": list(g), "fn": "coarsegrain_system", "map": m, "steps": list(steps)})
            cases.append({"sub": "hist", "grid": list(g), "fn": "coarsegrain_grid", "map": halves, "steps": list(steps)})
            cases.append({"sub": "hist", "grid": list(g), "fn": "grid_to_graph", "map": None, "steps": list(steps)})
        for steps in triples:
            cases.append({"sub": "hist", "grid": list(g), "fn": "coarsegrain_system", "map": halves, "steps": list(steps)})
            if T:
                cases.append({"sub": "hist", "grid": list(g), "fn": "coarsegrain_system", "map": maps[0], "steps": list(steps)})
            cases.append({"sub": "hist", "grid": list(g), "fn": "grid_to_graph", "map": None, "steps": list(steps)})
        out.append(_sp_list("hist %dx%dx%d: process histories in one pristine process -- all %d ordered pairs of %d system "
                            "variants (cell volume / unit systems / environment map / state) x {coarsegrain_system x %d maps, "
                            "coarsegrain_grid, grid_to_graph}; %s x {coarsegrain_system%s, grid_to_graph}"
                            % (g + (len(pairs), len(V), len(maps), tname, " x 2 maps" if T else "")), "hist", cases))
    return out


def _net_spaces(T):
    """Network alphabet (reaction orders 0..3 in both directions) x cell volumes {1, 8, '0.3 µm3'} x units
    configurations {default, 2} x script units {default, nm/ms/pmol}: identity map vs plain run, and lumping maps."""
    import itertools
    out = []
    grids = [(3, 1, 1), (2, 2, 1)] + ([(2, 2, 2), (3, 2, 1)] if T else [])
    for g in grids:
        n = g[0] * g[1] * g[2]
        cases = []
        for envname, net, vol, u, su, rich in itertools.product(("uniform", "three"), range(len(NETS)),
                                                                range(len(NET_VOLS)), (0, 2), (0, 1), (0, 1)):
            S = NETS[net]["species"]
            cases.append({"sub": "ident", "grid": list(g), "env": env_map(envname, n),
                          "chem": chem_rich(S, n) if rich else [0] * (S * n), "nspecies": S, "units": u,
                          "net": net, "vol": vol, "sunits": su})
        out.append(_sp_list("ident-net %dx%dx%d: identity map vs plain Euler x %d networks (orders 0-3, both directions) x "
                            "cell volumes {1, 8, 0.3 µm3} x units configurations {0, 2} x script units {default, nm/ms/pmol} "
                            "x {uniform, 3 environments} x {no, rich} chemostats" % (g + (len(NETS),)),
                            "ident", cases, engine=True))
    lump = [((3, 1, 1), ("uniform",))] + ([((2, 2, 1), ("uniform", "two"))] if T else [])
    for g, envs in lump:
        n = g[0] * g[1] * g[2]
        cases = []
        for envname, net, vol, su in itertools.product(envs, range(len(NETS)), range(len(NET_VOLS)),
                                                       (0, 1) if T else (0,)):
            S = NETS[net]["species"]
            for m in itertools.product((0, 1, -1), repeat=n):
                cases.append({"sub": "simcg", "grid": list(g), "env": env_map(envname, n), "chem": chem_rich(S, n),
                              "nspecies": S, "units": 0, "net": net, "vol": vol, "sunits": su, "map": list(m)})
        out.append(_sp_list("simcg-net %dx%dx%d: Euler with cgmap, valid maps among {-1,0,1}^%d x %d networks x cell volumes "
                            "{1, 8, 0.3 µm3} x script units {%s} x environment maps %s"
                            % (g + (n, len(NETS), "default, nm/ms/pmol" if T else "default", "/".join(envs))),
                            "simcg", cases, engine=True))
    return out


def _script_spaces(T, seed=0):
    import itertools
    out = []
    grids = [((3, 2, 1), "three")] + ([((2, 2, 1), "two")] if T else [])
    for g, envname in grids:
        n = g[0] * g[1] * g[2]
        env = env_map(envname, n)
        base = {"sub": "script", "grid": list(g), "env": env, "chem": chem_rich(2, n), "nspecies": 2, "units": 0,
                "seed": 1234 + 1000 * int(seed)}
        maps = [list(range(n)), SCRIPT_MAPS[g]]
        reqs = (0, 1, 2) if T else (0, 1)
        cases = []
        for su, pol, iv, tm, rq, dt, ini in itertools.product(range(3), POLICIES, range(3), range(2), reqs, range(2),
                                                              ("auto", "none")):
            for mi, m in enumerate(maps):
                if mi == 1 and su != 0 and not T:
                    continue
                cases.append(dict(base, engine="euler", sunits=su, policy=pol, interval=iv, tmax=tm, req=rq, dt=dt,
                                  init=ini, map=m))
        out.append(_sp_list("script %dx%dx%d euler: 3 script unit systems x 4 sampling policies x 3 intervals x 2 t_max x %d "
                            "request lists x 2 time steps x init {auto, none} x {identity map%s}"
                            % (g + (len(reqs), ", non-trivial map" if T else "; non-trivial map for the default script units")),
                            "script", cases, engine=True))
        sus = (0, 1, 2) if T else (0, 1)
        cases = []
        for kind, su, pol, iv, tm, ini in itertools.product(("tauleap", "gillespie"), sus, POLICIES, range(3), range(2),
                                                            ("auto", "Poisson")):
            for m in maps:
                cases.append(dict(base, engine=kind, sunits=su, policy=pol, interval=iv, tmax=tm, req=0, dt=0,
                                  init=ini, map=m))
        out.append(_sp_list("script %dx%dx%d tauleap + gillespie (fixed seed): %d script unit systems x 4 sampling policies x "
                            "3 intervals x 2 t_max x init {auto, Poisson} x {identity, non-trivial map}" % (g + (len(sus),)),
                            "script", cases, engine=True))
    return out


def _spaces(tier, seed=0):
    T = tier == "thorough"
    E3N = ("uniform", "two", "three")
    sp = []
    # -- static: every map of {-1..m}^n ----------------------------------------------------------------------
    for n in (1, 2, 3, 4):
        sp.append(_sp("cg 1-D %d cell(s): all maps {-1..%d}^%d x 3 environment maps" % (n, n - 1, n),
                      "cg", (n, 1, 1), _labels(n - 1)))
    if T:
        sp.append(_sp("cg 1-D 5 cells: all maps {-1..4}^5 x 3 environment maps", "cg", (5, 1, 1), _labels(4)))
        sp.append(_sp("cg 1-D 6 cells: all maps {-1..3}^6 x {uniform, 3 environments}", "cg", (6, 1, 1), _labels(3),
                      envs=("uniform", "three")))
        sp.append(_sp("cg 1-D 6 cells: all maps {-1..5}^6, 2-environment map", "cg", (6, 1, 1), _labels(5),
                      envs=("two",)))
        sp.append(_sp("cg 2-D 2x2: all maps {-1..3}^4 x 3 environment maps", "cg", (2, 2, 1), _labels(3)))
        sp.append(_sp("cg 2-D 3x2: all maps {-1..2}^6 x 3 environment maps", "cg", (3, 2, 1), _labels(2)))
        sp.append(_sp("cg 2-D 2x3: all maps {-1..2}^6, 3-environment map", "cg", (2, 3, 1), _labels(2), envs=("three",)))
        sp.append(_sp("cg 2-D 3x3: all maps {-1,0,1}^9 x 3 environment maps", "cg", (3, 3, 1), _labels(1)))
        sp.append(_sp("cg 2-D 3x3: all maps {-1..2}^9, 2-environment map", "cg", (3, 3, 1), _labels(2),
                      envs=("two",)))
        sp.append(_sp("cg 3-D 2x2x2: all maps {-1..2}^8 x 3 environment maps", "cg", (2, 2, 2), _labels(2)))
    else:
        sp.append(_sp("cg 1-D 5 cells: all maps {-1..2}^5 x 3 environment maps", "cg", (5, 1, 1), _labels(2)))
        sp.append(_sp("cg 1-D 6 cells: all maps {-1,0,1}^6 x {uniform, 3 environments}", "cg", (6, 1, 1), _labels(1),
                      envs=("uniform", "three")))
        sp.append(_sp("cg 2-D 2x2: all maps {-1..3}^4 x 3 environment maps", "cg", (2, 2, 1), _labels(3)))
        sp.append(_sp("cg 2-D 3x2: all maps {-1,0,1}^6 x 3 environment maps", "cg", (3, 2, 1), _labels(1)))
        sp.append(_sp("cg 2-D 3x2: all maps {0,1,2}^6, uniform environment", "cg", (3, 2, 1), [0, 1, 2], envs=("uniform",)))
        sp.append(_sp("cg 2-D 2x3: all maps {-1,0,1}^6, 3-environment map", "cg", (2, 3, 1), _labels(1), envs=("three",)))
        sp.append(_sp("cg 2-D 3x3: all maps {0,1}^9, uniform environment", "cg", (3, 3, 1), [0, 1], envs=("uniform",)))
        sp.append(_sp("cg 3-D 2x2x2: all maps {0,1}^8 x 3 environment maps", "cg", (2, 2, 2), [0, 1]))
        sp.append(_sp("cg 3-D 2x2x2: all maps {-1,0}^8 x 3 environment maps", "cg", (2, 2, 2), _labels(0)))
        sp.append(_sp("cg 3-D 2x1x2: all maps {-1..3}^4 x 3 environment maps", "cg", (2, 1, 2), _labels(3)))
    # -- static: invalidity classes outside {-1..m}^n -----------------------------------------------------------
    for g in ((1, 1, 1), (2, 1, 1), (3, 1, 1), (4, 1, 1), (2, 2, 1)):
        n = g[0] * g[1] * g[2]
        sp.append(_sp("cg %dx%dx%d: all maps {-2,-1,0,1}^%d (entries below -1) x 3 environment maps" % (g + (n,)),
                      "cg", g, _labels(1, extra=(-2,))))
    for g in ((2, 1, 1), (3, 1, 1), (2, 2, 1)):
        n = g[0] * g[1] * g[2]
        for dl in (-1, 1):
            sp.append(_sp("cg %dx%dx%d: all maps {-1,0,1}^%d of the wrong length %d, uniform environment"
                          % (g + (n + dl, n + dl)), "cg", g, _labels(1), envs=("uniform",), maplen=n + dl))
    # -- static: all chemostat maps -----------------------------------------------------------------------------
    if T:
        sp.append(_sp("cg 1-D 3 cells, 2 species: all 64 chemostat maps x all maps {-1..2}^3 x 3 environment maps",
                      "cg", (3, 1, 1), _labels(2), chems="all", nspecies=2))
        sp.append(_sp("cg 2-D 2x2, 1 species: all 16 chemostat maps x all maps {-1..3}^4 x 3 environment maps",
                      "cg", (2, 2, 1), _labels(3), chems="all", nspecies=1))
    else:
        sp.append(_sp("cg 1-D 3 cells, 1 species: all 8 chemostat maps x all maps {-1..2}^3 x 3 environment maps",
                      "cg", (3, 1, 1), _labels(2), chems="all", nspecies=1))
        sp.append(_sp("cg 1-D 2 cells, 2 species: all 16 chemostat maps x all maps {-1,0,1}^2 x 3 environment maps",
                      "cg", (2, 1, 1), _labels(1), chems="all", nspecies=2))
    # -- static: other unit systems -----------------------------------------------------------------------------
    if T:
        sp.append(_sp("cg 2-D 2x2: all maps {-1..3}^4 x 3 environment maps x 2 non-default unit configurations",
                      "cg", (2, 2, 1), _labels(3), units=(1, 2)))
        sp.append(_sp("cg 1-D 4 cells: all maps {-1..3}^4 x 3 environment maps x 2 non-default unit configurations",
                      "cg", (4, 1, 1), _labels(3), units=(1, 2)))
        sp.append(_sp("cg 2-D 3x2: all maps {-1..2}^6 x 3 environment maps x 2 non-default unit configurations",
                      "cg", (3, 2, 1), _labels(2), units=(1, 2)))
        sp.append(_sp("cg 3-D 2x2x2: all maps {-1,0,1}^8, 3-environment map x 2 non-default unit configurations",
                      "cg", (2, 2, 2), _labels(1), envs=("three",), units=(1, 2)))
    else:
        sp.append(_sp("cg 2-D 2x2: all maps {-1..3}^4, 3-environment map x 2 non-default unit configurations",
                      "cg", (2, 2, 1), _labels(3), envs=("three",), units=(1, 2)))
        sp.append(_sp("cg 1-D 3 cells: all maps {-1..2}^3 x 3 environment maps x 2 non-default unit configurations",
                      "cg", (3, 1, 1), _labels(2), units=(1, 2)))
        sp.append(_sp("cg 3-D 2x2x2: all maps {-1,0}^8, 3-environment map x 2 non-default unit configurations",
                      "cg", (2, 2, 2), _labels(0), envs=("three",), units=(1, 2)))
    # -- uncoarsegrain_trajectory on hand-built coarse trajectories (valid maps of the enumerated set) ------------
    U2 = ("uniform", "two")
    if T:
        unc = [((3, 1, 1), 2, (0, 1), U2), ((4, 1, 1), 3, (0, 1), U2), ((2, 2, 1), 3, (0, 1), U2),
               ((3, 2, 1), 2, (0, 1), U2), ((2, 2, 2), 1, (0,), U2),
               ((5, 1, 1), 4, (0, 1), U2), ((3, 3, 1), 1, (0, 1), U2), ((2, 2, 2), 2, (0,), ("two",))]
    else:
        unc = [((3, 1, 1), 2, (0, 1), U2), ((4, 1, 1), 3, (0, 1), U2), ((2, 2, 1), 3, (0, 1), U2),
               ((3, 2, 1), 1, (0, 1), U2), ((2, 2, 2), 0, (0,), U2)]
    for g, mx, dus, envs in unc:
        n = g[0] * g[1] * g[2]
        sp.append(_sp("unc %dx%dx%d: valid maps among {-1..%d}^%d x environment maps %s x data in {%s}"
                      % (g + (mx, n, "/".join(envs), ", ".join(DATA_UNITS[k] for k in dus))), "unc", g, _labels(mx),
                      envs=envs, data_units=dus))
    # -- simulated coarse trajectories ---------------------------------------------------------------------------
    if T:
        simf = [((3, 1, 1), 2, E3N, "none+rich"), ((2, 2, 1), 3, E3N, "none+rich"), ((3, 2, 1), 1, E3N, "rich"),
                ((4, 1, 1), 3, E3N, "none+rich"), ((3, 2, 1), 2, E3N, "rich"), ((2, 2, 2), 1, ("two",), "rich")]
    else:
        simf = [((3, 1, 1), 2, E3N, "none+rich"), ((2, 2, 1), 3, ("two", "three"), "rich"),
                ((3, 2, 1), 1, ("two",), "rich")]
    for g, mx, envs, chems in simf:
        n = g[0] * g[1] * g[2]
        sp.append(_sp("simcg %dx%dx%d: Euler with cgmap, valid maps among {-1..%d}^%d x environment maps %s x chemostats {%s}"
                      % (g + (mx, n, "/".join(envs), chems)), "simcg", g, _labels(mx), envs=envs, chems=chems,
                      engine=True))
    if T:
        sp.append(_sp("simcg 2x2x1: Euler with cgmap, valid maps among {-1..3}^4 x 3 environment maps x 2 non-default unit configurations",
                      "simcg", (2, 2, 1), _labels(3), units=(1, 2), engine=True))
    else:
        sp.append(_sp("simcg 2x2x1: Euler with cgmap, valid maps among {-1..3}^4, 3-environment map x 2 non-default unit configurations",
                      "simcg", (2, 2, 1), _labels(3), envs=("three",), units=(1, 2), engine=True))
    # -- identity map ------------------------------------------------------------------------------------------
    grids = [(2, 1, 1), (3, 1, 1), (4, 1, 1), (5, 1, 1), (6, 1, 1), (2, 2, 1), (3, 2, 1), (2, 3, 1), (3, 3, 1),
             (2, 2, 2), (1, 1, 3), (1, 4, 1)]
    if T:
        grids += [(3, 2, 2), (4, 3, 1), (2, 3, 2), (3, 3, 2), (4, 4, 1), (7, 1, 1)]
    for g in grids:
        n = g[0] * g[1] * g[2]
        if n <= 9:
            sp.append(_sp("ident %dx%dx%d: identity map vs plain Euler x 3 environment maps x {no, rich} chemostats x 3 unit configurations"
                          % g, "ident", g, None, chems="none+rich", units=(0, 1, 2), engine=True))
        else:
            sp.append(_sp("ident %dx%dx%d: identity map vs plain Euler, uniform environment x {no, rich} chemostats x 3 unit configurations"
                          % g, "ident", g, None, envs=("uniform",), chems="none+rich", units=(0, 1, 2), engine=True))
    # -- process histories, script alphabet ---------------------------------------------------------------------
    # -- static: groups far beyond the small scope, with member / flagged-member counts around 2^8 (a narrow counter) ---
    big = []
    for g in ((16, 16, 1), (257, 1, 1), (32, 16, 1), (8, 8, 4)):
        n = g[0] * g[1] * g[2]
        halves = [0 if i < n // 2 else 1 for i in range(n)]
        for m in ([0] * n, halves, [0] * (n - 1) + [-1]):
            for chem in ([1] * n + [0] * n,                       # species 0 flagged everywhere, species 1 nowhere
                         [1] * (n - 1) + [0] + [0] * (n - 1) + [1],   # all but the last cell / only the last cell
                         chem_rich(2, n)):
                big.append({"sub": "cg", "grid": list(g), "env": [1] * n, "chem": list(chem), "nspecies": 2, "units": 0, "map": list(m)})
    sp.append(_sp_list("cg large groups: grids 16x16x1, 257x1x1, 32x16x1, 8x8x4 x {one group, two halves, one group + one dropped cell} x "
                       "3 chemostat maps (a species flagged in 255 / 256 / 257 / 512 members of a group, in one member, the rich map)", "cg", big))
    sp += _hist_spaces(T)
    sp += _script_spaces(T, seed)
    sp += _net_spaces(T)
    # -- fractional amounts -----------------------------------------------------------------------------------
    for sk in (1, 2, 3):
        nm = STATE_KINDS[sk]
        sp.append(_sp("cg-frac 1-D 3 cells, state = %s: all maps {-1..2}^3 x 3 environment maps x 3 unit configurations" % nm,
                      "cg", (3, 1, 1), _labels(2), units=(0, 1, 2), state=sk))
        if T:
            sp.append(_sp("cg-frac 2x2, state = %s: all maps {-1..3}^4 x 3 environment maps x 3 unit configurations" % nm,
                          "cg", (2, 2, 1), _labels(3), units=(0, 1, 2), state=sk))
            sp.append(_sp("cg-frac 3x2, state = %s: all maps {-1,0,1}^6 x 3 environment maps" % nm,
                          "cg", (3, 2, 1), _labels(1), state=sk))
            sp.append(_sp("cg-frac 2x2x2, state = %s: all maps {-1,0}^8 x 3 environment maps x unit configurations {0, 1}" % nm,
                          "cg", (2, 2, 2), _labels(0), units=(0, 1), state=sk))
        else:
            sp.append(_sp("cg-frac 2x2, state = %s: all maps {-1,0,1}^4 x 3 environment maps x unit configurations {0, 1}" % nm,
                          "cg", (2, 2, 1), _labels(1), units=(0, 1), state=sk))
        sp.append(_sp("simcg-frac 3x1x1, state = %s: Euler with cgmap, valid maps among {-1..2}^3, uniform environment" % nm,
                      "simcg", (3, 1, 1), _labels(2), envs=("uniform",), engine=True, state=sk))
        sp.append(_sp("ident-frac 2x2x1, state = %s: identity map vs plain Euler x 3 environment maps x unit configurations {0, 1}" % nm,
                      "ident", (2, 2, 1), None, chems="none+rich", units=(0, 1), engine=True, state=sk))
    sp.append(_sp("rep-frac 3x1x1, state = %s: 3 calls on the SAME objects, valid maps among {-1..2}^3 x {uniform, two}"
                  % STATE_KINDS[1], "rep", (3, 1, 1), _labels(2), envs=("uniform", "two"), state=1))
    # -- repeated calls on the same input objects --------------------------------------------------------------
    repf = [((3, 1, 1), 2, ("uniform", "two")), ((2, 2, 1), 3, ("uniform", "two"))]
    if T:
        repf += [((3, 2, 1), 2, ("uniform", "two")), ((2, 2, 2), 1, ("two",))]
    for g, mx, envs in repf:
        n = g[0] * g[1] * g[2]
        sp.append(_sp("rep %dx%dx%d: coarsegrain_system / coarsegrain_grid / grid_to_graph / uncoarsegrain_trajectory(_data) "
                      "called 3 times on the SAME objects, valid maps among {-1..%d}^%d x environment maps %s x units "
                      "configurations %s" % (g + (mx, n, "/".join(envs), "{0, 2}" if (T and n <= 4) else "{0}")), "rep", g,
                      _labels(mx), envs=envs, units=(0, 2) if (T and n <= 4) else (0,)))
    return sp


_SPACES = None
CHUNK = {"cg": 1500, "unc": 1500, "simcg": 400, "ident": 6, "hist": 12, "script": 16, "rep": 60}
INFO_COUNTS = ("multi_face_edges", "zero_distance_edges", "edges", "noncontiguous", "single_cell_groups",
               "multi_cell_groups", "mixed_flag_groups", "filtered", "filtered_zero_distance", "dynamic",
               "input_mutated", "invalid_steps", "times_random", "reference_failed", "samples", "mutated_system",
               "mutated_index_map", "mutated_coarse_trajectory")


_HIST_CACHE = {}      # per worker: summaries of single steps run in a pristine process


def _work(job):
    si_, lo, hi = job
    sp = _SPACES[si_]
    acc = core.Acc()
    sub = sp["sub"]
    cache = _HIST_CACHE if sub == "hist" else {}
    nt = 0
    for idx in range(lo, hi):
        case = decode(sp, idx)
        try:
            res, info = _EVAL[sub](case, cache)
        except Exception as e:
            res, info = [("C16:%s:unexpected-exception" % sub, "%s: %s" % (type(e).__name__, e))], {}
        tr = info.get("transitions", 0)
        acc.add(states=1 if (tr or sub == "cg") else 0, transitions=tr, traces=1 if tr else 0,
                evaluations=info.get("evaluations", 1))
        cls = info.get("class", "?")
        acc.count("%s:maps_%s" % (sub, "valid" if cls == "valid" else "invalid:" + cls))
        if "drop_detail" in info:
            acc.count("%s:valid:%s" % (sub, info["drop_detail"]))
        for k in INFO_COUNTS:
            if info.get(k):
                acc.count("%s:%s" % (sub, k), info[k])
        if sub == "cg":
            nontriv = cls != "valid" or info.get("multi_cell_groups", 0) > 0 or \
                info.get("drop_detail", "no-dropped-cells") != "no-dropped-cells"
        elif sub in ("unc", "rep"):
            nontriv = tr > 0 and (info.get("multi_cell_groups", 0) > 0 or
                                  info.get("drop_detail") != "no-dropped-cells")
        else:
            nontriv = bool(info.get("dynamic"))
        if nontriv:
            nt += 1
        for key, what in res:
            acc.violation(key, what, case)
        if idx in (0, sp["size"] // 2) and tr:
            acc.sample(case)
    acc.add(nontrivial=nt)
    packed = acc.pack()
    packed["enum"] = hi - lo
    return packed


def run(ctx):
    global _SPACES
    cg.selftest()
    _SPACES = _spaces(ctx.tier, ctx.seed)
    if any(sp["engine"] for sp in _SPACES):
        try:
            _engine()                   # build + load once in the parent; the forked workers inherit it
            for kind in ("tauleap", "gillespie"):
                _engine_of(kind)
        except _NoEngine as e:
            ctx.violation("C16:checker:engine-unavailable", str(e), {"sub": "ident"})
    # phase 1: the process-history family, on fresh workers that do nothing else (their zygotes are pristine: the
    # parent and these workers never coarse-grain anything in-process); phase 2: everything else.
    jobs1, jobs2 = [], []
    for i, sp in enumerate(_SPACES):
        for lo, hi in pool.chunks(sp["size"], CHUNK[sp["sub"]]):
            (jobs1 if sp["sub"] == "hist" else jobs2).append((i, lo, hi))
    res = pool.pmap(_work, jobs1, timeout=600) + pool.pmap(_work, jobs2, timeout=600)
    jobs = jobs1 + jobs2
    per = {}
    for job, r in zip(jobs, res):
        if isinstance(r, pool.Crash):
            sp = _SPACES[job[0]]
            site = "simulate_script" if sp["engine"] else "checker"
            ctx.violation("C16:%s:worker-%s" % (site, r.kind), r.detail,
                          {"sub": sp["sub"], "space": sp["name"], "first_case": decode(sp, job[1]),
                           "range": [job[1], job[2]]})
            continue
        core.merge(ctx, r)
        per[job[0]] = per.get(job[0], 0) + r["enum"]
    for i, sp in enumerate(_SPACES):
        ctx.subspace(sp["name"], sp["size"], per.get(i, 0), exhaustive=(per.get(i, 0) == sp["size"]))
    ctx.rule("every index map of each listed label set is enumerated in fixed order (mixed-radix index), classified "
             "by mc/ref/cg.classify and passed to the real coarsegrain_system / uncoarsegrain_trajectory / "
             "simulate_script; a static case is non-trivial when the map is invalid (rejection exercised) or merges "
             "cells or drops cells; an un-coarse-graining case when the map merges or drops cells; a simulation "
             "case when the trajectory changes between the first and the last sample; a process history when it "
             "contains two different system variants; cases are distinct tuples of the product")
    ctx.assume("reflecting boundaries only (periodic grids are documented as unsupported); index maps are Python "
               "lists of ints; SI scales of mc/ref/si.py; a trajectory is a function of (script, engine kind, seed) (C08): "
               "the cgmap run is compared with the coarse script simulated separately with the same seed")
    ctx.note("unit_configurations", [u["name"] for u in UNITS])
    ctx.note("environment_maps", {"uniform": "[1]*n", "two": E2, "three": E3})


def replay(case):
    return check_case(case)
