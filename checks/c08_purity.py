"""C08 — a trajectory is a pure function of (script, engine kind, seed).

E2 over driver schedules: every way of consuming the iteration sequence with iterate() / iterate_n(k) /
run(0) / run(1000) slices whose end is decided by the harness-owned clock (probe build) / run-to-completion,
and over process histories (what was simulated before, on which object, finalized or not, repetition).
Oracle: bit-identity (tobytes) with the baseline = the same script driven one iterate() at a time in a
pristine process; every driver call returns "not complete"; stored scripts (incl. a drawn seed) reproduce
their trajectory; Euler ignores the seed, stochastic engines do not.
"""
import itertools
import random

from mc import core, pool, models, eng, pristine
from mc import lifecycle as lc

core.setup_paths()

KINDS = [(e, g) for e in ("euler", "tauleap", "gillespie") for g in ("grid", "graph")]
POLICIES = ["on_t_sample", "on_iteration", "on_interval", "no_sampling"]
COST = {"I": 1, "N1": 1, "N2": 2, "N3": 3, "R0": 1, "R1": 1, "R2": 2, "R3": 3, "RU": 10 ** 6, "N0": 0, "O": 0}


def cost(op):
    """Iterations an operation is designed to consume (N<k> = iterate_n(k) for any k)."""
    if op in COST:
        return COST[op]
    if op[0] == "N":
        return int(op[1:])
    raise KeyError(op)


def script_spec(engine, gtype, policy, n, seed=11, variant=None):
    """variant: None | 'units' (non-default script units incl. a non-molecule quantity unit)
                     | 'redist' (real-valued initial state with an odd number of entries >= 100, default processing)"""
    sc = _script_spec(engine, gtype, policy, n, seed)
    if variant == "units":
        sc["units"] = ["µm", "s", "nmol"]
        sc["system"]["units"] = ["µm", "s", "molecule"]
    elif variant == "units2":
        # script units differing from the default in the space AND the time unit (the system keeps its own)
        sc["units"] = ["nm", "ms", "molecule"]
        sc["system"]["units"] = ["µm", "s", "molecule"]
    elif variant == "species-order":
        # the same network with its species listed in the opposite order (the PREVIOUS simulation uses the listed order)
        sy = sc["system"]
        n = len(sy["state"]) // 2
        sy["species"] = list(reversed(sy["species"]))
        sy["state"] = sy["state"][n:] + sy["state"][:n]
    elif variant == "denormal":
        # amounts at the bottom of the double range: gradual underflow must not depend on what ran before
        sc["system"]["state"] = [v * 1e-308 for v in sc["system"]["state"]]
        sc["isp"] = "none"
    elif variant == "bc":
        if sc["system"]["space"]["type"] == "grid":
            sc["system"]["space"]["bc"] = {"x": "periodical"}
    elif variant == "redist":
        st = sc["system"]["state"]
        # an odd number (3) of entries >= 100 (normal-approximation branch), spread over the cells of one species so
        # that the redistributed state really depends on the draws
        sc["system"]["state"] = [150.5, 120.25, 212.75, 0.0][:len(st)] if engine != "gillespie" else [150.5, 120.25, 212.75, 0.5][:len(st)]
        sc["isp"] = "auto"
        if engine == "gillespie":
            sc["t_max"] = 0.002
    return sc


def _script_spec(engine, gtype, policy, n, seed=11):
    space = ({"type": "grid", "w": 2, "h": 1, "d": 1, "vol": 1.0} if gtype == "grid" else
             {"type": "graph", "nodes": [{"vol": 1.0, "env": 0}, {"vol": 2.0, "env": 0}], "edges": [[0, 1, 1.5, 0.75]]})
    if engine == "gillespie":
        a = n - 1
        spec = {"species": [{"label": "A", "D": 0.0}, {"label": "B", "D": 0.0}],
                "reactions": [{"eq": [[["A", 1]], [["B", 1]]], "kf": 1.0, "kr": 0.0}], "envs": [""], "space": space,
                "state": [float(a - a // 2), float(a // 2), 0.0, 0.0]}
        sc = {"system": spec, "t_sample": [0, 0.05, 0.4], "t_max": 1e6, "policy": policy, "interval": 0.2, "seed": seed, "isp": "none"}
    else:
        spec = {"species": [{"label": "A", "D": 0.5}, {"label": "B", "D": 0.25}],
                "reactions": [{"eq": [[["A", 1]], [["B", 1]]], "kf": 0.8, "kr": 0.1}], "envs": [""], "space": space,
                "state": [9.0, 4.0, 6.0, 8.0]}
        sc = {"system": spec, "t_sample": [0, 0.3, 0.8], "time_step": 0.25, "t_max": (n - 1) * 0.25 + 0.1, "policy": policy,
              "interval": 0.4, "seed": seed, "isp": "none"}
    return sc


def schedules(n, ops=("I", "N1", "N2", "N3", "R0", "R1", "R2", "R3", "RU")):
    out = []

    def rec(r, acc):
        for op in ops:
            c = cost(op)
            if r - c <= 0:
                out.append(acc + [op])
            else:
                rec(r - c, acc + [op])
    rec(n, [])
    return out


def baseline(sc_json, engine):
    """Runs in a pristine process: one iterate() at a time, final sample(), output bytes."""
    import json
    script = models.build_script(json.loads(sc_json))
    e = eng.make_engine(engine)
    e.setup(script)
    n = 0
    while n < 10000:
        n += 1
        if not e.iterate():
            break
    o0 = e.get_output()           # what the sampling policy alone recorded
    pre = (o0.t.value.tobytes(), o0.data.value.tobytes())
    e.sample()
    o = e.get_output()
    e.finalize()
    return (o.t.value.tobytes(), o.data.value.tobytes(), n, pre)


_PROBE = {}
_PRIS = {}
_BASE = {}


def probe():
    import os
    p = _PROBE.get(os.getpid())
    if p is None:
        _PROBE.clear()
        try:
            p = eng.Probe()
            if not p.present:
                p = False
        except Exception:
            p = False
        _PROBE[os.getpid()] = p
    return p


def get_baseline(sc, engine):
    import json
    import os
    key = (json.dumps(sc, sort_keys=True), engine)
    if key in _BASE:
        return _BASE[key]
    z = _PRIS.get(os.getpid())
    if z is None:
        _PRIS.clear()
        z = pristine.Pristine()
        _PRIS[os.getpid()] = z
    res = z.call("checks.c08_purity", "baseline", key[0], engine)
    _BASE[key] = res
    return res


def drive(e, ops, pr, n, fixed_dt=None):
    """Apply a schedule; returns (list of (op, returned, consumed-or-None), output bytes)."""
    log = []
    done = 0
    for op in ops:
        before_t = eng.raw_time(e)
        before_u = pr.n_uniform() if pr else None
        if op == "I":
            r = e.iterate()
        elif op == "O":
            e.get_output()          # a look at the trajectory so far must not change what comes later
            r = True
        elif op[0] == "N":
            r = e.iterate_n(int(op[1:]))
        elif op == "R0":
            r = e.run(0)
        elif op == "RU":
            r = True
            k = 0
            while r and k < 100:
                r = e.run(1000)
                k += 1
        else:
            pr.clock_script(int(op[1]))
            r = e.run(1000)
            pr.clock_script(0)
        consumed = None
        if fixed_dt:
            consumed = int(round((eng.raw_time(e) - before_t) / fixed_dt))
        log.append((op, bool(r), consumed))
        if not r:
            break      # complete: how many iterations a run slice performs is not fixed by the statement, so a schedule
                       # may be used up early; the rest of it would act on a completed simulation (C10's subject)
    k = 0
    while r and k < 10000:      # ... or late: the iteration sequence is consumed to its end one step at a time
        r = e.iterate()
        k += 1
    if ops and ops[-1][0] == "R" or "O" in ops:
        o0 = e.get_output()     # the trajectory as the last driver call left it, before the explicit final sample
        drive.pre = (o0.t.value.tobytes(), o0.data.value.tobytes())
    else:
        drive.pre = None
    e.sample()
    o = e.get_output()
    return log, (o.t.value.tobytes(), o.data.value.tobytes())


def check_schedule(case):
    out = []
    case.pop("_ret_mismatch", None)
    engine, gtype, policy, n = case["engine"], case["gtype"], case["policy"], case["n"]
    sc = script_spec(engine, gtype, policy, n)
    dt = case.get("dt")
    if dt and engine != "gillespie":
        # a time step that is NOT a dyadic fraction: t0 + k*dt and k-fold addition of dt then differ in the last bit, so a
        # clock recomputed per driver call (per batch, per run slice) shows as schedule dependence
        sc["time_step"] = dt
        sc["t_sample"] = [0, 1.2 * dt, 3.2 * dt]
        sc["t_max"] = (n - 1) * dt + 0.4 * dt
        sc["interval"] = 1.6 * dt
    else:
        dt = 0.25
    base = get_baseline(sc, engine)
    if base[0] != "ok":
        return [("C08:baseline:%s" % base[0], str(base[1]))]
    bt, bd, bn, bpre = base[1]
    if bn != n:
        return [("C08:baseline:iterations", "the catalogue script completes after %d iterate() calls, designed for %d" % (bn, n))]
    ops = case["ops"]
    pr = probe()
    needs_clock = any(op in ("R1", "R2", "R3") for op in ops)
    if needs_clock and not pr:
        return []
    try:
        script = models.build_script(sc)
        e = pr.engine(engine) if pr else eng.make_engine(engine)
        if pr:
            pr.clear()
        e.setup(script)
        log, (t, d) = drive(e, ops, pr, n, fixed_dt=dt if engine != "gillespie" else None)
        e.finalize()
    except Exception as ex:
        return [("C08:schedule:unexpected-exception", "%s: %s" % (type(ex).__name__, ex))]
    remaining = n
    for op, r, consumed in log:
        c = cost(op)
        exp_consumed = min(c, remaining) if remaining > 0 else 0
        remaining_after = remaining - (consumed if (consumed is not None and op[0] == "R") else c)
        exp_ret = remaining_after > 0
        if remaining <= 0:
            exp_ret = False
        if op == "O":
            continue
        if consumed is not None and op[0] in "IN" and consumed != exp_consumed and remaining > 0:
            # iterate() is one iteration and iterate_n(k) a batch of k; the length of a wall-clock-bounded slice is not pinned
            out.append(("C08:schedule:%s:iterations-consumed" % op[0], "schedule %s: %s performed %d iterations, expected %d" % (ops, op, consumed, exp_consumed)))
            break
        if r != exp_ret:
            # the value a driver call returns is the completion status: that is C10's subject (the C08 statement only
            # fixes the trajectory); counted here, decided there
            case["_ret_mismatch"] = case.get("_ret_mismatch", 0) + 1
        remaining = remaining_after
    if drive.pre is not None and drive.pre != bpre:
        import numpy as np
        out.append(("C08:schedule:%s:trajectory-before-the-final-sample-differs-from-baseline" % engine,
                    "schedule %s (%s, %s, %s): times %r vs baseline %r" % (ops, engine, gtype, policy, np.frombuffer(drive.pre[0]).tolist()[:8], np.frombuffer(bpre[0]).tolist()[:8])))
    if t != bt or d != bd:
        import numpy as np
        out.append(("C08:schedule:%s:trajectory-differs-from-baseline" % engine,
                    "schedule %s (%s, %s, %s): times %r vs baseline %r" % (ops, engine, gtype, policy, np.frombuffer(t).tolist()[:8], np.frombuffer(bt).tolist()[:8])))
    return out


def run_plain(e, script, poll=False):
    e.setup(script)
    k = 0
    if poll:
        # the loop is driven by polling the completion status, in batches of 2 iterations
        while k < 10000 and not e.is_complete():
            e.iterate_n(2)
            k += 1
    else:
        while k < 10000 and e.iterate():
            k += 1
    e.sample()
    o = e.get_output()
    return (o.t.value.tobytes(), o.data.value.tobytes()), o


def check_history(case):
    """previous simulation (kind or none) -> this simulation, same/new object, previous finalized or not, x3."""
    out = []
    prev, this = case["prev"], tuple(case["this"])
    n = 4
    var = case.get("variant")
    # "units-after-default" / "default-after-units": the previous simulation (possibly on the same engine object) was
    # written in another units system than this one
    this_var = {"units-after-default": "units2", "default-after-units": None}.get(var, var)
    prev_var = {"units-after-default": None, "default-after-units": "units2"}.get(var, var)
    sc = script_spec(this[0], this[1], case["policy"], n, variant=this_var)
    base = get_baseline(sc, this[0])
    if base[0] != "ok":
        return [("C08:baseline:%s" % base[0], str(base[1]))]
    bt, bd, bn, bpre = base[1]
    try:
        script = models.build_script(sc)
        e_prev = None
        if prev is not None:
            prev = tuple(prev)
            psc = script_spec(prev[0], prev[1], "on_iteration", 3, seed=5, variant=prev_var)
            if case.get("variant") == "redist":
                psc["system"]["state"] = psc["system"]["state"][:2] + [3.25, 7.0]      # a different number of large entries
            if case.get("variant") == "bc" and psc["system"]["space"]["type"] == "grid":
                psc["system"]["space"]["bc"] = {}      # same grid dimensions, the other boundary setting
            if case.get("variant") == "species-order":
                psc = script_spec(prev[0], prev[1], "on_iteration", 3, seed=5)      # listed order [A, B]; this run uses [B, A]
            if case.get("variant") == "denormal":
                psc = script_spec(prev[0], prev[1], "on_iteration", 3, seed=5)      # an ordinary simulation before
            if case.get("variant") == "geometry":
                # same number of cells, other geometry: edge surface / distance and volumes of the PREVIOUS space differ
                psp = psc["system"]["space"]
                if psp["type"] == "graph":
                    psp["nodes"] = [{"vol": 3.0, "env": 0}, {"vol": 0.5, "env": 0}]
                    psp["edges"] = [[0, 1, 4.0, 0.25]]
                else:
                    psp["vol"] = 8.0
            e_prev = eng.make_engine(prev[0])
            run_plain(e_prev, models.build_script(psc))
            if case["finalize_prev"]:
                e_prev.finalize()
        if case["same_object"] and e_prev is not None:
            e = e_prev
        else:
            e = eng.make_engine(this[0])
        for rep in range(3):
            (t, d), o = run_plain(e, script, poll=(rep == 1))
            if t != bt or d != bd:
                out.append(("C08:history:trajectory-differs-from-baseline" + (":status-polling-loop" if rep == 1 else ""),
                            "previous %r (finalized %r, same object %r), repetition %d of %r: trajectory differs from the pristine-process baseline"
                            % (prev, case["finalize_prev"], case["same_object"], rep, this)))
                break
            if rep == 1:
                e.finalize()
        e.finalize()
    except Exception as ex:
        out.append(("C08:history:unexpected-exception", "%s: %s" % (type(ex).__name__, ex)))
    return out


CG_MAPS = {"pairs": [0, 0, 1, 1], "identity": [0, 1, 2, 3], "one-group+rest": [0, 0, 1, -1]}
CG_PREVS = [None, "cell-volume", "units", "environments", "dimensions", "map"]


def _cg_spec(engine, seed=11):
    """2x2x1 grid of two environments for the coarse-grained route (simulate_script with an index map)."""
    sc = _script_spec(engine, "grid", "on_t_sample", 4, seed)
    sy = sc["system"]
    sy["envs"] = ["a", "b"]
    sy["space"] = {"type": "grid", "w": 2, "h": 2, "d": 1, "vol": 1.0, "env": [0, 0, 1, 1]}
    if engine == "gillespie":
        sy["state"] = [3.0, 2.0, 1.0, 4.0, 0.0, 1.0, 0.0, 2.0]
    else:
        sy["state"] = [9.0, 4.0, 6.0, 8.0, 1.0, 0.0, 3.0, 5.0]
    return sc


def cg_baseline(sc_json, engine, cgmap_json):
    """Runs in a pristine process: the coarse-grained route once, output bytes."""
    import json
    from strengths.simulate import simulate_script
    script = models.build_script(json.loads(sc_json))
    o = simulate_script(script, eng.make_engine(engine), cgmap=json.loads(cgmap_json))
    return (o.t.value.tobytes(), o.data.value.tobytes())


def cg_history_run(sc_json, engine, cgmap_json, prev, mapname):
    """Runs in a pristine process (module-level state of the library untouched): the previous coarse-grained run, then the
    run under test twice; returns the two outputs."""
    import json
    from strengths.simulate import simulate_script
    sc = json.loads(sc_json)
    cgmap = json.loads(cgmap_json)
    if prev is not None:
        psc = _cg_spec(engine, seed=5)
        pmap = cgmap
        if prev == "cell-volume":
            psc["system"]["space"]["vol"] = 27.0
        elif prev == "units":
            psc["system"]["units"] = ["nm", "ms", "molecule"]
        elif prev == "environments":
            psc["system"]["space"]["env"] = [0, 0, 0, 0] if mapname != "identity" else [1, 0, 0, 1]
        elif prev == "dimensions":
            psc["system"]["space"].update({"w": 4, "h": 1})
        elif prev == "map":
            pmap = [0, 1, 2, 3] if mapname != "identity" else [0, 0, 1, 1]
        simulate_script(models.build_script(psc), eng.make_engine(engine), cgmap=list(pmap))
    res = []
    for rep in range(2):
        o = simulate_script(models.build_script(sc), eng.make_engine(engine), cgmap=list(cgmap))
        res.append((o.t.value.tobytes(), o.data.value.tobytes()))
    return res


def check_cg_history(case):
    """Coarse-grained runs: the same (script, index map) after an earlier coarse-grained run of a neighbouring description
    (same grid dimensions and map, another cell volume / units system / environment map / grid dimensions / index map).
    Each history runs in its own pristine process, so that it is the first user of whatever the library keeps at module
    level."""
    import json
    import os
    out = []
    engine = case["engine"]
    cgmap = CG_MAPS[case["map"]]
    sc = _cg_spec(engine)
    try:
        z = _PRIS.get(os.getpid())
        if z is None:
            _PRIS.clear()
            z = pristine.Pristine()
            _PRIS[os.getpid()] = z
        key = ("cg", json.dumps(sc, sort_keys=True), engine, json.dumps(cgmap))
        if key not in _BASE:
            _BASE[key] = z.call("checks.c08_purity", "cg_baseline", key[1], engine, key[3])
        base = _BASE[key]
        if base[0] != "ok":
            return [("C08:baseline:%s" % base[0], str(base[1]))]
        bt, bd = base[1]
        prev = case.get("prev")
        got = z.call("checks.c08_purity", "cg_history_run", key[1], engine, key[3], prev, case["map"])
        if got[0] != "ok":
            return [("C08:cg-history:%s:%s" % (engine, got[0]), str(got[1])[-800:])]
        for rep, (t, d) in enumerate(got[1]):
            if (t, d) != (bt, bd):
                out.append(("C08:cg-history:%s:trajectory-differs-from-baseline" % engine,
                            "coarse-grained run (map %r) after a coarse-grained run differing in %r, repetition %d: trajectory "
                            "differs from the pristine-process baseline" % (cgmap, prev, rep)))
                break
    except Exception as ex:
        out.append(("C08:cg-history:unexpected-exception", "%s: %s" % (type(ex).__name__, ex)))
    return out


def plain_history_run(prev_json, sc_json, engine):
    """Runs in a pristine process: optional previous simulations (a list of script descriptions), then the run under test."""
    import json
    from strengths.simulate import simulate_script
    for psc in (json.loads(prev_json) or []):
        simulate_script(models.build_script(psc), eng.make_engine(engine))
    o = simulate_script(models.build_script(json.loads(sc_json)), eng.make_engine(engine))
    return (o.t.value.tobytes(), o.data.value.tobytes())


# (system units, script units); the last two keep "molecule" on both sides: the only ones used with the stochastic engines
# (a state of a few units of a molar quantity is an astronomic number of molecules)
UNIT_PAIRS = [(["µm", "s", "molecule"], ["nm", "ms", "µmol"]), (["µm", "s", "molecule"], ["mm", "min", "mol"]),
              (["nm", "ms", "nmol"], ["µm", "s", "molecule"]), (["dm", "h", "mol"], ["nm", "µs", "molecule"]),
              (["µm", "s", "molecule"], ["nm", "ms", "molecule"]), (["mm", "min", "molecule"], ["µm", "s", "molecule"])]


def check_units_history(case):
    """A run whose script and system use different units systems, as the first simulation of a process and after simulations
    that needed the OPPOSITE conversions (system and script units exchanged) or the same ones: bit-identical."""
    import json
    import os
    out = []
    engine, gtype = case["engine"], case["gtype"]
    su, cu = UNIT_PAIRS[case["pair"]]
    try:
        sc = script_spec(engine, gtype, "on_t_sample", 4)
        sc["system"]["units"] = list(su)
        sc["units"] = list(cu)
        rev = script_spec(engine, gtype, "on_iteration", 3, seed=5)
        rev["system"]["units"] = list(cu)
        rev["units"] = list(su)
        prevs = {"opposite": [rev], "same": [sc], "opposite-then-same": [rev, sc]}[case["prev"]]
        z = _PRIS.get(os.getpid())
        if z is None:
            _PRIS.clear()
            z = pristine.Pristine()
            _PRIS[os.getpid()] = z
        key = ("plain", json.dumps(sc, sort_keys=True), engine)
        if key not in _BASE:
            _BASE[key] = z.call("checks.c08_purity", "plain_history_run", "null", key[1], engine)
        base = _BASE[key]
        if base[0] != "ok":
            return [("C08:baseline:%s" % base[0], str(base[1])[-600:])]
        got = z.call("checks.c08_purity", "plain_history_run", json.dumps(prevs), key[1], engine)
        if got[0] != "ok":
            return [("C08:units-history:%s:%s" % (engine, got[0]), str(got[1])[-800:])]
        if tuple(got[1]) != tuple(base[1]):
            out.append(("C08:units-history:%s:trajectory-differs-from-baseline" % engine,
                        "system units %r, script units %r on a %s after %s conversions earlier in the process: trajectory differs "
                        "from the one of a pristine process" % (su, cu, gtype, case["prev"])))
    except Exception as ex:
        out.append(("C08:units-history:unexpected-exception", "%s: %s" % (type(ex).__name__, ex)))
    return out


def check_seed(case):
    out = []
    engine, gtype, policy = case["engine"], case["gtype"], case["policy"]
    try:
        from strengths.simulate import simulate_script
        sc = script_spec(engine, gtype, policy, 5)
        sc.pop("seed")
        if case.get("real"):
            # real-valued amounts under the default processing mode: still nothing random for the deterministic engine
            sc["system"]["state"] = [v + 0.25 * (q + 1) for q, v in enumerate(sc["system"]["state"])]
            sc["isp"] = "auto"
        random.seed(case["pyseed"])
        script = models.build_script(sc)           # rng_seed=None: drawn from Python's generator
        # half of the cases never look at the seed before the run (a seed drawn lazily must still be the stored one)
        drawn = script.rng_seed if not case.get("unread") else None
        o1 = simulate_script(script, eng.make_engine(engine))
        if drawn is None:
            drawn = o1.script.rng_seed
            if drawn is None:
                out.append(("C08:seed:stored-seed-missing", "the script stored in the trajectory of a seedless run holds no seed"))
                return out
        if o1.script.rng_seed != drawn:
            out.append(("C08:seed:stored-seed", "script drew seed %r, trajectory stores %r" % (drawn, o1.script.rng_seed)))
        o2 = simulate_script(o1.script, eng.make_engine(engine))
        if o1.t.value.tobytes() != o2.t.value.tobytes() or o1.data.value.tobytes() != o2.data.value.tobytes():
            out.append(("C08:seed:stored-script-does-not-reproduce:%s" % engine, "drawn seed %r" % drawn))
        sc3 = dict(sc)
        sc3["seed"] = (drawn + 1) % (2 ** 31)
        o3 = simulate_script(models.build_script(sc3), eng.make_engine(engine))
        same = (o1.t.value.tobytes() == o3.t.value.tobytes() and o1.data.value.tobytes() == o3.data.value.tobytes())
        if engine == "euler" and not same:
            out.append(("C08:seed:euler-depends-on-seed", "seeds %r and %r give different deterministic trajectories" % (drawn, sc3["seed"])))
        case["_same"] = same
        # t=0 record in 'none' mode does not depend on the seed
        n0 = len(sc["system"]["state"])
        if o1.data.value[:n0].tobytes() != o3.data.value[:n0].tobytes() and policy != "no_sampling" and not (case.get("real") and engine != "euler"):
            out.append(("C08:seed:t0-record-depends-on-seed", ""))
    except Exception as ex:
        out.append(("C08:seed:unexpected-exception", "%s: %s" % (type(ex).__name__, ex)))
    return out


MUTATIONS = ["set_state", "set_chemostat", "state-array-item", "time_step", "t_sample", "seed", "none"]


def _mutate(script, how):
    sy = script.system
    if how == "set_state":
        sy.set_state(0, 0, 77.0)
    elif how == "set_chemostat":
        sy.set_chemostat(0, 0, True)
    elif how == "state-array-item":
        sy.state.value[1] = 55.0
    elif how == "time_step":
        script.time_step = script.time_step * 2 if hasattr(script.time_step, "__mul__") else script.time_step
    elif how == "t_sample":
        script.t_sample = [0, 0.1]
    elif how == "seed":
        script.rng_seed = (script.rng_seed or 0) + 12345


def check_stored(case):
    """The script stored in a trajectory reproduces it - also after the caller went on using (and editing in place)
    the script object it had passed in, and the caller's script is not affected by edits of the stored one."""
    out = []
    engine, gtype, policy, how, side = case["engine"], case["gtype"], case["policy"], case["mutation"], case["side"]
    try:
        from strengths.simulate import simulate_script
        sc = script_spec(engine, gtype, policy, 4)
        script = models.build_script(sc)
        o1 = simulate_script(script, eng.make_engine(engine))
        ref = (o1.t.value.tobytes(), o1.data.value.tobytes())
        if side == "trajectory-system-edited":
            sy = o1.system
            if how == "set_state":
                sy.set_state(0, 0, 77.0)
            elif how == "set_chemostat":
                sy.set_chemostat(0, 0, True)
            else:
                sy.state.value[1] = 55.0
            o2 = simulate_script(o1.script, eng.make_engine(engine))
            who = "the script stored in the trajectory, after the trajectory's system was edited in place (%s)" % how
        elif side == "caller-edited":
            _mutate(script, how)
            o2 = simulate_script(o1.script, eng.make_engine(engine))
            who = "the script stored in the trajectory, after the caller's script object was edited in place (%s)" % how
        else:
            _mutate(o1.script, how)
            o2 = simulate_script(script, eng.make_engine(engine))
            who = "the caller's script, after the script stored in the trajectory was edited in place (%s)" % how
        if (o2.t.value.tobytes(), o2.data.value.tobytes()) != ref:
            out.append(("C08:stored-script:%s:%s" % (side, how), "%s no longer reproduces the trajectory (%s, %s, %s)" % (who, engine, gtype, policy)))
        if (o1.t.value.tobytes(), o1.data.value.tobytes()) != ref:
            out.append(("C08:stored-script:%s:%s:trajectory-object-changed" % (side, how), "the first trajectory's own arrays changed"))
    except Exception as ex:
        out.append(("C08:stored-script:unexpected-exception", "%s: %s" % (type(ex).__name__, ex)))
    return out


WRAP_ORDERS = [["units_system", "time_step", "t_max", "sampling_policy", "rng_seed"],
               ["time_step", "t_max", "sampling_policy", "rng_seed", "units_system"],
               ["rng_seed", "t_max", "units_system", "time_step", "sampling_policy"]]


def check_wrapper(case):
    """simulate(system, t_sample, **keywords) is documented as building RDScript(system, t_sample, **keywords) and
    running it: the same script, hence the same trajectory, whatever the order the keywords are written in."""
    out = []
    engine, gtype, policy = case["engine"], case["gtype"], case["policy"]
    try:
        from strengths.simulate import simulate, simulate_script
        from strengths.rdscript import RDScript
        from mc import uq
        sc = script_spec(engine, gtype, policy, 4)
        system = models.build_system(sc["system"])
        us = uq.mk_sys(tuple(case["units"]))
        kw = {"units_system": us, "time_step": 0.25 if engine != "gillespie" else 1e-3, "t_max": sc["t_max"],
              "sampling_policy": policy, "rng_seed": 11}
        if case.get("isp"):
            kw["init_state_processing"] = case["isp"]
            system.state.value[:] = [v + 0.25 * (q + 1) for q, v in enumerate(system.state.value)]
        if case.get("after"):
            # an earlier call of the wrapper with other keywords must not leak into this one
            simulate(models.build_system(sc["system"]), [0, 0.1], engine=eng.make_engine(engine), time_step=0.05 if engine != "gillespie" else 1e-3,
                     init_state_processing=case["after"], sampling_policy="on_iteration", rng_seed=3)
        if policy == "on_interval":
            kw["sampling_interval"] = sc["interval"]
        ts = list(sc["t_sample"])
        ref = simulate_script(RDScript(system, ts, **kw), eng.make_engine(engine))
        rb = (ref.t.value.tobytes(), ref.data.value.tobytes())
        ordered = {k: kw[k] for k in WRAP_ORDERS[case["order"]] if k in kw}
        ordered.update({k: v for k, v in kw.items() if k not in ordered})
        got = simulate(system, ts, engine=eng.make_engine(engine), **ordered)
        if (got.t.value.tobytes(), got.data.value.tobytes()) != rb:
            import numpy as np
            out.append(("C08:wrapper:simulate-differs-from-simulate_script:%s" % engine,
                        "keywords %s, units %s (%s, %s, %s): simulate() sampled at %r, the script built from the same arguments at %r"
                        % (list(ordered), case["units"], engine, gtype, policy, got.t.value.tolist()[:6], ref.t.value.tolist()[:6])))
        if str(got.t.units) != str(ref.t.units) or str(got.data.units) != str(ref.data.units):
            out.append(("C08:wrapper:units-differ", "%s / %s vs %s / %s" % (got.t.units, got.data.units, ref.t.units, ref.data.units)))
    except Exception as ex:
        out.append(("C08:wrapper:unexpected-exception", "%s: %s" % (type(ex).__name__, ex)))
    return out


def check_edited(case):
    """A script object edited in place through documented setters (space geometry, species / reaction parameters) runs
    like the script written down directly with the edited values: same description, same seed, same trajectory."""
    out = []
    engine, gtype, what = case["engine"], case["gtype"], case["edit"]
    try:
        from strengths.simulate import simulate_script
        from strengths.units import UnitValue
        sc = script_spec(engine, gtype, "on_t_sample", 4)
        sc2 = __import__("json").loads(__import__("json").dumps(sc))
        script = models.build_script(sc)          # building the system already asked the space for its volumes once
        sp = script.system.space
        net = script.system.network
        # read-only look at what is about to be edited (observers must not pin what they return)
        sp.get_cell_vol_array()
        sp.get_cell_env_array()
        [(r.kf, r.kr, r.split()) for r in net.reactions]
        [sp_.D for sp_ in net.species]
        if gtype == "graph":
            [(e_.surface, e_.distance) for e_ in sp.edges]
            sp.get_neighbors(0)
        E = None
        if case.get("rerun"):
            # the script object has already been run once on the engine object that will run it again after the edit
            E = eng.make_engine(engine)
            simulate_script(script, E)
        if what == "volume":
            if gtype == "graph":
                sp.nodes[1].volume = 5.0
                sc2["system"]["space"]["nodes"][1]["vol"] = 5.0
            else:
                sp.cell_vol = 5.0
                sc2["system"]["space"]["vol"] = 5.0
        elif what == "edge":
            if gtype != "graph":
                return out
            sp.edges[0].surface = 3.0
            sp.edges[0].distance = 0.5
            sc2["system"]["space"]["edges"][0][2:] = [3.0, 0.5]
        elif what == "D":
            net.species[0].D = 2.0
            sc2["system"]["species"][0]["D"] = 2.0
        elif what == "kf":
            net.reactions[0].kf = 0.3
            sc2["system"]["reactions"][0]["kf"] = 0.3
        elif what == "time_step":
            script.time_step = 0.125
            sc2["time_step"] = 0.125
        elif what == "t_sample":
            ts = [0, 0.02, 0.3] if engine == "gillespie" else [0, 0.2, 0.6]
            script.t_sample = list(ts)
            sc2["t_sample"] = list(ts)
        elif what == "state":
            script.system.set_state(0, 0, 5.0)
            sc2["system"]["state"][0] = 5.0
        elif what == "callers-system":
            # the script was built FROM a system object the caller keeps using: editing that object afterwards must not
            # reach the script (sc2 stays the original description)
            sysobj = models.build_system(sc["system"])
            script = models.build_script(sc, system=sysobj)
            sysobj.set_state(0, 0, 77.0)
            sysobj.set_chemostat(1, 1, True)
        direct = models.build_script(sc2)
        if what in ("volume",):
            # the state was given explicitly, so only the geometry differs between the two descriptions
            pass
        a = simulate_script(script, E if E is not None else eng.make_engine(engine))
        b = simulate_script(direct, eng.make_engine(engine))
        if (a.t.value.tobytes(), a.data.value.tobytes()) != (b.t.value.tobytes(), b.data.value.tobytes()):
            out.append(("C08:edited-script:%s%s:%s" % (what, ":rerun-on-the-same-engine-object" if E is not None else "", engine),
                        "%s %s: the script edited in place (%s) and the script written directly with the edited value give different trajectories"
                        % (engine, gtype, what)))
    except Exception as ex:
        out.append(("C08:edited-script:unexpected-exception", "%s: %s" % (type(ex).__name__, ex)))
    return out


def check_given_seed(case):
    """An explicitly given seed is kept, and the script built twice from the same description gives the same trajectory."""
    out = []
    engine, gtype = case["engine"], case["gtype"]
    try:
        res = []
        for rep in range(2):
            sc = script_spec(engine, gtype, "on_iteration", 4, seed=case["given_seed"], variant="redist")
            script = models.build_script(sc)
            if script.rng_seed != case["given_seed"]:
                out.append(("C08:seed:given-seed-not-kept", "rng_seed=%r became %r" % (case["given_seed"], script.rng_seed)))
                return out
            if case.get("cgmap"):
                from strengths.simulate import simulate_script
                ncell = len(sc["system"]["state"]) // 2
                o = simulate_script(script, eng.make_engine(engine), cgmap=list(range(ncell)))
                t, d = o.t.value.tobytes(), o.data.value.tobytes()
            else:
                (t, d), o = run_plain(eng.make_engine(engine), script)
            res.append((t, d))
        if res[0] != res[1]:
            out.append(("C08:seed:same-description-same-seed-different-trajectory:%s" % engine, "seed %r" % case["given_seed"]))
    except Exception as ex:
        out.append(("C08:seed:unexpected-exception", "%s: %s" % (type(ex).__name__, ex)))
    return out


def check_case(case):
    case = dict(case)
    if case["sub"] == "given-seed":
        return check_given_seed(case)
    if case["sub"] in ("schedule", "n0"):
        return check_schedule(case)
    if case["sub"] == "history":
        return check_history(case)
    if case["sub"] == "stored":
        return check_stored(case)
    if case["sub"] == "wrapper":
        return check_wrapper(case)
    if case["sub"] == "edited":
        return check_edited(case)
    if case["sub"] == "cg-history":
        return check_cg_history(case)
    if case["sub"] == "units-history":
        return check_units_history(case)
    return check_seed(case)


_CASES = None


def _work(job):
    lo, hi = job
    acc = core.Acc()
    for case in _CASES[lo:hi]:
        c = dict(case)
        lc.announce("%s %r" % (c["sub"], {k: v for k, v in c.items() if k != "sub"}))
        res = check_seed(c) if c["sub"] == "seed" else check_case(c)
        nops = len(c.get("ops", [])) if c["sub"] in ("schedule", "n0") else 4
        acc.add(states=1, transitions=nops, traces=1, evaluations=1, nontrivial=1 if nops > 1 else 0)
        acc.count("cases:" + c["sub"])
        if c["sub"] == "seed" and c["engine"] != "euler":
            acc.count("stochastic_seed_pairs")
            if c.get("_same") is False:
                acc.count("stochastic_seed_pairs_with_different_data")
        if c.get("_ret_mismatch"):
            acc.count("driver_return_values_not_matching_completion(decided by C10)", c["_ret_mismatch"])
        if c["sub"] == "schedule" and any(op in ("R1", "R2", "R3") for op in c["ops"]):
            acc.count("schedules_with_clock_scripted_run_slices")
        for key, what in res:
            acc.violation(key, what, case)
    acc.count("probe_blind", 0 if probe() else 1)
    if lo == 0:
        acc.sample(_CASES[min(len(_CASES) - 1, 300)])
    return acc.pack()


def gen_cases(tier, seed0):
    n = 4 if tier == "quick" else 5
    sch = schedules(n)
    cases = []
    scripts = [(e, g, p) for (e, g) in KINDS for p in POLICIES]
    if tier == "quick":
        scripts = [s for i, s in enumerate(scripts) if i % 2 == (i // 8) % 2]     # 12 of 24, every engine/space/policy covered
    for (e, g, p) in scripts:
        for ops in sch:
            cases.append({"sub": "schedule", "engine": e, "gtype": g, "policy": p, "n": n, "ops": ops})
    # the same schedules with a non-dyadic time step (0.1) on the fixed-step engines
    # (7 iterations: for fewer, k-fold addition, k*dt and t0 + j*dt coincide for every partition and every step tried)
    nd = []
    sch_nd = schedules(7, ops=("I", "N2", "N3", "N5"))
    for (e, g) in KINDS:
        if e == "gillespie":
            continue
        for p in POLICIES:
            if p == "no_sampling" and tier == "quick":
                continue
            for dtv in (0.1, 0.3):
                for ops in sch_nd:
                    nd.append({"sub": "schedule", "engine": e, "gtype": g, "policy": p, "n": 7, "ops": ops, "dt": dtv})
    cases += nd
    nsch = len(sch)
    n7 = []
    if tier == "thorough":
        sch7 = schedules(7)
        for (e, g, p) in [("euler", "grid", "on_t_sample"), ("gillespie", "graph", "on_interval"), ("tauleap", "grid", "on_iteration")]:
            for ops in sch7:
                n7.append({"sub": "schedule", "engine": e, "gtype": g, "policy": p, "n": 7, "ops": ops})
        cases += n7
    # iterate_n(0): before, between and after completion
    s2 = schedules(2)
    n0 = []
    for (e, g) in KINDS:
        for ops in s2:
            for pos in range(len(ops) + 1):
                n0.append({"sub": "n0", "engine": e, "gtype": g, "policy": "on_iteration", "n": 2, "ops": ops[:pos] + ["N0"] + ops[pos:]})
    cases += n0
    # get_output() inserted at every position of every schedule of a 3-iteration run (incl. before run slices)
    s3 = schedules(3, ops=("I", "N2", "R0", "RU"))
    peek = []
    for (e, g) in KINDS:
        for ops in s3:
            for pos in range(1, len(ops) + 1):
                peek.append({"sub": "n0", "engine": e, "gtype": g, "policy": "on_iteration", "n": 3, "ops": ops[:pos] + ["O"] + ops[pos:]})
    cases += peek
    # large batches: iterate_n(k) is a batch of exactly k iterations also for k in the thousands
    big = []
    for (e, g) in [k for k in KINDS if k[0] != "gillespie"]:
        for ops in (["N999", "N1", "N1000", "N1001"], ["N1001", "N2000"], ["N2500", "I", "N500"], ["I", "N3000"], ["N1500", "N1500"]):
            big.append({"sub": "schedule", "engine": e, "gtype": g, "policy": "on_t_sample", "n": 3001, "ops": ops})
            big.append({"sub": "schedule", "engine": e, "gtype": g, "policy": "on_t_sample", "n": 3001, "ops": ops, "dt": 0.1})
    cases += big
    hist = []
    for prev in [None] + [list(k) for k in KINDS]:
        for this in KINDS:
            for same in (False, True):
                if same and (prev is None or prev[0] != this[0]):
                    continue
                for fin in (True, False):
                    if prev is None and not fin:
                        continue
                    for pol in (("on_t_sample", "on_iteration") if tier == "thorough" else ("on_t_sample",)):
                        for var in (None, "units", "redist", "bc", "species-order", "denormal", "geometry", "units-after-default", "default-after-units"):
                            if var == "denormal" and this[0] != "euler":
                                continue
                            if var in ("units-after-default", "default-after-units") and prev is None:
                                continue
                            c = {"sub": "history", "prev": prev, "this": list(this), "same_object": same, "finalize_prev": fin, "policy": pol}
                            if var:
                                c["variant"] = var
                            hist.append(c)
    cases += hist
    seeds = []
    for (e, g) in KINDS:
        for p in POLICIES:
            for r in range(1000 * seed0, 1000 * seed0 + (2 if tier == "quick" else 8)):
                seeds.append({"sub": "seed", "engine": e, "gtype": g, "policy": p, "pyseed": r, "unread": bool((r + len(seeds)) % 2)})
                if p in ("on_t_sample", "on_iteration"):
                    seeds.append({"sub": "seed", "engine": e, "gtype": g, "policy": p, "pyseed": r, "real": True})
    cases += seeds
    given = []
    for (e, g) in KINDS:
        for sd in (0, 1, 2 ** 31 - 1, 2 ** 31, 2 ** 32 - 1):
            given.append({"sub": "given-seed", "engine": e, "gtype": g, "given_seed": sd})
            if g == "grid":
                given.append({"sub": "given-seed", "engine": e, "gtype": g, "given_seed": sd, "cgmap": True})
    cases += given
    stored = []
    for (e, g) in KINDS:
        for p in (POLICIES if tier == "thorough" else POLICIES[:2]):
            for how in MUTATIONS:
                for side in ("caller-edited", "stored-edited"):
                    stored.append({"sub": "stored", "engine": e, "gtype": g, "policy": p, "mutation": how, "side": side})
                if how in ("set_state", "set_chemostat", "state-array-item"):
                    stored.append({"sub": "stored", "engine": e, "gtype": g, "policy": p, "mutation": how, "side": "trajectory-system-edited"})
    cases += stored
    edited = [{"sub": "edited", "engine": e, "gtype": g, "edit": w} for (e, g) in KINDS for w in ("volume", "edge", "D", "kf", "callers-system")
              if not (w == "edge" and g != "graph")]
    edited += [{"sub": "edited", "engine": e, "gtype": g, "edit": w, "rerun": rr} for (e, g) in KINDS
               for w in ("time_step", "t_sample", "state", "D", "kf", "volume") for rr in (False, True)
               if not (w == "time_step" and e == "gillespie") and not (rr is False and w in ("D", "kf", "volume"))]
    cases += edited
    wrap = []
    for (e, g) in KINDS:
        for p in POLICIES[:3]:
            for us3 in (["µm", "s", "molecule"], ["µm", "ms", "molecule"], ["nm", "min", "nmol"]):
                for o in range(len(WRAP_ORDERS)):
                    wrap.append({"sub": "wrapper", "engine": e, "gtype": g, "policy": p, "units": us3, "order": o})
        for isp in ("none", "Poisson", "redist", "auto"):
            wrap.append({"sub": "wrapper", "engine": e, "gtype": g, "policy": "on_t_sample", "units": ["µm", "s", "molecule"], "order": 0, "isp": isp})
        for after in ("Poisson", "none"):
            wrap.append({"sub": "wrapper", "engine": e, "gtype": g, "policy": "on_t_sample", "units": ["µm", "s", "molecule"], "order": 1, "after": after,
                         "isp": None})
    cases += wrap
    cgh = [{"sub": "cg-history", "engine": e, "map": m, "prev": pv} for e in ("euler", "tauleap", "gillespie") for m in CG_MAPS for pv in CG_PREVS]
    cases += cgh
    uh = [{"sub": "units-history", "engine": e, "gtype": g, "pair": pi, "prev": pv} for (e, g) in KINDS for pi in range(len(UNIT_PAIRS))
          for pv in ("opposite", "same", "opposite-then-same") if e == "euler" or pi >= 4]
    cases += uh
    sizes = [("driver schedules: all %d ways to consume a %d-iteration run with iterate / iterate_n(1..3) / run(0) / clock-scripted "
              "run slices of 1..3 iterations / run-to-completion x %d scripts (engines x space types x policies)" % (nsch, n, len(scripts)),
              nsch * len(scripts)),
             ("non-dyadic time steps {0.1, 0.3} (k-fold addition, k*dt and t0 + j*dt differ in the last bit from the 5th step on): all %d ways to consume a 7-iteration run with iterate / iterate_n(2, 3, 5) x 4 fixed-step kinds x policies" % len(sch_nd), len(nd)),
             ("driver schedules of a 7-iteration run (%d each) x 3 scripts" % (len(n7) // 3 if n7 else 0), len(n7)),
             ("iterate_n(0) inserted at every position of every schedule of a 2-iteration run x 6 kinds", len(n0)),
             ("large batches: 5 schedules of iterate_n(k) with k up to 3000 on a 3001-iteration run x 4 fixed-step kinds x time steps {0.25, 0.1}: each batch advances exactly k steps", len(big)),
             ("get_output() inserted at every later position of every schedule (iterate / iterate_n(2) / run(0) / run-to-completion) of a 3-iteration run x 6 kinds", len(peek)),
             ("process histories: (previous kind or none) x this kind x same/new object x previous finalized or not x {default, non-default output units, redistributed real-valued state, other boundary setting, species order, denormal amounts, other geometry, previous script in another units system (both directions)}, 3 repetitions of the same script object", len(hist)),
             ("seeds: rng_seed=None drawn under random.seed(r), stored script reproduces, neighbour seed differs (stochastic) / "
              "does not (Euler): 24 scripts x seed window", len(seeds)),
             ("explicitly given seeds {0, 1, 2^31-1, 2^31, 2^32-1} x 6 kinds: seed kept, same description twice => same trajectory", len(given)),
             ("stored scripts: 6 kinds x policies x 7 in-place edits (system state / chemostat / raw array item / time step / request list / seed / none) of "
              "{the caller's script, the stored script} after the run: the other one still reproduces the trajectory", len(stored)),
             ("scripts edited in place before the run (cell / node volume, edge surface and distance, D, kf, time step, request list, state; also after a first run of the same script object on the same engine object) vs the same script written directly: 6 kinds", len(edited)),
             ("simulate() wrapper: 6 kinds x 3 policies x 3 units systems x 3 keyword orders (bare numbers): same trajectory as "
              "simulate_script(RDScript(same arguments))", len(wrap)),
             ("coarse-grained route histories: 3 engines x 3 index maps (pairs / identity / one group + unmapped cell) on a 2x2x1 grid x "
              "(no previous run | previous coarse-grained run with another cell volume / units system / environment map / grid "
              "dimensions / index map), 2 repetitions: same trajectory as in a pristine process", len(cgh)),
             ("units histories: (Euler x 6 | stochastic engines x 2 molecule-only) (system units, script units) pairs x 2 space types x (earlier runs needing the opposite conversions / the "
              "same / both), each history in its own pristine process: same trajectory as the first run of a process", len(uh))]
    return cases, sizes


def run(ctx):
    global _CASES
    _CASES, sizes = gen_cases(ctx.tier, ctx.seed)
    eng.so_path("plain")
    so, err = __import__("mc.build", fromlist=["x"]).try_build("probe")
    ctx.note("probe", "on" if so else "blind (clock-scripted slices skipped): " + (err or "")[-300:])
    done = 0
    for job, r in pool.pmap_split(_work, len(_CASES), 60, timeout=120, single_timeout=30):
        if isinstance(r, pool.Crash) and r.kind == "skipped":
            ctx.exhaustive = False
            continue
        if isinstance(r, pool.Crash):
            c = _CASES[job[0]]
            ctx.violation("C08:%s:engine-%s" % (c["sub"], r.kind), r.detail[-1500:], c)
            done += 1
            continue
        core.merge(ctx, r)
        done += job[1] - job[0]
    ex = done == len(_CASES)
    for name, sz in sizes:
        if sz:
            ctx.subspace(name, sz, sz if ex else 0, exhaustive=ex)
    c = ctx.counters
    if c.get("stochastic_seed_pairs", 0) and not c.get("stochastic_seed_pairs_with_different_data", 0):
        ctx.violation("C08:seed:stochastic-result-independent-of-seed",
                      "no stochastic script of the catalogue changed when its seed changed", {"sub": "seed-summary"})
    ctx.rule("states = distinct (script, schedule) / history / seed cases; transitions = driver calls; every trajectory is compared "
             "bit-for-bit with the baseline of the same script run one iterate() at a time in a pristine process; non-trivial = "
             "schedules with more than one driver call, all histories and seed cases")
    ctx.assume("the wall clock of run(ms) is owned through the probe build (std::chrono::system_clock interposed); run-to-completion "
               "is driven as `while run(1000)` like simulate_script does")


def replay(case):
    if case.get("sub") == "seed-summary":
        return []
    return check_case(case)
