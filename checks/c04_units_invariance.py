"""C04 — physical results do not depend on the units used to state or report them.

E1 over the unit-system lattice (36 systems quick, all 11x10x10 = 1100 thorough) x declaration levels
(system, network, space, species, reaction, graph node, graph edge, explicit unit strings inside a foreign
declaration, script/output units).  Metamorphic oracle: the description re-expressed in unit system U (bare
numbers multiplied by the exact rational factor, "units": U declared at the level) must build — through the
real dictionary readers — a system with the same physical parameters and state (SI), the same rate of
change and the same Euler trajectory as the base description in default units.
"""
from fractions import Fraction as F

from mc import core, pool, uq, eng
from mc.ref import si

core.setup_paths()
from strengths.rdsystem import rdsystem_from_dict  # noqa: E402
from strengths.rdscript import rdscript_from_dict, RDScript  # noqa: E402
from strengths import kinetics  # noqa: E402
from strengths.units import UnitValue, UnitArray  # noqa: E402

TOL = 1e-9
D = si.DEFAULT
DIM = {"D": (2, -1, 0), "density": (-3, 0, 1), "vol": (3, 0, 0), "sfc": (2, 0, 0), "dst": (1, 0, 0), "amount": (0, 0, 1),
       "time": (0, 1, 0)}


UKEYS = ["units", "units_system", "units system", "u"]     # documented spellings of the units declaration


def kdim(order):
    return (3 * order - 3, -1, 1 - order)


# base description in default units (µm, s, molecule): plain numbers
BASE = {
    "envs": ["a", "b"],
    "species": [
        {"label": "A", "D": {"a": 1.5, "b": 0.5}, "density": {"a": 2.0, "default": 0.5}},
        {"label": "B", "D": 0.75, "density": 1.25},
        {"label": "C", "D": {"a": 0.0, "b": 0.25}, "density": 0.0},
    ],
    "reactions": [
        {"eq": "-> A", "orders": (0, 1), "kf": 0.7, "kr": 0.2},
        {"eq": "A -> B", "orders": (1, 1), "kf": {"a": 0.9, "b": 0.3}, "kr": 0.1},
        {"eq": "A + B -> C", "orders": (2, 1), "kf": 0.04, "kr": {"b": 0.6}},
        {"eq": "2 A + B -> C", "orders": (3, 1), "kf": 0.002, "kr": 0.05},
    ],
    "grid": {"w": 3, "h": 1, "d": 1, "env": [0, 1, 0], "vol": 1.5, "bc": {"x": "periodical"}},
    "graph": {"nodes": [(1.0, 0), (8.0, 1), (0.5, 0)], "edges": [(0, 1, 1.5, 0.75), (2, 1, 2.5, 1.25)]},
    "state": [5.0, 3.0, 7.0, 2.0, 11.0, 4.0, 1.0, 0.0, 6.0],
}
DT = 2.0 ** -6
NSTEPS = 4


def fac(U, dim):
    return si.to_float(si.factor(D, U, dim))


def num(v, U, dim, explicit, mixed=None):
    """bare number in U, or an explicit 'value unit' string in U.  `mixed` (per-environment dictionaries only): the entries
    of ONE dictionary are written in different units -- "all-explicit": entry k is an explicit string in rot(U, k);
    "bare+explicit": the first entry is a bare number in U, entry k >= 1 an explicit string in rot(U, k + 1) (the documented mix
    of numbers and "value units" strings in one dictionary)."""
    def one(x, V=U, expl=explicit):
        y = x * fac(V, dim)
        return "%r %s" % (y, si.units_string(V, dim)) if expl else y
    if isinstance(v, dict):
        if mixed == "all-explicit":
            return {k: one(x, rot(U, i), True) for i, (k, x) in enumerate(v.items())}
        if mixed == "bare+explicit":
            return {k: (one(x, U, False) if i == 0 else one(x, rot(U, i + 1), True)) for i, (k, x) in enumerate(v.items())}
        return {k: one(x) for k, x in v.items()}
    return one(v)


def rot(U, k=1):
    """another unit system, used for 'surrounding' declarations that must not matter."""
    S, T, Q = list(si.SPACE), list(si.TIME), list(si.QUANTITY)
    return (S[(S.index(U[0]) + 3 * k) % len(S)], T[(T.index(U[1]) + 2 * k) % len(T)], Q[(Q.index(U[2]) + 4 * k) % len(Q)])


KINDS = ("space", "time", "quantity")


def partial_dict(X, missing):
    """Units dictionary of system X without the keys listed in `missing` whose unit is the documented default of that key
    (json_and_dict_doc.rst, "Units system": "space" default "µm", "time" default "s", "quantity" default "molecule")."""
    return {k: X[i] for i, k in enumerate(KINDS) if not (k in missing and X[i] == D[i])}


def build_dict(gtype, level, U, default_state=False, missing=(), hist=False):
    """System dictionary physically equal to BASE, with U declared at `level`.  `missing`: keys left out of the emitted
    units dictionaries where the unit is the default one; `hist`: a level without a declaration of its own says
    "units": "default" (documented: 'Apply the default unit system') instead of spelling the default dictionary."""
    U = tuple(U)

    def sysdict(X):
        return partial_dict(tuple(X), missing) if missing else uq.sysdict(X)
    ud = sysdict(U)
    explicit = (level in ("explicit", "explicit-mixed"))
    mixed = {"explicit-mixed": "all-explicit", "species-mixed": "bare+explicit"}.get(level)
    # unit system governing each part
    g = {"system": D, "network": D, "space": D, "species": [D, D, D], "reaction": [D, D, D, D], "node": [D, D, D], "edge": [D, D]}
    decl = {}
    if level == "system":
        for k in g:
            g[k] = U if not isinstance(g[k], list) else [U] * len(g[k])
        decl["system"] = ud
    elif level == "network":
        g["network"] = U
        g["species"] = [U] * 3
        g["reaction"] = [U] * 4
        decl["network"] = ud
    elif level == "space":
        g["space"] = U
        g["node"] = [U] * 3
        g["edge"] = [U] * 2
        decl["space"] = ud
    elif level in ("species", "species-mixed"):
        g["species"] = [U, rot(U), D]
    elif level == "reaction":
        g["reaction"] = [U, D, rot(U), U]
    elif level == "node":
        g["node"] = [U, D, rot(U)]
    elif level == "edge":
        g["edge"] = [rot(U), U]
    elif explicit:
        # every number is an explicit quantity in U (explicit-mixed: the entries of a per-environment dictionary in U, rot(U), ...); the declarations around it are another system
        W = rot(U, 2)
        for k in g:
            g[k] = U if not isinstance(g[k], list) else [U] * len(g[k])
        decl = {"system": sysdict(W), "network": sysdict(rot(W)), "space": sysdict(rot(W, 2))}
    sp = []
    for i, s in enumerate(BASE["species"]):
        d = {"label": s["label"], "D": num(s["D"], g["species"][i], DIM["D"], explicit, mixed),
             "density": num(s["density"], g["species"][i], DIM["density"], explicit, mixed)}
        if level in ("species", "species-mixed") and (g["species"][i] != D or (hist and U == D and i == 0)):
            d[UKEYS[i % 4]] = sysdict(g["species"][i])
        sp.append(d)
    rx = []
    for i, r in enumerate(BASE["reactions"]):
        rmixed = mixed if level == "explicit-mixed" else None
        d = {"eq": r["eq"], "k+": num(r["kf"], g["reaction"][i], kdim(r["orders"][0]), explicit, rmixed),
             "k-": num(r["kr"], g["reaction"][i], kdim(r["orders"][1]), explicit, rmixed)}
        if level == "reaction" and (g["reaction"][i] != D or (hist and U == D and i in (0, 3))):
            d[UKEYS[(i + 1) % 4]] = sysdict(g["reaction"][i])
        rx.append(d)
    net = {"species": sp, "reactions": rx, "environments": list(BASE["envs"])}
    if "network" in decl:
        net["units"] = decl["network"]
    if gtype in ("grid", "gridr"):
        b = BASE["grid"]
        space = {"type": "grid", "w": b["w"], "h": b["h"], "d": b["d"], "cell_env": list(b["env"]),
                 "cell_volume": num(b["vol"], g["space"], DIM["vol"], explicit),
                 "boundary_conditions": dict(b["bc"]) if gtype == "grid" else {}}
    else:
        b = BASE["graph"]
        nodes = []
        for i, (v, e) in enumerate(b["nodes"]):
            d = {"volume": num(v, g["node"][i], DIM["vol"], explicit), "environment": e}
            if level == "node" and g["node"][i] != D:
                d[UKEYS[(i + 2) % 4]] = sysdict(g["node"][i])
            nodes.append(d)
        edges = []
        for i, (a, c, s, dd) in enumerate(b["edges"]):
            d = {"nodes": [a, c], "surface": num(s, g["edge"][i], DIM["sfc"], explicit),
                 "distance": num(dd, g["edge"][i], DIM["dst"], explicit)}
            if level == "edge" and g["edge"][i] != D:
                d[UKEYS[(i + 3) % 4]] = sysdict(g["edge"][i])
            edges.append(d)
        space = {"type": "graph", "nodes": nodes, "edges": edges}
    if "space" in decl:
        space["units"] = decl["space"]
    if explicit:
        state = {"value": [x * fac(U, DIM["amount"]) for x in BASE["state"]], "units": si.units_string(U, DIM["amount"])}
    else:
        state = [x * fac(g["system"], DIM["amount"]) for x in BASE["state"]]
    sysd = {"network": net, "space": space, "state": state,
            "units": decl.get("system", "default" if hist else sysdict(D))}
    if default_state:
        del sysd["state"]        # initial state generated from density x volume
    return sysd


def params_si(system):
    """Flat list of (name, SI Fraction) of every physical parameter and state entry of a system."""
    out = []
    envs = list(system.network.environments)

    def q(name, v):
        if isinstance(v, dict):
            for k in sorted(v):
                out.append((name + "[" + k + "]", uq.si_value(v[k])))
        else:
            out.append((name, uq.si_value(v)))
    for s in system.network.species:
        q("D(%s)" % s.label, s.D)
        q("density(%s)" % s.label, s.density)
    for i, r in enumerate(system.network.reactions):
        q("kf(%d)" % i, r.kf)
        q("kr(%d)" % i, r.kr)
    vols = system.space.get_cell_vol_array()
    for i, v in enumerate(uq.si_value(vols)):
        out.append(("vol(%d)" % i, v))
    if hasattr(system.space, "edges"):
        for i, e in enumerate(system.space.edges):
            q("surface(%d)" % i, e.surface)
            q("distance(%d)" % i, e.distance)
    for i, v in enumerate(uq.si_value(system.state)):
        out.append(("state(%d)" % i, v))
    return out


def euler_run(system, U, script_dict=None, cgmap=None):
    """Euler trajectory in SI (times in s, amounts in molecules), reported by the engine in unit system U."""
    if script_dict is not None:
        script = rdscript_from_dict(script_dict)
    else:
        script = RDScript(system, [0], time_step=DT * fac(U, DIM["time"]), t_max=(NSTEPS - 0.5) * DT * fac(U, DIM["time"]),
                          sampling_policy="on_iteration", units_system=uq.mk_sys(U))
    if cgmap is not None:
        from strengths.simulate import simulate_script
        traj = simulate_script(script, eng.make_engine("euler"), cgmap=cgmap)
    else:
        traj, nit = eng.run_to_completion(eng.make_engine("euler"), script, max_iter=50)
    t = [float(x) for x in uq.si_value(traj.t)]
    d = [float(x) for x in uq.si_value(traj.data)]
    return t, d, (uq.sys_of(traj.t.units), uq.sys_of(traj.data.units), uq.dim_of(traj.t.units), uq.dim_of(traj.data.units))


_BASECACHE = {}


def base_results(gtype, default_state=False):
    key = (gtype, default_state)
    if key not in _BASECACHE:
        system = rdsystem_from_dict(build_dict(gtype, "system", D, default_state))
        p = params_si(system)
        f = kinetics.compute_dstatedt(system)
        f_si = [float(x) for x in uq.si_value(f)]
        t, d, _ = euler_run(system, D)
        _BASECACHE[key] = (p, f_si, t, d)
    return _BASECACHE[key]


def cmp_lists(tag, names, got, ref, out, scale=None):
    if len(got) != len(ref):
        out.append(("C04:%s:length" % tag, "%d values, expected %d" % (len(got), len(ref))))
        return
    for i, (g, r) in enumerate(zip(got, ref)):
        s = abs(r) if scale is None else scale
        if abs(g - r) > TOL * max(s, 1e-300) and not (g == r):
            out.append(("C04:%s" % tag, "%s: %.17g vs base %.17g (relative %.3e)" % (names[i] if names else i, g, r, abs(g - r) / max(abs(r), 1e-300))))
            return


# ---------------------------------------------------------------------------------------------------------------------
# process histories: partial units dictionaries evaluated after other units have been used in the same process
#
# json_and_dict_doc.rst, "Units system": each of the keys "space" / "time" / "quantity" of a units dictionary has a default
# ("µm" / "s" / "molecule").  A description whose units dictionary leaves a key out is therefore the same physical system
# as the one that spells the default unit -- whatever was built or parsed before in the same process.

MISSING = [["space"], ["time"], ["quantity"], ["space", "time"], ["space", "quantity"], ["time", "quantity"],
           ["space", "time", "quantity"]]
H_LEVELS = {"grid": ["system", "network", "space", "species", "reaction", "script"],
            "graph": ["system", "network", "species", "reaction", "script"]}     # where the documentation has a "units" entry
H_W = [("nm", "ms", "nmol"), ("m", "min", "mol"), ("km", "h", "kmol"), ("fm", "fs", "fmol")]
# "polluting" descriptions (physically equal to BASE as well, so they are checked too) and pure parses
POLLUTERS = [
    {"level": "system", "U": ["µm", "min", "molecule"], "missing": ["space", "quantity"]},      # "units": {"time": "min"}
    {"level": "system", "U": ["nm", "ms", "fmol"], "missing": []},                               # complete nm / ms / fmol
    {"level": "explicit", "U": ["mm", "h", "mol"], "missing": []},                               # explicit unit strings
    {"level": "species", "U": ["dm", "cs", "µmol"], "missing": []},                              # complete, at species level
    {"parse": ["km/h", "pmol", "fL"]},                                                          # quantities with explicit units
]


def script_dict(gtype, U, missing):
    U = tuple(U)
    f_t = fac(U, DIM["time"])
    return {"system": build_dict(gtype, "system", D, hist=True), "t_sample": [0], "time_step": DT * f_t,
            "t_max": (NSTEPS - 0.5) * DT * f_t, "sampling_policy": "on_iteration",
            "units": partial_dict(U, missing) if missing else uq.sysdict(U), "rng_seed": 1}


def h_build(gtype, desc):
    if "parse" in desc:
        for u in desc["parse"]:
            UnitValue(1.5, u)
            UnitArray([1.0, 2.0], u)
        return None
    if desc["level"] == "base":
        return rdsystem_from_dict(build_dict(gtype, "system", D))
    if desc["level"] == "script":
        return rdscript_from_dict(script_dict(gtype, desc["U"], desc["missing"]))
    return rdsystem_from_dict(build_dict(gtype, desc["level"], tuple(desc["U"]), missing=tuple(desc["missing"]), hist=True))


def _run_script(script):
    traj, nit = eng.run_to_completion(eng.make_engine("euler"), script, max_iter=50)
    t = [float(x) for x in uq.si_value(traj.t)]
    d = [float(x) for x in uq.si_value(traj.data)]
    return t, d, [list(uq.sys_of(traj.t.units)), list(uq.sys_of(traj.data.units))]


def h_observe(gtype, desc, obj):
    if "parse" in desc:
        return None
    if desc["level"] == "script":
        t, d, meta = _run_script(obj)
        return {"t": t, "d": d, "meta": meta}
    U = D if desc["level"] == "base" else tuple(desc["U"])
    p = params_si(obj)
    res = {"p": [(n, v) for n, v in p]}
    if desc.get("rate") or desc["level"] == "base":      # (the pure-Python kinetics takes ~0.1 s: on a sub-family only)
        f = kinetics.compute_dstatedt(obj, units_system=uq.mk_sys(U))
        res["f"] = [float(x) for x in uq.si_value(f)]
    res["t"], res["d"], meta = euler_run(obj, U)
    return res


def history(gtype, steps_json):
    """Runs in a pristine process: every description is built, in order; then every one is observed."""
    import json
    steps = json.loads(steps_json)
    objs = []
    for desc in steps:
        try:
            objs.append(("ok", h_build(gtype, desc)))
        except Exception as e:
            objs.append(("exception", "building: %s: %s" % (type(e).__name__, e)))
    res = []
    for desc, (st, o) in zip(steps, objs):
        if st != "ok" or not desc.get("observe", True):
            res.append((st, o if st != "ok" else None))
            continue
        try:
            res.append(("ok", h_observe(gtype, desc, o)))
        except Exception as e:
            res.append(("exception", "observing: %s: %s" % (type(e).__name__, e)))
    return res


_PRIS = {}
_HBASE = {}


def _pristine_call(gtype, steps):
    import json
    import os
    from mc import pristine
    z = _PRIS.get(os.getpid())
    if z is None:
        _PRIS.clear()
        _HBASE.clear()
        z = pristine.Pristine(timeout=120.0)
        _PRIS[os.getpid()] = z
    return z.call("checks.c04_units_invariance", "history", gtype, json.dumps(steps))


def _describe(desc):
    if "parse" in desc:
        return "quantities parsed with units %r" % (desc["parse"],)
    U = tuple(desc["U"])
    if desc["level"] == "explicit":
        return "description with explicit unit strings in %r" % (U,)
    return "\"units\": %r at %s level" % (partial_dict(U, desc["missing"]) if desc["missing"] else uq.sysdict(U), desc["level"])


def check_history(case):
    """The descriptions of case["steps"] built one after the other in one pristine process: each observed one must have the
    physical content of the fully spelled base description (itself evaluated alone in a pristine process)."""
    out = []
    gtype = case["gtype"]
    if gtype not in _HBASE:
        _HBASE[gtype] = _pristine_call(gtype, [{"level": "base"}])
    st, r = _HBASE[gtype]
    if st != "ok" or r[0][0] != "ok":
        return [("C04:history:base:pristine-%s" % (st if st != "ok" else r[0][0]), str(r)[:600])]
    base = r[0][1]
    st, res = _pristine_call(gtype, case["steps"])
    if st != "ok":
        return [("C04:history:%s:%s:pristine-%s" % (case["level"], gtype, st), str(res)[:600])]
    story = "; then ".join(_describe(d) for d in case["steps"])
    for k, (desc, (st, obs)) in enumerate(zip(case["steps"], res)):
        if "parse" in desc and st == "ok":
            continue
        level = desc.get("level", "parse")
        tag = "history:%s:%s" % (level, gtype)
        where = "[process history: %s] description %d (%s)" % (story, k + 1, _describe(desc))
        if st != "ok":
            out.append(("C04:%s:unexpected-exception" % tag, "%s: %s" % (where, obs)))
            continue
        if obs is None:
            continue
        before = len(out)
        if "p" in obs:
            bp = base["p"]
            if [n for n, _ in obs["p"]] != [n for n, _ in bp]:
                out.append(("C04:%s:structure" % tag, "%s: parameter list differs from the base system" % where))
                continue
            for (n, v), (_, r0) in zip(obs["p"], bp):
                if (r0 == 0 and v != 0) or (r0 != 0 and abs(v / r0 - 1) > TOL):
                    out.append(("C04:%s:parameter:%s" % (tag, n.split("(")[0]),
                                "%s: %s = %.17g SI, base description %.17g SI" % (where, n, float(v), float(r0))))
                    break
            if len(out) > before:
                continue
            if "f" in obs:
                cmp_lists("%s:rate-of-change" % tag, None, obs["f"], base["f"], out, scale=max(abs(x) for x in base["f"]))
        else:
            expU = tuple(desc["U"])
            if obs["meta"][0][1] != expU[1] or obs["meta"][1][2] != expU[2]:
                out.append(("C04:%s:output-units" % tag, "%s: trajectory reported in %r / %r, script units system is %r"
                            % (where, obs["meta"][0], obs["meta"][1], expU)))
        cmp_lists("%s:trajectory-times" % tag, None, obs["t"], base["t"], out)
        cmp_lists("%s:trajectory-data" % tag, None, obs["d"], base["d"], out, scale=max(abs(x) for x in base["d"]))
        for i in range(before, len(out)):
            if not out[i][1].startswith("[process history"):
                out[i] = (out[i][0], "%s: %s" % (where, out[i][1]))
    return out


def gen_history(tier):
    Ws = H_W[:1] if tier == "quick" else H_W
    for gtype in ("grid", "graph"):
        for level in H_LEVELS[gtype]:
            for W in Ws:
                for missing in MISSING:
                    U = [D[i] if k in missing else W[i] for i, k in enumerate(KINDS)]
                    X = {"level": level, "U": U, "missing": missing}
                    Xr = dict(X, rate=True) if (len(missing) == 1 and level != "script") else X     # + compute_dstatedt
                    base = {"hist": True, "gtype": gtype, "level": level, "U": U, "missing": missing}
                    # the partial description first in a pristine process
                    yield dict(base, order="alone", steps=[Xr])
                    for pi, P in enumerate(POLLUTERS):
                        # polluter, then the partial description (the polluter alone in a pristine process is the same for
                        # every partial form: not observed again here)
                        yield dict(base, order="after", polluter=pi, steps=[dict(P, observe=False), Xr if pi == 0 else X])
                        if "parse" not in P:
                            # the partial description, then the polluter: both observed after both were built
                            yield dict(base, order="before", polluter=pi, steps=[X, P])


def load_multifile(sysd, split):
    """The same description written as several files (json_and_dict_doc.rst: "network" / "space" of a system may be a "JSON
    path"; a network / space without "units" inherits the units system of the reaction-diffusion system): system.json +
    network.json (+ space.json when split == "net+space"), relative paths, loaded with load_rdsystem."""
    import json
    import os
    import shutil
    import tempfile
    from strengths.rdsystem import load_rdsystem
    tmp = tempfile.mkdtemp(dir="/var/tmp", prefix="c04-")
    try:
        d = dict(sysd)
        parts = [("network", "network.json")] + ([("space", "space.json")] if split == "net+space" else [])
        for key, name in parts:
            with open(os.path.join(tmp, name), "w", encoding="utf-8") as fh:
                json.dump(d[key], fh, ensure_ascii=False, indent=1)
            d[key] = name
        with open(os.path.join(tmp, "system.json"), "w", encoding="utf-8") as fh:
            json.dump(d, fh, ensure_ascii=False, indent=1)
        return load_rdsystem(os.path.join(tmp, "system.json"))
    finally:
        shutil.rmtree(tmp, ignore_errors=True)


def check_case(case):
    if case.get("hist"):
        return check_history(case)
    res = _check_case(case)
    if case.get("files"):      # keys of the multi-file route: C04:<level>-files:<space>:...
        pre = "C04:%s:" % case["level"]
        res = [((k.replace(pre, "C04:%s-files:" % case["level"], 1) if k.startswith(pre) else k),
                "[%s written as system.json + %s] %s" % (case["level"], "network.json" if case["files"] == "net" else "network.json + space.json", w))
               for k, w in res]
    return res


def _check_case(case):
    out = []
    gtype, level, U = case["gtype"], case["level"], tuple(case["U"])
    try:
        ds = bool(case.get("default_state"))
        bp, bf, bt, bd = base_results(gtype, ds)
    except Exception as e:
        return [("C04:base:unexpected-exception", "%s: %s" % (type(e).__name__, e))]
    try:
        if level == "script":
            sysd = build_dict(gtype, "system", D)
            f_t = fac(U, DIM["time"])
            scd = {"system": sysd, "t_sample": [0], "time_step": DT * f_t, "t_max": (NSTEPS - 0.5) * DT * f_t,
                   "sampling_policy": "on_iteration", "units": uq.sysdict(U), "rng_seed": 1}
            if case.get("variant") == "explicit-times":
                ts = si.units_string(U, DIM["time"])
                scd["time_step"] = "%r %s" % (DT * f_t, ts)
                scd["t_max"] = "%r %s" % ((NSTEPS - 0.5) * DT * f_t, ts)
                scd["units"] = uq.sysdict(rot(U))
            if case.get("variant") == "explicit-tsample":
                # the request list is an explicit quantity array in U's time unit; t_max is left to its default (the last
                # request); the script's own units system is another one
                ts = si.units_string(U, DIM["time"])
                scd["time_step"] = "%r %s" % (DT * f_t, ts)
                scd["t_sample"] = {"value": [0.0, (NSTEPS - 0.5) * DT * f_t], "units": ts}
                del scd["t_max"]
                scd["units"] = uq.sysdict(rot(U))
            t, d, meta = euler_run(None, U, script_dict=scd)
            expU = rot(U) if case.get("variant") in ("explicit-times", "explicit-tsample") else U
            if meta[0][1] != expU[1] or meta[1][2] != expU[2]:
                out.append(("C04:script:output-units", "trajectory reported in %r / %r, script units system is %r" % (meta[0], meta[1], expU)))
        else:
            if case.get("files"):
                system = load_multifile(build_dict(gtype, level, U, ds), case["files"])
            else:
                system = rdsystem_from_dict(build_dict(gtype, level, U, ds))
            p = params_si(system)
            if [n for n, _ in p] != [n for n, _ in bp]:
                out.append(("C04:%s:%s:structure" % (level, gtype), "parameter list differs from the base system"))
                return out
            for (n, v), (_, r) in zip(p, bp):
                if (r == 0 and v != 0) or (r != 0 and abs(v / r - 1) > TOL):
                    fld = n.split("(")[0]
                    out.append(("C04:%s:%s:parameter:%s" % (level, gtype, fld),
                                "units %r declared at %s level%s: %s = %.17g SI, base description %.17g SI"
                                % (U, level, " (default state)" if ds else "", n, float(v), float(r))))
                    return out
            if case.get("rate"):
                f = kinetics.compute_dstatedt(system, units_system=uq.mk_sys(U))
                f_si = [float(x) for x in uq.si_value(f)]
                sc = max(abs(x) for x in bf)
                cmp_lists("%s:%s:rate-of-change" % (level, gtype), None, f_si, bf, out, scale=sc)
            t, d, meta = euler_run(system, U)
            if case.get("cg"):
                # the same run through the coarse-graining path with the identity map must give the same physics
                t2, d2, _ = euler_run(system, U, cgmap=list(range(len(BASE["grid"]["env"]))))
                cmp_lists("%s:%s:cgmap-identity:trajectory-times" % (level, gtype), None, t2, bt, out)
                cmp_lists("%s:%s:cgmap-identity:trajectory-data" % (level, gtype), None, d2, bd, out, scale=max(abs(x) for x in bd))
        cmp_lists("%s:%s:trajectory-times" % (level, gtype), None, t, bt, out)
        cmp_lists("%s:%s:trajectory-data" % (level, gtype), None, d, bd, out, scale=max(abs(x) for x in bd))
    except Exception as e:
        out.append(("C04:%s:%s:unexpected-exception" % (level, gtype), "units %r: %s: %s" % (U, type(e).__name__, e)))
    return out


def gen_cases(tier):
    gen_cases._nfile = 0
    systems = si.systems36() if tier == "quick" else si.ALL_SYSTEMS
    rate_set = set(si.systems36()) if tier == "thorough" else set(si.systems36()[::3])
    levels = {"grid": ["system", "network", "space", "species", "reaction", "explicit", "explicit-mixed", "species-mixed", "script"],
              "graph": ["system", "network", "space", "species", "reaction", "node", "edge", "explicit", "explicit-mixed",
                        "species-mixed", "script"]}
    mixed_levels = ("explicit-mixed", "species-mixed")
    for gtype in ("grid", "graph"):
        for U in systems:
            for level in levels[gtype]:
                # (the per-environment dictionaries with entries in different units meet in the rate of change of a grid,
                # where neighbouring cells of different environments are averaged: always evaluated there in quick)
                rate = level != "script" and (U in rate_set or (tier == "quick" and gtype == "grid" and level in mixed_levels))
                c = {"gtype": gtype, "level": level, "U": list(U), "rate": rate}
                yield c
                if gtype == "grid" and level in ("system", "network", "species", "space", "explicit") and U in rate_set:
                    c4 = dict(c)          # reflecting variant of the grid, also simulated through the coarse-graining path
                    c4["gtype"] = "gridr"
                    c4["cg"] = True
                    c4["rate"] = False
                    yield c4
                if level not in ("script", "reaction", "edge"):
                    c3 = dict(c)
                    c3["default_state"] = True      # no explicit state: density x volume
                    c3["rate"] = False
                    yield c3
                if level in ("system", "network", "space", "species"):
                    # the multi-file route: the network (and the space) in files of their own, which at system / space (network)
                    # level carry no units declaration and inherit the system's
                    nfile = getattr(gen_cases, "_nfile", 0)
                    gen_cases._nfile = nfile + 1
                    c5 = dict(c)
                    c5["files"] = ("net", "net+space")[nfile % 2]
                    c5["rate"] = False
                    yield c5
                    if level == "system":
                        c6 = dict(c5)
                        c6["files"] = ("net+space", "net")[nfile % 2]
                        c6["default_state"] = True
                        yield c6
                if level == "script":
                    for var in ("explicit-times", "explicit-tsample"):
                        c2 = dict(c)
                        c2["variant"] = var
                        yield c2


_CASES = None


def _work(job):
    lo, hi = job
    acc = core.Acc()
    for case in _CASES[lo:hi]:
        res = check_case(case)
        acc.add(states=1, transitions=3 if case.get("rate") else 2, traces=1, evaluations=1,
                nontrivial=1 if tuple(case["U"]) != D else 0)
        acc.count("cases:" + case["level"])
        for key, what in res:
            acc.violation(key, what, case)
    if lo == 0:
        acc.sample(_CASES[min(len(_CASES) - 1, 9)])
        acc.sample({"example_dictionary": build_dict("graph", "edge", ("m", "min", "mol"))})
    return acc.pack()


_HCASES = None


def _work_hist(job):
    """History cases: this worker does nothing with the library itself (its zygote must stay pristine); everything runs in
    forked grand-children and only plain numbers are compared here."""
    lo, hi = job
    acc = core.Acc()
    for case in _HCASES[lo:hi]:
        try:
            res = check_history(case)
        except Exception as e:
            res = [("C04:history:checker:exception", "%s: %s" % (type(e).__name__, e))]
        nobs = sum(1 for d in case["steps"] if "parse" not in d and d.get("observe", True))
        acc.add(states=1, transitions=len(case["steps"]) + nobs, traces=nobs, evaluations=nobs,
                nontrivial=1 if case["order"] != "alone" else 0)
        acc.count("history_cases:" + case["order"])
        acc.count("history_cases_level:" + case["level"])
        for key, what in res:
            acc.violation(key, what, case)
    if lo == 0:
        acc.sample(_HCASES[min(len(_HCASES) - 1, 3)])
        c = _HCASES[min(len(_HCASES) - 1, 3)]
        acc.sample({"example_history_dictionary": build_dict(c["gtype"], c["level"], tuple(c["U"]), missing=tuple(c["missing"]), hist=True)})
    return acc.pack()


def run(ctx):
    global _CASES, _HCASES
    _CASES = list(gen_cases(ctx.tier))
    _HCASES = list(gen_history(ctx.tier))
    eng.so_path("plain")
    # phase 1: process histories, on fresh workers whose zygotes have not used the library
    hjobs = pool.chunks(len(_HCASES), 8)
    hdone = 0
    for job, r in zip(hjobs, pool.pmap(_work_hist, hjobs, timeout=600)):
        if isinstance(r, pool.Crash):
            c = _HCASES[job[0]]
            ctx.violation("C04:history:%s:%s:engine-or-checker-%s" % (c["level"], c["gtype"], r.kind), r.detail[-1500:], c)
            continue
        core.merge(ctx, r)
        hdone += job[1] - job[0]
    ctx.subspace("process histories (each in a pristine forked process): partial units dictionaries (each single key and each "
                 "pair of keys left out, and the empty dictionary; the present keys from %s) declared at {grid: system, network, "
                 "space, species, reaction, script; graph: system, network, species, reaction, script} level x {alone; after each "
                 "of %d polluters (a {'time': 'min'} system, a complete nm/ms/fmol system, explicit mm/h/mol strings, complete "
                 "dm/cs/µmol species dictionaries, parsed km/h, pmol, fL quantities); before each of the 4 polluting descriptions "
                 "(both then observed)}: parameters, state, Euler trajectory (and, for the single-key forms alone / after the first "
                 "polluter, the rate of change) equal those of the fully spelled "
                 "base description evaluated alone" % ("nm/ms/nmol" if ctx.tier == "quick" else "4 unit systems", len(POLLUTERS)),
                 len(_HCASES), hdone, exhaustive=(hdone == len(_HCASES)))
    done = 0
    for job, r in pool.pmap_split(_work, len(_CASES), 40, timeout=300):
        if isinstance(r, pool.Crash) and r.kind == "skipped":
            ctx.exhaustive = False
            continue
        if isinstance(r, pool.Crash):
            c = _CASES[job[0]]
            ctx.violation("C04:%s:%s:engine-or-checker-%s" % (c["level"], c["gtype"], r.kind), r.detail[-1500:], c)
            done += 1
            continue
        core.merge(ctx, r)
        done += job[1] - job[0]
    nsys = 36 if ctx.tier == "quick" else 1100
    ctx.subspace("%d unit systems x {grid: 9 levels, graph: 11 levels, incl. per-environment dictionaries whose entries are written in different units (all explicit strings / bare number + explicit strings)} (+ the levels system / network / space / species also written as system.json + network.json [+ space.json] and loaded with load_rdsystem; + script variants with explicit time quantities / explicit request list and default t_max): heterogeneous "
                 "3-species / 4-reaction (orders 0-3) / 2-environment system on a periodic 3-cell grid and a 3-node graph" % nsys,
                 len(_CASES), done, exhaustive=(done == len(_CASES)))
    ctx.rule("one case per (space type, declaration level, unit system); non-trivial = unit system differs from the default; "
             "each case builds the re-scaled description through rdsystem_from_dict / rdscript_from_dict, compares every physical "
             "parameter and the state in SI with the base description, runs 4 Euler steps (output requested in U) and, for the "
             "36-system sub-lattice, compute_dstatedt")
    ctx.rule("history cases: one per (space type, level, partial dictionary, order, polluter); non-trivial = something else was "
             "built or parsed in the same process; missing keys mean the documented defaults (json_and_dict_doc.rst, Units system)")
    ctx.assume("exact rational unit factors (mc/ref/si.py) rounded once to double; tolerance 1e-9 relative; the nested system "
               "always carries an explicit declaration (script-to-system inheritance is not claimed, DESIGN C04)")


def replay(case):
    return check_case(case)
