"""C07 — stochastic engines take only legal steps, at the rates of the master equation.

(1) black box (plain build): every consecutive pair of per-iteration samples of seed-enumerated Gillespie
    runs over a catalogue of networks x spaces (x chemostats) must be one legal event of the reference CME
    model; non-negative integers; strictly increasing time; a0 = 0 => the run ends without a new record.
(2) owned draws (probe build, E3): BFS over the reachable molecular states of small systems; in EVERY state
    the engine is set up at that state and driven with every u of a finite grid (both uniform draws of the
    step supplied by the harness): every transition legal, the u-measure of every effect equals its CME
    probability within (B+1)/M, the multiset of waiting times x a0 equals the Exp(1) quantiles, a0 = 0 =>
    completion with the state unchanged.
(3) tau-leap (probe build): along seed-enumerated paths the multiset of positive Poisson means logged by the
    probe equals {a_j(x) dt}, and the applied change equals sum n_j effect_j for the logged results.
"""
import itertools
import math
from collections import deque

from mc import core, pool, models, eng
from mc.ref import si
from mc.ref import cme, ratelaw

core.setup_paths()
from strengths.units import UnitArray  # noqa: E402


def R(sub, prod, kf, kr=0.0):
    return {"eq": [[[l, c] for l, c in sub], [[l, c] for l, c in prod]], "kf": kf, "kr": kr}


# ---- catalogue for the black-box part ------------------------------------------------------------------

def bb_systems(tier):
    out = []
    nets = [
        ("2A<->B", ["A", "B"], [R([("A", 2)], [("B", 1)], 0.4, 0.6)], [1.0, 0.0]),
        ("3A->B,B->A", ["A", "B"], [R([("A", 3)], [("B", 1)], 0.05), R([("B", 1)], [("A", 1)], 0.7)], [0.5, 0.25]),
        ("A+2B<->C", ["A", "B", "C"], [R([("A", 1), ("B", 2)], [("C", 1)], 0.1, 0.5)], [0.6, {"e0": 0.3, "e1": 0.0}, 0.2]),
        ("0->A,A->0", ["A"], [R([], [("A", 1)], {"e0": 1.5, "e1": 0.0}), R([("A", 1)], [], 0.4)], [0.8]),
        ("A->A+B,env-k", ["A", "B"], [R([("A", 1)], [("A", 1), ("B", 1)], {"e1": 0.9}), R([("B", 2)], [], 0.2)], [0.3, 0.6]),
        ("A+B<->C+D,2D->A,B->C", ["A", "B", "C", "D"], [R([("A", 1), ("B", 1)], [("C", 1), ("D", 1)], 0.3, 0.2), R([("D", 2)], [("A", 1)], 0.1),
                                                    R([("B", 1)], [("C", 1)], {"e0": 0.4}, {"e1": 0.3})], [0.5, {"e1": 0.25}, 0.0, 0.75]),
    ]
    bcs = [dict(zip("xyz", c)) for c in itertools.product(["reflecting", "periodical"], repeat=3)]
    shapes = [(1, 1, 1), (2, 1, 1), (3, 1, 1), (2, 2, 1), (4, 1, 2), (1, 2, 3)]
    if tier == "quick":
        bcs = [bcs[0], bcs[7], bcs[4]]
        shapes = shapes[:5]
    spaces = []
    for (w, h, d) in shapes:
        for bc in bcs:
            n = w * h * d
            spaces.append(("grid%dx%dx%d:%s" % (w, h, d, "".join(v[0] for v in bc.values())),
                           {"type": "grid", "w": w, "h": h, "d": d, "bc": bc, "env": [i % 2 for i in range(n)], "vol": 1.5}))
    spaces.append(("graph-path", {"type": "graph", "nodes": [{"vol": [1.0, 8.0, 0.5][i], "env": i % 2} for i in range(3)],
                                  "edges": [[0, 1, 1.5, 0.75], [1, 2, 2.5, 1.25]]}))
    spaces.append(("graph-parallel+selfloop", {"type": "graph", "nodes": [{"vol": [1.0, 2.0][i], "env": 0} for i in range(2)],
                                                "edges": [[0, 1, 1.5, 0.75], [1, 0, 0.5, 2.0], [1, 1, 3.0, 1.0]]}))
    for netname, labels, rx, D in nets:
        for spname, space in spaces:
            n = ratelaw.ncells(space)
            ns = len(labels)
            for chem in (False, True):
                if chem and spname.startswith("grid") and not spname.endswith(("rrr", "ppp")):
                    continue
                state = [float((5 + 3 * q) % 7) for q in range(ns * n)]
                spec = {"species": [{"label": labels[s], "D": D[s]} for s in range(ns)], "reactions": rx,
                        "envs": ["e0", "e1"], "space": space, "state": state}
                if chem:
                    c = [0] * (ns * n)
                    c[0] = 1
                    c[ns * n - 1] = 1
                    spec["chemostats"] = c
                out.append({"sub": "blackbox", "net": netname, "space": spname, "chem": chem, "spec": spec})
    return out


def check_blackbox(case, seeds):
    out = []
    spec = case["spec"]
    chem = spec.get("chemostats")
    stats = {"steps": 0, "runs": 0, "null_steps": 0, "ended_by_a0": 0}
    for sd in seeds:
        try:
            sc = {"system": spec, "t_sample": [0], "policy": "on_iteration", "seed": sd, "isp": "none", "t_max": 3.0}
            traj, nit = eng.simulate("gillespie", models.build_script(sc), max_iter=500)
            t, d = models.traj_arrays(traj)
        except Exception as e:
            out.append(("C07:gillespie:unexpected-exception", "%s: %s" % (type(e).__name__, e)))
            continue
        stats["runs"] += 1
        if not d or d[0] != spec["state"]:
            out.append(("C07:gillespie:t0-record", "first record %r" % (d[:1],)))
            continue
        for k in range(len(d) - 1):
            stats["steps"] += 1
            if any(v < 0 or v != math.floor(v) for v in d[k + 1]):
                out.append(("C07:gillespie:not-nonnegative-integers", "seed %d step %d: %r" % (sd, k, d[k + 1])))
                break
            if not t[k + 1] > t[k]:
                out.append(("C07:gillespie:time-not-increasing", "seed %d step %d: t %r -> %r" % (sd, k, t[k], t[k + 1])))
                break
            tab, a0 = cme.effect_table(cme.channels(spec, d[k], chem))
            dk = cme.diff_key(d[k], d[k + 1])
            if dk == ():
                stats["null_steps"] += 1
            if dk not in tab:
                out.append(("C07:gillespie:illegal-step:%s" % ("null-step" if dk == () else "change"),
                            "net %s space %s seed %d step %d: %r -> %r (change %r) is not one enabled event; enabled effects %r"
                            % (case["net"], case["space"], sd, k, d[k], d[k + 1], dk, sorted(tab)[:12])))
                break
        else:
            # how did the run end?  a0 = 0 at the last state => no further record, otherwise t > t_max
            tab, a0 = cme.effect_table(cme.channels(spec, d[-1], chem))
            if a0 == 0:
                stats["ended_by_a0"] += 1
            elif not (t[-1] > 3.0) and nit < 500:
                out.append(("C07:gillespie:ended-early", "seed %d: run ended at t=%.6g <= t_max with total propensity %.6g > 0"
                            % (sd, t[-1], a0)))
    return out, stats


# ---- owned-draw exploration (probe) ----------------------------------------------------------------------

def od_systems(tier):
    s = []
    s.append({"name": "2A<->B on periodic 2x1x1 (two faces)", "units_variants": True,
              "spec": {"species": [{"label": "A", "D": 1.0}, {"label": "B", "D": 0.0}],
                       "reactions": [R([("A", 2)], [("B", 1)], 0.5, 0.75)], "envs": [""],
                       "space": {"type": "grid", "w": 2, "h": 1, "d": 1, "vol": 2.0, "bc": {"x": "periodical"}}},
              "init": [[3, 0, 0, 1]]})
    s.append({"name": "A+B->C on a 3-node graph with heterogeneous volumes", "units_variants": True,
              "spec": {"species": [{"label": "A", "D": 0.5}, {"label": "B", "D": 1.5}, {"label": "C", "D": 0.0}],
                       "reactions": [R([("A", 1), ("B", 1)], [("C", 1)], 0.8, 0.3)], "envs": [""],
                       "space": {"type": "graph", "nodes": [{"vol": 1.0, "env": 0}, {"vol": 8.0, "env": 0}, {"vol": 0.5, "env": 0}],
                                 "edges": [[0, 1, 1.5, 0.75], [2, 1, 2.5, 1.25]]}},
              "init": [[1, 1, 0, 0, 1, 1, 0, 0, 0]]})
    s.append({"name": "per-environment D on a graph with unequal volumes (size-weighted harmonic mean)", "units_variants": True,
              "spec": {"species": [{"label": "A", "D": {"a": 1.0, "b": 4.0}}, {"label": "B", "D": {"a": 0.5, "default": 2.0}}],
                       "reactions": [R([("A", 1)], [("B", 1)], 0.3, 0.1)], "envs": ["a", "b"],
                       "space": {"type": "graph", "nodes": [{"vol": 1.0, "env": 0}, {"vol": 8.0, "env": 1}],
                                 "edges": [[0, 1, 1.5, 0.75]]}},
              "init": [[2, 1, 1, 2]]})
    s.append({"name": "3A->B, A+2B->C, 0->A in one cell (combinatorial factors, volume exponents)", "units_variants": True,
              "spec": {"species": [{"label": "A"}, {"label": "B"}, {"label": "C"}],
                       "reactions": [R([("A", 3)], [("B", 1)], 0.7), R([("A", 1), ("B", 2)], [("C", 1)], 1.1, 0.4),
                                     R([], [("A", 1)], 0.9)], "envs": [""],
                       "space": {"type": "grid", "w": 1, "h": 1, "d": 1, "vol": 0.5}},
              "init": [[3, 2, 0], [4, 0, 1]]})
    s.append({"name": "environment-specific constants (zero in one environment), zero-D wall, 3x1x1",
              "spec": {"species": [{"label": "A", "D": {"a": 1.0, "b": 0.5, "w": 0.0}}, {"label": "B", "D": 0.25}],
                       "reactions": [R([("A", 1)], [("B", 1)], {"a": 0.6, "b": 0.0, "w": 0.2}, {"b": 0.3})], "envs": ["a", "b", "w"],
                       "space": {"type": "grid", "w": 3, "h": 1, "d": 1, "vol": 1.0, "env": [0, 1, 2]}},
              "init": [[2, 1, 1, 0, 1, 0]]})
    s.append({"name": "chemostated entries (A in cell 0, B in cell 1) on 2x1x1",
              "spec": {"species": [{"label": "A", "D": 1.0}, {"label": "B", "D": 0.5}],
                       "reactions": [R([("A", 1)], [("B", 1)], 0.5, 0.25)], "envs": [""],
                       "space": {"type": "grid", "w": 2, "h": 1, "d": 1, "vol": 1.0}, "chemostats": [1, 0, 0, 1]},
              "init": [[2, 1, 0, 1]]})
    s.append({"name": "periodic 3x2x1 grid, chemostated cells next to a wrap-around interface",
              "spec": {"species": [{"label": "A", "D": 1.0}], "reactions": [], "envs": [""],
                       "space": {"type": "grid", "w": 3, "h": 2, "d": 1, "vol": 1.0, "bc": {"x": "periodical"}},
                       "chemostats": [0, 0, 1, 1, 0, 0]},
              "init": [[0, 0, 2, 1, 0, 0], [1, 0, 1, 1, 0, 1]]})
    s.append({"name": "zero-order source 0->A and decay on a 2x1x1 grid, starting from completely empty cells",
              "spec": {"species": [{"label": "A", "D": 1.0}, {"label": "B", "D": 0.0}],
                       "reactions": [R([], [("A", 1)], 0.9), R([("A", 1)], [("B", 1)], 0.4)], "envs": [""],
                       "space": {"type": "grid", "w": 2, "h": 1, "d": 1, "vol": 2.0}},
              "init": [[0, 0, 0, 0], [2, 0, 0, 0]]})
    s.append({"name": "zero-order source 0->A on a 2-node graph, starting from completely empty nodes",
              "spec": {"species": [{"label": "A", "D": 1.0}], "reactions": [R([], [("A", 1)], {"a": 0.9, "b": 0.3})], "envs": ["a", "b"],
                       "space": {"type": "graph", "nodes": [{"vol": 1.0, "env": 0}, {"vol": 2.0, "env": 1}], "edges": [[0, 1, 1.5, 0.75]]}},
              "init": [[0, 0], [0, 1]]})
    for nm, f in (("rates x 1e-20 (total propensity far below machine epsilon, still non-zero)", 1e-20), ("rates x 1e+12", 1e12)):
        s.append({"name": "A<->B + diffusion on 2x1x1, " + nm,
                  "spec": {"species": [{"label": "A", "D": 1.0 * f}, {"label": "B", "D": 0.5 * f}],
                           "reactions": [R([("A", 1)], [("B", 1)], 0.6 * f, 0.3 * f)], "envs": [""],
                           "space": {"type": "grid", "w": 2, "h": 1, "d": 1, "vol": 1.0}},
                  "init": [[2, 0, 1, 1]]})
        s.append({"name": "A->B on a 2-node graph, " + nm,
                  "spec": {"species": [{"label": "A", "D": 1.0 * f}, {"label": "B", "D": 0.0}],
                           "reactions": [R([("A", 1)], [("B", 1)], 0.6 * f)], "envs": [""],
                           "space": {"type": "graph", "nodes": [{"vol": 1.0, "env": 0}, {"vol": 2.0, "env": 0}], "edges": [[0, 1, 1.5, 0.75]]}},
                  "init": [[2, 1, 0, 0]]})
    s.append({"name": "'default' written before the environment's own entry (kf, kr, D)",
              "spec": {"species": [{"label": "A", "D": {"default": 1.0, "m": 0.25}}, {"label": "B", "D": 0.5}],
                       "reactions": [R([("A", 1)], [("B", 1)], {"default": 1.0, "m": 0.0}, {"default": 0.0, "c": 0.5})], "envs": ["c", "m"],
                       "space": {"type": "grid", "w": 2, "h": 1, "d": 1, "vol": 1.0, "env": [0, 1]}},
              "init": [[1, 2, 1, 0]]})
    s.append({"name": "self-neighbour (periodic axis of length 1), A->A+B, dead end",
              "spec": {"species": [{"label": "A", "D": 1.0}, {"label": "B", "D": 0.0}],
                       "reactions": [R([("A", 1)], [("A", 1), ("B", 1)], 0.5), R([("B", 2)], [], 0.3)], "envs": [""],
                       "space": {"type": "grid", "w": 1, "h": 1, "d": 1, "vol": 1.0, "bc": {"x": "periodical", "z": "periodical"}}},
              "init": [[1, 0], [0, 1]]})
    s.append({"name": "graph with parallel edges and a self-loop",
              "spec": {"species": [{"label": "A", "D": 1.0}], "reactions": [R([("A", 1)], [], 0.2)], "envs": [""],
                       "space": {"type": "graph", "nodes": [{"vol": 1.0, "env": 0}, {"vol": 2.0, "env": 0}],
                                 "edges": [[0, 1, 1.5, 0.75], [1, 0, 0.5, 2.0], [1, 1, 3.0, 1.0]]}},
              "init": [[2, 1]]})
    return s


def od_states(sysd, depth, cap=4):
    """BFS over the reference successor relation (used only to ENUMERATE states; every transition the engine
    makes is checked against the reference separately).  Amounts are capped to keep the space finite."""
    spec = sysd["spec"]
    chem = spec.get("chemostats")
    seen = {}
    fr = deque()
    for x in sysd["init"]:
        seen[tuple(x)] = 0
        fr.append(tuple(x))
    while fr:
        x = fr.popleft()
        dd = seen[x]
        if dd >= depth:
            continue
        tab, a0 = cme.effect_table(cme.channels(spec, list(x), chem))
        for key in sorted(tab):
            y = tuple(cme.apply_effect(list(x), key))
            if max(y) > cap or y in seen:
                continue
            seen[y] = dd + 1
            fr.append(y)
    return [list(x) for x in seen]


_PROBE = {}


def probe():
    import os
    p = _PROBE.get(os.getpid())
    if p is None:
        _PROBE.clear()
        try:
            p = eng.Probe()
            if not p.present:
                p = False
        except Exception:
            p = False
        _PROBE[os.getpid()] = p
    return p


def check_owned(case):
    """One (system, state): all u of the grid."""
    out = []
    pr = probe()
    if not pr:
        return out, {"blind": 1}
    spec = dict(case["spec"])
    x = [float(v) for v in case["state"]]
    spec["state"] = x
    chem = spec.get("chemostats")
    M = case["M"]
    n = len(x)
    chs = cme.channels(spec, x, chem)
    tab, a0 = cme.effect_table(chs)
    B = sum(1 for c in chs if c[1] > 0)
    scd = {"system": spec, "t_sample": [0], "policy": "no_sampling", "seed": 1, "isp": "none", "t_max": 1e9}
    tfac = 1.0
    if case.get("units"):
        # the script asks for its output in another units system (the model itself stays as written): the same events
        # with the same propensities; the engine's clock then runs in the script's time unit
        scd["units"] = list(case["units"])
        tfac = float(si.factor(tuple(case["units"]), si.DEFAULT, (0, 1, 0)))
    script = models.build_script(scd)
    counts = {}
    waits = []
    stats = {"transitions": 0, "blind": 0}
    e_reused = None
    for k in range(M):
        u = (k + 0.5) / M
        pr.clear()
        # every second draw goes to ONE engine object set up again and again (replicates on one object), the others
        # to a fresh object each: the law of a step may not depend on how often the object was used before
        if k % 2:
            e_reused = e_reused or pr.engine("gillespie")
            e = e_reused
        else:
            e = pr.engine("gillespie")
        e.setup(script)
        pr.push([u, u])
        r = e.iterate()
        y = pr.state(n)
        tt = pr.time() * tfac
        inj = pr.n_injected()
        e.finalize()
        stats["transitions"] += 1
        if a0 == 0:
            if r is not False or y != x or tt != 0.0:
                out.append(("C07:owned:dead-state-not-final", "state %r has total propensity 0 but iterate() returned %r, state %r, t %r" % (x, r, y, tt)))
            break
        if inj != 2:
            out.append(("C07:owned:draw-count", "a Gillespie step consumed %d uniform draws (expected 2: event and waiting time)" % inj))
            break
        if any(v < 0 or v != math.floor(v) for v in y):
            out.append(("C07:owned:not-nonnegative-integers", "state %r u=%g -> %r" % (x, u, y)))
            break
        dk = cme.diff_key(x, y)
        if dk not in tab:
            out.append(("C07:owned:illegal-transition", "system '%s' state %r u=%g -> %r (change %r) is not an enabled event; enabled %r"
                        % (case["name"], x, u, y, dk, sorted(tab)[:12])))
            break
        if not tt > 0:
            out.append(("C07:owned:time-not-increasing", "state %r u=%g: t = %r after the step" % (x, u, tt)))
            break
        counts[dk] = counts.get(dk, 0) + 1
        waits.append(tt * a0)
    else:
        for key in set(list(tab) + list(counts)):
            p_ref = tab.get(key, 0.0) / a0
            p_got = counts.get(key, 0) / M
            if abs(p_got - p_ref) > (B + 1.0) / M:
                out.append(("C07:owned:event-measure",
                            "system '%s' state %r: effect %r is chosen for a fraction %.4f of the uniform draws, master equation "
                            "gives %.4f (tolerance %.4f, %d channels, a0=%.6g)" % (case["name"], x, key, p_got, p_ref, (B + 1.0) / M, B, a0)))
                break
        ws = sorted(waits)
        qs = sorted(cme.exp1_quantiles(M))
        for a, b in zip(ws, qs):
            if abs(a - b) > 1e-9 * max(1.0, b):
                out.append(("C07:owned:waiting-time",
                            "system '%s' state %r: waiting times x a0 are not the Exp(1) quantiles of the supplied draws "
                            "(got %.12g where %.12g is expected; a0=%.6g)" % (case["name"], x, a, b, a0)))
                break
    if not out and a0 > 0 and B >= 2:
        # Joint law: the waiting time and the event of one step are independent.  With two DIFFERENT supplied
        # draws (u1, u2) on a K x K grid the waiting time must be a function of one of them and the event of the
        # other one (which is which is the engine's business).
        K = 6
        ev, wt = {}, {}
        for i in range(K):
            for j in range(K):
                pr.clear()
                e = pr.engine("gillespie")
                e.setup(script)
                pr.push([(i + 0.5) / K, (j + 0.37) / K])
                e.iterate()
                ev[(i, j)] = cme.diff_key(x, pr.state(n))
                wt[(i, j)] = pr.time() * tfac
                e.finalize()
                stats["transitions"] += 1

        def const_along(tab, axis, num):
            # True when tab does not change while the coordinate `axis` varies
            for a in range(K):
                vals = [tab[(a, b)] if axis == 1 else tab[(b, a)] for b in range(K)]
                for v in vals[1:]:
                    if (abs(v - vals[0]) > 1e-12 * abs(vals[0])) if num else (v != vals[0]):
                        return False
            return True
        w_free_of = [const_along(wt, 0, True), const_along(wt, 1, True)]      # waiting time independent of draw 1 / draw 2
        e_free_of = [const_along(ev, 0, False), const_along(ev, 1, False)]
        if len(set(ev.values())) >= 2:
            ok = (w_free_of[0] and e_free_of[1] and not w_free_of[1]) or (w_free_of[1] and e_free_of[0] and not w_free_of[0])
            if not ok:
                out.append(("C07:owned:waiting-time-and-event-not-independent",
                            "system '%s' state %r: over a %dx%d grid of two different supplied draws the waiting time is free of "
                            "draw 1/2: %r, the event is free of draw 1/2: %r (one of them must depend on the first draw only and "
                            "the other one on the second draw only)" % (case["name"], x, K, K, w_free_of, e_free_of)))
    return out, stats


# ---- tau-leap (probe) -----------------------------------------------------------------------------------

def match_leap(chs, log, dx, tol=1e-9):
    """Is there a bijection between logged (mean, n) draws and reference channels with positive propensity
    (means equal within tol) such that sum n*effect = dx?  Returns (ok, message)."""
    ref = [(p, e) for (_, p, e) in chs if p > 0]
    if len(ref) != len(log):
        return False, "%d Poisson draws with positive mean logged, %d channels have positive propensity" % (len(log), len(ref))
    rs = sorted(range(len(ref)), key=lambda i: ref[i][0])
    ls = sorted(range(len(log)), key=lambda i: log[i][0])
    for a, b in zip(rs, ls):
        if abs(ref[a][0] - log[b][0]) > tol * max(1.0, abs(ref[a][0])):
            return False, "Poisson mean %.12g logged where propensity x dt = %.12g is expected (sorted position)" % (log[b][0], ref[a][0])
    # clusters of (nearly) equal means
    clusters = []
    cur = [0]
    for q in range(1, len(rs)):
        if abs(ref[rs[q]][0] - ref[rs[q - 1]][0]) <= 2 * tol * max(1.0, abs(ref[rs[q]][0])):
            cur.append(q)
        else:
            clusters.append(cur)
            cur = [q]
    if rs:
        clusters.append(cur)
    nentries = len(dx)
    base = [0.0] * nentries
    hard = []
    for cl in clusters:
        ns_ = [log[ls[q]][1] for q in cl]
        if len(set(ns_)) == 1 or len({cme.effect_key(ref[rs[q]][1]) for q in cl}) == 1:
            for q, nn in zip(cl, ns_):
                for idx, dv in ref[rs[q]][1].items():
                    base[idx] += nn * dv
        else:
            hard.append((cl, ns_))
    total = 1
    for cl, ns_ in hard:
        total *= math.factorial(len(cl))
    if total > 20000:
        return None, "too many equal-mean assignments (%d)" % total

    def rec(i, acc):
        if i == len(hard):
            return all(abs(a - b) < 1e-9 for a, b in zip(acc, dx))
        cl, ns_ = hard[i]
        for perm in set(itertools.permutations(ns_)):
            acc2 = list(acc)
            for q, nn in zip(cl, perm):
                for idx, dv in ref[rs[q]][1].items():
                    acc2[idx] += nn * dv
            if rec(i + 1, acc2):
                return True
        return False
    if rec(0, base):
        return True, ""
    return False, "applied change %r is not sum n_j x effect_j for the logged firings" % (dx,)


def tl_systems():
    return [
        {"name": "2A<->B + diffusion, heterogeneous 3-node graph",
         "spec": {"species": [{"label": "A", "D": 0.5}, {"label": "B", "D": 0.25}],
                  "reactions": [R([("A", 2)], [("B", 1)], 0.02, 0.3)], "envs": [""],
                  "space": {"type": "graph", "nodes": [{"vol": 1.0, "env": 0}, {"vol": 8.0, "env": 0}, {"vol": 0.5, "env": 0}],
                            "edges": [[0, 1, 1.5, 0.75], [2, 1, 2.5, 1.25]]},
                  "state": [20.0, 31.0, 12.0, 7.0, 3.0, 9.0]}},
        {"name": "A+2B->C, 0->A, env constants, grid 2x2x1 periodic y, chemostat",
         "spec": {"species": [{"label": "A", "D": {"e0": 0.4, "e1": 0.2}}, {"label": "B", "D": 0.1}, {"label": "C", "D": 0.0}],
                  "reactions": [R([("A", 1), ("B", 2)], [("C", 1)], {"e0": 0.01, "e1": 0.0}, 0.2), R([], [("A", 1)], {"e1": 1.5})],
                  "envs": ["e0", "e1"],
                  "space": {"type": "grid", "w": 2, "h": 2, "d": 1, "vol": 1.5, "env": [0, 1, 1, 0], "bc": {"y": "periodical"}},
                  "state": [15.0, 22.0, 9.0, 30.0, 11.0, 17.0, 25.0, 8.0, 4.0, 0.0, 6.0, 2.0],
                  "chemostats": [0, 0, 0, 0, 0, 1, 0, 0, 0, 0, 0, 0]}},
        {"name": "per-environment D, unequal volumes, 2-node graph",
         "spec": {"species": [{"label": "A", "D": {"a": 1.0, "b": 4.0}}, {"label": "B", "D": {"a": 0.5, "default": 2.0}}],
                  "reactions": [], "envs": ["a", "b"],
                  "space": {"type": "graph", "nodes": [{"vol": 1.0, "env": 0}, {"vol": 8.0, "env": 1}], "edges": [[0, 1, 1.5, 0.75]]},
                  "state": [30.0, 45.0, 12.0, 21.0]}},
        {"name": "self-neighbours: 3x1x1 grid periodic in y and z (axes of length 1) and x",
         "spec": {"species": [{"label": "A", "D": 0.5}, {"label": "B", "D": 0.25}],
                  "reactions": [R([("A", 1)], [("B", 1)], 0.2, 0.1)], "envs": [""],
                  "space": {"type": "grid", "w": 3, "h": 1, "d": 1, "vol": 1.0, "bc": {"x": "periodical", "y": "periodical", "z": "periodical"}},
                  "state": [40.0, 25.0, 31.0, 18.0, 22.0, 9.0]}},
        # per-step means of 100 and above (large populations): still Poisson by the statement
        {"name": "large means: chemostated source A -> B, 3x1x1 grid, means 100-300 per step at dt = 1/16",
         "spec": {"species": [{"label": "A", "D": 0.0}, {"label": "B", "D": 0.0}],
                  "reactions": [R([("A", 1)], [("B", 1)], 1.6, 0.0)], "envs": [""],
                  "space": {"type": "grid", "w": 3, "h": 1, "d": 1, "vol": 1.0},
                  "state": [1000.0, 2000.0, 3000.0, 0.0, 0.0, 0.0], "chemostats": [1, 1, 1, 0, 0, 0]}},
        {"name": "large means: chemostated source A -> B and diffusion of B, 2-node graph, means 100-400 per step at dt = 1/16",
         "spec": {"species": [{"label": "A", "D": 0.0}, {"label": "B", "D": 1.0}],
                  "reactions": [R([("A", 1)], [("B", 1)], 1.6, 0.0)], "envs": [""],
                  "space": {"type": "graph", "nodes": [{"vol": 1.0, "env": 0}, {"vol": 2.0, "env": 0}], "edges": [[0, 1, 1.0, 1.0]]},
                  "state": [1000.0, 4000.0, 5000.0, 0.0], "chemostats": [1, 1, 0, 0]}},
        {"name": "reservoir: a cell with every species chemostated next to empty free cells, 3x1x1 grid",
         "spec": {"species": [{"label": "A", "D": 1.0}], "reactions": [], "envs": [""],
                  "space": {"type": "grid", "w": 3, "h": 1, "d": 1, "vol": 1.0},
                  "state": [50.0, 0.0, 0.0], "chemostats": [1, 0, 0]}},
        {"name": "reservoir: a node with both species chemostated next to empty free nodes, 3-node graph",
         "spec": {"species": [{"label": "A", "D": 1.0}, {"label": "B", "D": 0.5}], "reactions": [R([("A", 1)], [("B", 1)], 0.3, 0.1)], "envs": [""],
                  "space": {"type": "graph", "nodes": [{"vol": 1.0, "env": 0}, {"vol": 2.0, "env": 0}, {"vol": 0.5, "env": 0}],
                            "edges": [[0, 1, 1.5, 0.75], [2, 1, 2.5, 1.25]]},
                  "state": [40.0, 0.0, 0.0, 25.0, 0.0, 0.0], "chemostats": [1, 0, 0, 1, 0, 0]}},
        {"name": "3A->B single cell",
         "spec": {"species": [{"label": "A"}, {"label": "B"}], "reactions": [R([("A", 3)], [("B", 1)], 0.001, 0.5)], "envs": [""],
                  "space": {"type": "grid", "w": 1, "h": 1, "d": 1, "vol": 0.5}, "state": [40.0, 5.0]}},
        # sparse populations: cells empty out and fill again, so a channel's count of one step must not survive into the
        # next one (per-step mean of a hop about 0.1 .. 0.5 per molecule)
        {"name": "sparse: single molecules hopping and reacting on a 3x1x1 grid",
         "spec": {"species": [{"label": "A", "D": 8.0}, {"label": "B", "D": 4.0}], "reactions": [R([("A", 1)], [("B", 1)], 0.5, 0.25)], "envs": [""],
                  "space": {"type": "grid", "w": 3, "h": 1, "d": 1, "vol": 1.0}, "state": [1.0, 0.0, 2.0, 0.0, 1.0, 0.0]}},
        {"name": "sparse: single molecules hopping on a 2x2x1 grid periodic in x",
         "spec": {"species": [{"label": "A", "D": 6.0}], "reactions": [], "envs": [""],
                  "space": {"type": "grid", "w": 2, "h": 2, "d": 1, "vol": 1.0, "bc": {"x": "periodical"}}, "state": [2.0, 0.0, 0.0, 1.0]}},
        {"name": "sparse: single molecules hopping and reacting on a 3-node path graph",
         "spec": {"species": [{"label": "A", "D": 8.0}, {"label": "B", "D": 4.0}], "reactions": [R([("A", 1)], [("B", 1)], 0.5, 0.25)], "envs": [""],
                  "space": {"type": "graph", "nodes": [{"vol": 1.0, "env": 0}, {"vol": 1.0, "env": 0}, {"vol": 1.0, "env": 0}],
                            "edges": [[0, 1, 1.0, 1.0], [1, 2, 1.0, 1.0]]},
                  "state": [1.0, 0.0, 2.0, 0.0, 1.0, 0.0]}},
    ]


def check_tauleap(case):
    out = []
    pr = probe()
    stats = {"steps": 0, "truncated": 0, "unjudged": 0, "blind": 0}
    if not pr:
        stats["blind"] = 1
        return out, stats
    spec = case["spec"]
    chem = spec.get("chemostats")
    dt = case["dt"]
    n = len(spec["state"])
    script = models.build_script({"system": spec, "t_sample": [0], "policy": "no_sampling", "seed": case["seed"], "isp": "none",
                                  "time_step": dt, "t_max": 1e9})
    pr.clear()
    e = pr.engine("tauleap")
    e.setup(script)
    x = pr.state(n)
    for step in range(case["nsteps"]):
        if any(v < 0 for v in x):
            stats["truncated"] += 1
            break
        pr.clear_plog()
        e.iterate()
        log = [(m, r) for (m, r) in pr.plog() if m > 0]
        y = pr.state(n)
        stats["steps"] += 1
        chs = [(nm, p * dt, ef) for (nm, p, ef) in cme.channels(spec, x, chem)]
        ok, msg = match_leap(chs, log, [b - a for a, b in zip(x, y)])
        if ok is None:
            stats["unjudged"] += 1
        elif not ok:
            cls = "poisson-mean" if "mean" in msg or "draws" in msg else "applied-change"
            out.append(("C07:tauleap:%s" % cls, "system '%s' seed %d step %d state %r: %s" % (case["name"], case["seed"], step, x, msg)))
            break
        x = y
    e.finalize()
    return out, stats


# ---- driver -------------------------------------------------------------------------------------------------

def check_case(case):
    if case["sub"] == "blackbox":
        return check_blackbox(case, case["seeds"])[0]
    if case["sub"] == "owned":
        return check_owned(case)[0]
    return check_tauleap(case)[0]


_CASES = None


def _work(job):
    lo, hi = job
    acc = core.Acc()
    for case in _CASES[lo:hi]:
        if case["sub"] == "blackbox":
            res, st = check_blackbox(case, case["seeds"])
            acc.add(states=st["steps"], transitions=st["steps"], traces=st["runs"], evaluations=st["steps"], nontrivial=st["steps"] - st["null_steps"])
            acc.count("blackbox_steps", st["steps"])
            acc.count("blackbox_null_steps", st["null_steps"])
            acc.count("blackbox_runs_ended_by_zero_propensity", st["ended_by_a0"])
        elif case["sub"] == "owned":
            res, st = check_owned(case)
            acc.add(states=1, transitions=st.get("transitions", 0), traces=st.get("transitions", 0), evaluations=1, nontrivial=1)
            acc.count("owned_states")
            acc.count("probe_blind_cases", st.get("blind", 0))
        else:
            res, st = check_tauleap(case)
            acc.add(states=st["steps"], transitions=st["steps"], traces=1, evaluations=st["steps"], nontrivial=st["steps"])
            acc.count("tauleap_steps", st["steps"])
            acc.count("tauleap_paths_truncated_at_negative_entry", st["truncated"])
            acc.count("tauleap_steps_unjudged(equal-mean assignments)", st["unjudged"])
            acc.count("probe_blind_cases", st.get("blind", 0))
        for key, what in res:
            acc.violation(key, what, case)
    if lo == 0:
        acc.sample({k: v for k, v in _CASES[0].items() if k != "seeds"})
    return acc.pack()


def run(ctx):
    global _CASES
    tier = ctx.tier
    seeds = list(range(1000 * ctx.seed, 1000 * ctx.seed + (8 if tier == "quick" else 64)))
    bb = bb_systems(tier)
    for c in bb:
        c["seeds"] = seeds
    M = 64 if tier == "quick" else 256
    depth = 3 if tier == "quick" else 5
    od = []
    nstates = {}
    for sysd in od_systems(tier):
        sts = od_states(sysd, depth)
        nstates[sysd["name"]] = len(sts)
        for x in sts:
            od.append({"sub": "owned", "name": sysd["name"], "spec": sysd["spec"], "state": x, "M": M})
        if sysd.get("units_variants"):
            for us3 in (("µm", "s", "mol"), ("nm", "ms", "nmol"), ("mm", "min", "molecule")):
                for x in sts[:(6 if tier == "quick" else len(sts))]:
                    od.append({"sub": "owned", "name": sysd["name"] + " [script units %s/%s/%s]" % us3, "spec": sysd["spec"],
                               "state": x, "M": M, "units": list(us3)})
    tl = []
    for sysd in tl_systems():
        for sd in seeds[:(4 if tier == "quick" else 32)]:
            for dt in (2.0 ** -6, 2.0 ** -4):
                tl.append({"sub": "tauleap", "name": sysd["name"], "spec": sysd["spec"], "seed": sd, "dt": dt,
                           "nsteps": 25 if tier == "quick" else 60})
    _CASES = bb + od + tl
    eng.so_path("plain")
    so, err = __import__("mc.build", fromlist=["x"]).try_build("probe")
    ctx.note("probe", "on" if so else "blind: " + (err or "")[-300:])
    ctx.note("owned_draw_states_per_system", nstates)
    ctx.sample(od[0] if od else bb[0])
    done = 0
    for job, r in pool.pmap_split(_work, len(_CASES), 3, timeout=300, single_timeout=120):
        if isinstance(r, pool.Crash) and r.kind == "skipped":
            ctx.exhaustive = False
            continue
        if isinstance(r, pool.Crash):
            c = _CASES[job[0]]
            ctx.violation("C07:%s:engine-%s" % (c["sub"], r.kind), r.detail[-1500:], {k: v for k, v in c.items() if k != "seeds"})
            done += 1
            continue
        core.merge(ctx, r)
        done += job[1] - job[0]
    ex = done == len(_CASES)
    ctx.subspace("black box: 6 networks (orders 0-3, repeated reactants, zero constants per environment) x %d spaces x chemostat "
                 "variants x %d seeds; every consecutive sample pair of <=500-event Gillespie runs" % (len(bb) // 6, len(seeds)),
                 len(bb), len(bb) if ex else 0, exhaustive=ex)
    ctx.subspace("owned draws: all molecular states reachable within depth %d (amount cap 4) of the small systems; in every state "
                 "every u of the grid {(k+1/2)/%d} for both draws of the step" % (depth, M), len(od), len(od) if ex else 0, exhaustive=ex)
    ctx.subspace("tau-leap: 3 systems x seeds x dt in {2^-6, 2^-4}; every step's logged Poisson (mean, result) pairs", len(tl),
                 len(tl) if ex else 0, exhaustive=ex)
    ctx.rule("states = molecular states in which the engine's transition(s) were checked (recorded samples / BFS states / leap "
             "steps); transitions = engine steps executed; non-trivial = steps that changed the state (black box), every "
             "owned-draw state and leap step")
    ctx.assume("libstdc++ mt19937 / uniform_real / poisson distributions are trusted; the u-grid bounds the measure error by "
               "(B+1)/M; BFS states are enumerated with the reference successor relation, de-duplicated by molecular state "
               "(the engine is memoryless in x once its draws are supplied)")


def replay(case):
    return check_case(case)
