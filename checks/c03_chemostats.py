"""C03 — chemostated entries never change; everything else ignores the flag.

E1 over ALL chemostat subsets of small species x cell shapes ((2,2), (2,3), (3,2), and single cells for the
exported ODE right-hand side), x networks x {grid, graph}:
  (i)   every flagged entry keeps its t=0 value bit-for-bit in every sample of every engine (seed window);
  (ii)  compute_dstatedt / make_dxdtf: exactly 0 at flagged entries, reference rate law elsewhere (flagged
        entries still act as reactants and diffusion sources/sinks);
  (iii) each Euler step of unflagged entries equals the reference step from the previous recorded state;
  (iv)  apply_reaction at every position changes exactly the unflagged entries of that cell by n*delta;
  (v)   every Gillespie step is a legal event of the CME model with the chemostat exemption applied.
Plus (vi) the argument lattice of apply_reaction (state omitted / list / tuple / ndarray / UnitArray x chemostat map
omitted / explicit list / tuple / ndarray differing from the system's own map x update x positional / keyword reaction):
the map IN EFFECT is the explicit one when given; and (vii) wide networks (34 and 66 species) with a flag on species
index 0, 1, 30, 31, 32, 33 or the last one: flagged entries bit-constant in every engine, Euler steps follow the rate
law, Gillespie steps are legal events, and a tau-leap entry whose outflow makes "never changed" impossible (probability
below 1e-30 under the Poisson-firings model) is not frozen; and (viii) flag provenance: the map in effect generated from
Species.chstt (bool / per-environment dictionaries with and without "default"), edited with set_chemostat against the species
flags, given explicitly over truthy species flags, reset or regenerated, on 2- and 3-environment grids and graphs; and
(ix) reservoir cells (every species of a cell flagged, the other cells empty): the free neighbours are fed in every engine;
(x) engine-object histories: the same engine object simulates map M1 then map M2 (edited in place / fresh system object).
"""
import itertools
import math
import struct

from mc import core, pool, models, eng, uq
from mc.ref import ratelaw, cme, si

core.setup_paths()
from strengths import kinetics  # noqa: E402

TOL = 1e-9
DT = 2.0 ** -8
FROZEN_EPS = 1e-30


def _bits(x):
    return struct.pack("<d", float(x))


def _networks(ns):
    if ns == 2:
        return [
            ("A<->B+diff", [{"eq": [[["A", 1]], [["B", 1]]], "kf": 3.0, "kr": 5.0}], [2.0, 3.0]),
            ("2A->B+diff", [{"eq": [[["A", 2]], [["B", 1]]], "kf": 0.5, "kr": 0.25}], [1.0, 0.0]),
            ("diffusion", [], [2.0, 3.0]),
            ("A+B->2B,B->A", [{"eq": [[["A", 1], ["B", 1]], [["B", 2]]], "kf": 0.5, "kr": 0.0},
                              {"eq": [[["B", 1]], [["A", 1]]], "kf": 1.5, "kr": 0.0}], [0.5, 1.0]),
        ]
    return [
        ("A+B<->C+diff", [{"eq": [[["A", 1], ["B", 1]], [["C", 1]]], "kf": 0.5, "kr": 2.0}], [2.0, 3.0, 5.0]),
        ("A->B,B->C", [{"eq": [[["A", 1]], [["B", 1]]], "kf": 2.0, "kr": 0.0},
                       {"eq": [[["B", 1]], [["C", 1]]], "kf": 3.0, "kr": 1.0}], [0.0, 1.0, 2.0]),
        ("diffusion", [], [2.0, 3.0, 5.0]),
        # a species on both sides (catalyst B) whose amount changes through a second reaction
        ("A+B->C+B,B->A", [{"eq": [[["A", 1], ["B", 1]], [["C", 1], ["B", 1]]], "kf": 0.5, "kr": 0.0},
                           {"eq": [[["B", 1]], [["A", 1]]], "kf": 1.5, "kr": 0.25}], [0.0, 1.0, 2.0]),
    ]


def _space(gtype, nc):
    if gtype == "grid" and nc == 4:
        return {"type": "grid", "w": 2, "h": 2, "d": 1, "vol": 2.0, "bc": {"y": "periodical"}}
    if gtype == "graph" and nc == 4:
        return {"type": "graph", "nodes": [{"vol": [1.0, 8.0, 0.5, 27.0][i], "env": 0} for i in range(4)],
                "edges": [[0, 1, 1.5, 0.75], [1, 2, 2.5, 1.25], [3, 1, 3.5, 1.75], [0, 3, 0.5, 2.0]]}
    if gtype == "grid":
        return {"type": "grid", "w": nc, "h": 1, "d": 1, "vol": 2.0,
                "bc": {"x": "periodical"} if nc == 3 else {}}
    nodes = [{"vol": [1.0, 8.0, 0.5][i], "env": 0} for i in range(nc)]
    edges = [[i, i + 1, 1.5 + i, 0.75 + i / 2] for i in range(nc - 1)]
    if nc == 3:
        edges.append([2, 0, 4.5, 2.25])
    return {"type": "graph", "nodes": nodes, "edges": edges}


STATE_INT = [4, 7, 2, 9, 5, 3, 8, 6, 1]


def gen_cases(tier, seed0):
    seeds = list(range(1000 * seed0, 1000 * seed0 + (2 if tier == "quick" else 8)))
    shapes = [(2, 1), (3, 1), (2, 2), (2, 3), (3, 2)] + ([(2, 4)] if tier == "thorough" else [])
    for (ns, nc) in shapes:
        labels = "ABC"[:ns]
        for mask in range(2 ** (ns * nc)):
            # a flag is any non-zero integer (the documentation's own example sets value=5): the k-th flagged entry of
            # every second map carries 1, 2 or 5
            chem = [(mask >> q) & 1 for q in range(ns * nc)]
            if mask % 2 == 1 or mask % 4 == 2:
                k = 0
                for q in range(ns * nc):
                    if chem[q]:
                        chem[q] = [1, 2, 5][k % 3]
                        k += 1
            for netname, reactions, D in _networks(ns):
                for gtype in ("grid", "graph"):
                    spec = {"species": [{"label": labels[s], "D": D[s]} for s in range(ns)],
                            "reactions": reactions, "envs": [""], "space": _space(gtype, nc),
                            "state": [float(v) for v in STATE_INT[:ns * nc]], "chemostats": chem}
                    c = {"shape": [ns, nc], "net": netname, "gtype": gtype, "spec": spec, "seeds": seeds}
                    if reactions and (ns * nc <= 4 or tier == "thorough"):
                        c["lattice"] = True      # (vi) full argument lattice of apply_reaction on this system
                    yield c


def _cmp_entries(tag, got, ref, scale, chem, out, extra=None):
    for q in range(len(ref)):
        if chem[q]:
            continue
        tol = TOL * scale[q] + (extra[q] if extra else 0.0) + 1e-300
        if not abs(got[q] - ref[q]) <= tol:
            out.append(("C03:%s:unflagged-entry-deviates" % tag,
                        "entry %d (not chemostated): got %.17g, rate law gives %.17g" % (q, got[q], ref[q])))
            return


def _maxpmf(lam):
    """max_j Poisson(lam; j) (attained at j = floor(lam))."""
    if not lam > 0:
        return 1.0
    j = math.floor(lam)
    return math.exp(-lam + j * math.log(lam) - math.lgamma(j + 1))


def _frozen_bound(spec, chem, d, dt, q):
    """Upper bound of P(entry q shows its initial value in every sample) under the documented tau-leap model (firings of
    channel c in a step ~ independent Poisson(a_c(x) dt), x += sum n_c effect_c): given the state of step k, the net change
    of q is zero only if the total count of the channels that change q by one given amount e takes one particular value,
    which has probability <= max_j Poisson(lambda_e; j); the product over the steps bounds the whole event
    (P(frozen throughout and product <= eps) <= eps, optional stopping)."""
    bound = 1.0
    for k in range(len(d) - 1):
        groups = {}
        for name, prop, eff in cme.channels(spec, d[k], chem):
            e = eff.get(q, 0)
            if e and prop > 0:
                groups[e] = groups.get(e, 0.0) + prop * dt
        if groups:
            bound *= min(_maxpmf(lam) for lam in groups.values())
    return bound


def _engines(out, spec, system, seeds, dt, nsteps, gil_tmax=0.15, gil_iter=120, engines=None):
    """`engines`: {kind: engine object} to run on (an object that may have served before); default: a new one per run."""
    chem = spec["chemostats"]
    x0 = spec["state"]
    n = len(x0)
    for kind in eng.KINDS:
        for seed in (seeds if kind != "euler" else seeds[:1]):
            try:
                sc_ = {"system": spec, "t_sample": [0], "policy": "on_iteration", "seed": seed, "isp": "none",
                       "time_step": dt, "t_max": (nsteps * dt - dt / 2) if kind != "gillespie" else gil_tmax}
                script = models.build_script(sc_, system=system)
                if engines is not None:
                    traj, nit = eng.run_to_completion(engines[kind], script, max_iter=max(gil_iter, nsteps + 5))
                else:
                    traj, nit = eng.simulate(kind, script, max_iter=max(gil_iter, nsteps + 5))
                t, d = models.traj_arrays(traj)
            except Exception as e:
                out.append(("C03:%s:unexpected-exception" % kind, "%s: %s" % (type(e).__name__, e)))
                continue
            if not d or d[0] != [float(v) for v in x0]:
                out.append(("C03:%s:t0-record" % kind, "first record %r is not the initial state %r" % (d[:1], x0)))
                continue
            bad = False
            for k, rec in enumerate(d):
                for q in range(n):
                    if chem[q] and _bits(rec[q]) != _bits(x0[q]):
                        out.append(("C03:%s:flagged-entry-changed" % kind,
                                    "seed %d sample %d: chemostated entry %d went %.17g -> %.17g" % (seed, k, q, x0[q], rec[q])))
                        bad = True
                        break
                if bad:
                    break
            if bad:
                continue
            if kind == "euler":
                for k in range(len(d) - 1):
                    ref, rsc = ratelaw.euler_step(spec, d[k], dt, chemostats=chem)
                    before = len(out)
                    _cmp_entries("euler-step", d[k + 1], ref, rsc, chem, out,
                                 extra=[4e-16 * (abs(v) + abs(w)) for v, w in zip(d[k], d[k + 1])])
                    if len(out) > before:
                        break
            elif kind == "gillespie":
                logb = [0.0] * n          # log of the bound of P(entry untouched by every event so far) under the CME event law
                legal = True
                logeff, seen_eff = {}, set()    # the same bound per enabled EVENT (effect on the state), and the events seen
                for k in range(len(d) - 1):
                    chs = cme.channels(spec, d[k], chem)
                    tab, a0 = cme.effect_table(chs)
                    dk = cme.diff_key(d[k], d[k + 1])
                    if dk not in tab:
                        if n > 16:      # wide states: the change only
                            what = "seed %d step %d: the change %r (entry, delta) of the %d-entry state" % (seed, k, dk, n)
                        else:
                            what = "seed %d step %d: %r -> %r (change %r)" % (seed, k, d[k], d[k + 1], dk)
                        out.append(("C03:gillespie:illegal-step",
                                    ("%s is not an enabled event with the chemostat exemption; enabled effects: %r"
                                     % (what, sorted(tab)))[:900]))
                        legal = False
                        break
                    seen_eff.add(dk)
                    if a0 > 0:
                        for ek, a in tab.items():
                            logeff[ek] = logeff.get(ek, 0.0) + (math.log1p(-a / a0) if a < a0 else -1e9)
                    if a0 > 0:
                        touch = {}
                        for name, prop, eff in chs:
                            if prop > 0:
                                for q in eff:
                                    touch[q] = touch.get(q, 0.0) + prop
                        for q, a in touch.items():
                            logb[q] += math.log1p(-min(a / a0, 1.0)) if a < a0 else -1e9
                if legal and len(d) > 1:
                    # an enabled event that changes the state (the null event of a fully chemostated reaction is left out: an
                    # engine may skip it) is taken with probability a_e / a0 at every step it is enabled in
                    for ek in sorted(logeff):
                        if ek and ek not in seen_eff and logeff[ek] <= math.log(FROZEN_EPS):
                            out.append(("C03:gillespie:enabled-event-never-taken",
                                        "seed %d: the event with effect %r (entry, delta) is enabled but never taken in %d events: "
                                        "P <= %.3g under the master equation with the chemostat exemption"
                                        % (seed, ek, len(d) - 1, math.exp(max(logeff[ek], -700.0)))))
                            break
                    # a channel that feeds an unflagged entry (e.g. the outgoing jumps of a chemostated neighbour) is taken
                    # with its CME probability a_c / a0: P(never in all these events) <= exp(logb)
                    for q in range(n):
                        if not chem[q] and logb[q] <= math.log(FROZEN_EPS) and all(rec[q] == x0[q] for rec in d):
                            out.append(("C03:gillespie:unflagged-entry-frozen",
                                        "seed %d: entry %d (not chemostated, amount %g) is touched by none of the %d events although the "
                                        "channels that change it have probability a/a0 at every step: P <= %.3g under the master equation"
                                        % (seed, q, x0[q], len(d) - 1, math.exp(max(logb[q], -700.0)))))
                            break
            else:  # tau-leap: unflagged entries stay integers; flagged handled above
                for k, rec in enumerate(d):
                    if any(v != round(v) for v in rec):
                        out.append(("C03:tauleap:non-integer", "seed %d sample %d: %r" % (seed, k, rec[:40])))
                        bad = True
                        break
                if bad or len(d) < 2:
                    continue
                # an unflagged entry ignores the flags of the other entries: it may not be frozen when its own channels
                # make that (practically) impossible
                for q in range(n):
                    if chem[q] or any(rec[q] != x0[q] for rec in d):
                        continue
                    b = _frozen_bound(spec, chem, d, dt, q)
                    if b <= FROZEN_EPS:
                        out.append(("C03:tauleap:unflagged-entry-frozen",
                                    "seed %d: entry %d (not chemostated, amount %g) keeps its initial value in all %d samples; under "
                                    "the Poisson-firings model this has probability <= %.3g" % (seed, q, x0[q], len(d), b)))
                        break


STATE_FORMS = ["omitted", "list", "tuple", "ndarray", "UnitArray"]
MAP_FORMS = ["list", "tuple", "ndarray"]
MAP_VARIANTS = ["complement", "flip-one"]


def _carrier(form, values, system=None):
    import numpy as np
    if form == "list":
        return list(values)
    if form == "tuple":
        return tuple(values)
    if form == "ndarray":
        return np.array(values)
    from strengths.units import UnitArray
    return UnitArray([float(v) for v in values], "molecule")


def _apply_lattice(system, spec, out):
    """(vi) every combination of the documented arguments of apply_reaction.  The documentation: state "State to which the
    reaction should be applied. if None, the system state is used instead"; chemostats "Chemostat map to be used. If None,
    the one of the system is used instead"; update "tells whether the resulting state should be set as the system state".
    Oracle (statement): entries flagged in the map in effect do not change, the other entries of the target cell change
    by n x the stoichiometric difference, all other cells are untouched."""
    chem = spec["chemostats"]
    x0 = [float(v) for v in spec["state"]]
    ns = len(spec["species"])
    n = len(x0)
    nc = n // ns
    xs = [x0[q] + 10.0 + q for q in range(n)]          # an explicit state that differs from the system's own everywhere
    irr = ratelaw.irreversible(spec)
    call = 0
    try:
        for ri in range(len(spec["reactions"])):
            nu = irr[2 * ri][1]
            for pos in range(nc):
                maps = [None]
                comp = [0 if chem[q] else 3 for q in range(n)]                     # every flag inverted (set flags carry 3)
                one = [int(v) for v in chem]
                qf = ((ri + pos) % ns) * nc + pos                                   # one entry of the target cell inverted
                one[qf] = 0 if one[qf] else 1
                for mform in MAP_FORMS:
                    maps.append((mform, "complement", comp))
                    maps.append((mform, "flip-one", one))
                for sform in STATE_FORMS:
                    for m in maps:
                        for update in (False, True):
                            for how in ("positional", "keyword"):
                                nn = (1, -1, 2)[call % 3]
                                call += 1
                                kw = {"position": pos, "n": nn}
                                if sform != "omitted":
                                    kw["state"] = _carrier(sform, xs)
                                if m is not None:
                                    kw["chemostats"] = _carrier(m[0], m[2])
                                if update:
                                    kw["update"] = True
                                desc = "apply_reaction(%s%d, position=%d, n=%d%s%s%s)" % (
                                    "reaction=" if how == "keyword" else "", ri, pos, nn,
                                    ", state=<%s>" % sform if sform != "omitted" else "",
                                    ", chemostats=<%s %s %r>" % (m[0], m[1], m[2]) if m is not None else "",
                                    ", update=True" if update else "")
                                if how == "keyword":
                                    st = system.apply_reaction(reaction=ri, **kw)
                                else:
                                    st = system.apply_reaction(ri, **kw)
                                base = xs if sform != "omitted" else x0
                                eff = m[2] if m is not None else chem
                                exp = [base[q] + (nn * nu[q // nc] if (q % nc == pos and not eff[q]) else 0) for q in range(n)]
                                got = [float(v) for v in st.value]
                                tag = ":explicit-map" if m is not None else ""
                                for q in range(n):
                                    if got[q] != exp[q]:
                                        out.append(("C03:apply_reaction:%s%s" % ("flagged-entry-changed" if eff[q] else "wrong-entry", tag),
                                                    "%s on own map %r, own state %r: entry %d (%s in the map in effect) became %.6g, expected %.6g"
                                                    % (desc, chem, x0, q, "flagged" if eff[q] else "not flagged", got[q], exp[q])))
                                        raise StopIteration
                                now = [float(v) for v in system.state.value]
                                if update:
                                    if now != exp:
                                        out.append(("C03:apply_reaction:update-state%s" % tag,
                                                    "%s: system state afterwards %r, expected %r" % (desc, now, exp)))
                                        raise StopIteration
                                    system.state = list(x0)
                                    if [float(v) for v in system.state.value] != x0:
                                        out.append(("C03:checker:state-restore", "system.state = list did not restore the state"))
                                        raise StopIteration
                                elif now != x0:
                                    out.append(("C03:apply_reaction:system-state-mutated%s" % tag,
                                                "%s changed the system state to %r" % (desc, now)))
                                    raise StopIteration
    except StopIteration:
        pass
    except Exception as e:
        out.append(("C03:apply_reaction:unexpected-exception", "call %d: %s: %s" % (call, type(e).__name__, e)))
    try:
        system.state = list(x0)
    except Exception:
        pass
    return call


WIDE_DT = 2.0 ** -4
WIDE_STEPS = 32


def _hot(ns):
    return [0, 1, 2, 30, 31, 32, 33] + ([34] if ns > 35 else []) + ([ns - 2, ns - 1] if ns > 35 else [])


def wide_spec(ns, gtype, flags):
    """ns species S0.. in 2 cells: S_i -> S_(i+1) (own rate constant), the last one decays; every D > 0.  The species around
    the indices of interest carry large amounts (most of the stochastic activity), the others small ones."""
    labels = ["S%d" % s for s in range(ns)]
    reactions = [{"eq": [[[labels[s], 1]], [[labels[s + 1], 1]]], "kf": 0.5 + (s % 7) * 0.125, "kr": 0.0} for s in range(ns - 1)]
    reactions.append({"eq": [[[labels[ns - 1], 1]], []], "kf": 1.0, "kr": 0.0})
    hot = _hot(ns)
    nc = 2
    state = [float(300 + 7 * (q % 5)) if (q // nc) in hot else float(12 + q % 4) for q in range(ns * nc)]
    chem = [0] * (ns * nc)
    for s, c, v in flags:
        chem[s * nc + c] = v
    if gtype == "grid":
        space = {"type": "grid", "w": 2, "h": 1, "d": 1, "vol": 2.0}
    else:
        space = {"type": "graph", "nodes": [{"vol": 1.0, "env": 0}, {"vol": 8.0, "env": 0}], "edges": [[0, 1, 1.5, 0.75]]}
    return {"species": [{"label": labels[s], "D": 0.5 + (s % 5) * 0.25} for s in range(ns)], "reactions": reactions,
            "envs": [""], "space": space, "state": state, "chemostats": chem}


def gen_wide(tier, seed0):
    seeds = list(range(1000 * seed0, 1000 * seed0 + (2 if tier == "quick" else 4)))
    for ns in (34, 66):
        singles = [0, 1, 30, 31, 32, 33, ns - 1]
        flagsets = []
        for k, s in enumerate(singles):
            # (the library's own engine set-up of a 66-species network takes ~0.5 s: quick alternates the flagged cell there)
            for c in ((0, 1) if (ns < 40 or tier == "thorough") else (k % 2,)):
                flagsets.append([[s, c, [1, 2, 5][(k + c) % 3]]])
        flagsets.append([[1, 0, 1], [33, 0, 1]])
        flagsets.append([[31, 0, 1], [32, 1, 2]])
        if tier == "thorough":
            flagsets.append([[0, 0, 1], [32, 0, 1]])
            flagsets.append([[31, 1, 1], [ns - 1, 1, 1]])
            flagsets.append([[s, 0, 1] for s in singles])
        for flags in flagsets:
            for gtype in ("grid", "graph"):
                yield {"wide": True, "shape": [ns, 2], "gtype": gtype, "flags": flags, "net": "chain of %d species" % ns,
                       "spec": wide_spec(ns, gtype, flags), "seeds": seeds if (ns < 40 or tier == "thorough") else seeds[:1]}


def check_wide(case):
    """(vii) the flag consulted is the one of that very species -- also for species indices beyond 31."""
    out = []
    spec = case["spec"]
    ns, nc = case["shape"]
    chem = spec["chemostats"]
    x0 = [float(v) for v in spec["state"]]
    try:
        system = models.build_system(spec)
    except Exception as e:
        return [("C03:build:unexpected-exception", "%s: %s" % (type(e).__name__, e))]
    # apply_reaction around the flagged species (the reaction that produces it and the one that consumes it)
    try:
        irr = ratelaw.irreversible(spec)
        for s, c, v in case["flags"]:
            for ri in sorted({max(s - 1, 0), s}):
                nu = irr[2 * ri][1]
                for pos in range(nc):
                    got = [float(w) for w in system.apply_reaction(ri, position=pos, n=1).value]
                    for q in range(ns * nc):
                        exp = x0[q] + (nu[q // nc] if (q % nc == pos and not chem[q]) else 0)
                        if got[q] != exp:
                            out.append(("C03:apply_reaction:%s" % ("flagged-entry-changed" if chem[q] else "wrong-entry"),
                                        "%d species, flags %r: reaction %d at cell %d: entry %d became %.6g, expected %.6g"
                                        % (ns, case["flags"], ri, pos, q, got[q], exp)))
                            raise StopIteration
    except StopIteration:
        pass
    except Exception as e:
        out.append(("C03:apply_reaction:unexpected-exception", "%s: %s" % (type(e).__name__, e)))
    _engines(out, spec, system, case["seeds"], WIDE_DT, WIDE_STEPS)
    return out



# ---------------------------------------------------------------------------------------------------------------------
# (viii) flag provenance: where the chemostat map IN EFFECT comes from.  Documentation: json_and_dict_doc.rst "chstt" (boolean =
# globally; dictionary environment label -> boolean, "default" key for the environments not listed, itself false by default);
# setting_up_initial_conditions.rst ("Default chemostats are generated based on the chstt attribute of the species, however, it
# is also possible to specify explicitly the chemostat distribution"); RDSystem(chemostats=), set_chemostat, reset_chemostats,
# set_default_chemostats.  Whatever the provenance, only the (species, cell) entry of the map in effect decides.

CHSTT_FORMS = [False, True, {"a": True, "b": False}, {"b": True}, {"a": False, "default": True},
               {"a": True, "b": False, "default": True}]
PROV_SPACES = [("grid", [0, 1, 1], 2), ("grid", [0, 1, 2], 3), ("graph", [0, 1, 1], 2), ("graph", [0, 1, 2], 3),
               ("grid", [1], 2), ("graph", [1], 2)]


DICT_ROUTES = ["dict-generated", "dict-inline", "dict-txt-blanks", "dict-txt-commas", "dict-npy"]


def system_dict(spec):
    """The description of `spec` as a dictionary for rdsystem_from_dict (default units), without the chemostat map."""
    sp = spec["space"]
    if sp["type"] == "grid":
        space = {"type": "grid", "w": sp["w"], "h": sp["h"], "d": sp["d"], "cell_env": list(ratelaw.cell_env(sp)),
                 "cell_volume": sp.get("vol", 1.0), "boundary_conditions": dict(sp.get("bc", {}))}
    else:
        space = {"type": "graph", "nodes": [{"volume": nd["vol"], "environment": nd["env"]} for nd in sp["nodes"]],
                 "edges": [{"nodes": [e[0], e[1]], "surface": e[2], "distance": e[3]} for e in sp["edges"]]}
    return {"network": {"species": [{"label": x["label"], "D": x["D"], "chstt": x.get("chstt", False)} for x in spec["species"]],
                        "reactions": [{"eq": models.eq_string(r["eq"]), "k+": r["kf"], "k-": r["kr"]} for r in spec["reactions"]],
                        "environments": list(spec["envs"])},
            "space": space, "state": [float(v) for v in spec["state"]]}


def build_by_route(spec, route):
    """setting_up_initial_conditions.rst: "chemostats" : [1, 0] in the system description; json_and_dict_doc.rst: "array of
    chemostats (0=false, 1=true)" or "path to a file containing the array of chemostats"."""
    import os
    import shutil
    import tempfile
    import numpy as np
    from strengths.rdsystem import rdsystem_from_dict
    d = system_dict(spec)
    m = spec.get("chemostats")
    tmp = None
    try:
        if m is not None:
            if route == "dict-inline":
                d["chemostats"] = [int(v) for v in m]
            else:
                tmp = tempfile.mkdtemp(dir="/var/tmp", prefix="c03-")
                if route == "dict-npy":
                    path = os.path.join(tmp, "chemostats.npy")
                    np.save(path, np.array(m, dtype=int))
                else:
                    path = os.path.join(tmp, "chemostats.txt")
                    with open(path, "w") as fh:
                        fh.write(" ".join(str(int(v)) for v in m) if route == "dict-txt-blanks"
                                 else ",\n".join(str(int(v)) for v in m) + "\n")
                d["chemostats"] = path
        return rdsystem_from_dict(d)
    finally:
        if tmp is not None:
            shutil.rmtree(tmp, ignore_errors=True)


def doc_flag(chstt, envlabel):
    if isinstance(chstt, dict):
        if envlabel in chstt:
            return 1 if chstt[envlabel] else 0
        return 1 if chstt.get("default", False) else 0
    return 1 if chstt else 0


def doc_generated_map(spec):
    env = ratelaw.cell_env(spec["space"])
    return [doc_flag(sp.get("chstt", False), spec["envs"][e]) for sp in spec["species"] for e in env]


def prov_expected(case):
    """The map in effect, from the documentation and the operations of the case."""
    spec = case["spec"]
    gen = doc_generated_map(spec)
    m = list(spec["chemostats"]) if spec.get("chemostats") is not None else list(gen)
    nc = case["shape"][1]
    for op in case["ops"]:
        if op[0] == "set":
            m[op[1] * nc + op[2]] = 1 if op[3] else 0
        elif op[0] == "reset":
            m = [0] * len(m)
        elif op[0] == "regenerate":
            m = list(gen)
    return m


def _prov_space(gtype, envs):
    nc = len(envs)
    if gtype == "grid":
        return {"type": "grid", "w": nc, "h": 1, "d": 1, "vol": 2.0, "env": list(envs), "bc": {"x": "periodical"} if nc == 3 else {}}
    nodes = [{"vol": [1.0, 8.0, 0.5][i], "env": envs[i]} for i in range(nc)]
    edges = [[i, i + 1, 1.5 + i, 0.75 + i / 2] for i in range(nc - 1)]
    if nc == 3:
        edges.append([2, 0, 4.5, 2.25])
    return {"type": "graph", "nodes": nodes, "edges": edges}


def gen_prov(tier, seed0):
    seeds = [1000 * seed0]
    nets = [n for n in _networks(2) if n[1]][:2]
    pairs = [(i, j) for i in range(len(CHSTT_FORMS)) for j in range(len(CHSTT_FORMS))]
    sub = [(i, (i + 2) % 6) for i in range(6)]         # quick: the operations on a sub-family of the flag pairs
    for si, (gtype, envs, nenv) in enumerate(PROV_SPACES):
        nc = len(envs)
        n = 2 * nc
        for pi, (i, j) in enumerate(pairs):
            for ni, (netname, reactions, Dc) in enumerate(nets):
                if tier == "quick" and ni != (pi + si) % len(nets):
                    continue
                spec0 = {"species": [{"label": "A", "D": Dc[0], "chstt": CHSTT_FORMS[i]}, {"label": "B", "D": Dc[1], "chstt": CHSTT_FORMS[j]}],
                         "reactions": reactions, "envs": ["a", "b", "c"][:nenv], "space": _prov_space(gtype, envs),
                         "state": [float(v) for v in STATE_INT[:n]]}
                gen = doc_generated_map(spec0)
                variants = [("generated", None, [])]
                if tier == "thorough" or (i, j) in sub:
                    for q in range(n):                 # one entry edited against what the species says, each entry in turn
                        variants.append(("edited-one", None, [["set", q // nc, q % nc, [0, 1][1 - gen[q]] * [1, True, 5][q % 3]]]))
                    variants.append(("edited-all", None, [["set", q // nc, q % nc, 0 if gen[q] else 1] for q in range(n)]))
                    variants.append(("explicit-zero", [0] * n, []))
                    variants.append(("explicit-complement", [0 if v else 1 for v in gen], []))
                    variants.append(("explicit-rotated", [gen[(q + 1) % n] for q in range(n)], []))
                    variants.append(("reset", None, [["reset"]]))
                    variants.append(("explicit-then-regenerated", [0 if v else 1 for v in gen], [["regenerate"]]))
                for mode, explicit, ops in variants:
                    spec = dict(spec0)
                    if explicit is not None:
                        spec["chemostats"] = explicit
                    yield {"prov": True, "mode": mode, "shape": [2, nc], "gtype": gtype, "net": netname, "spec": spec, "ops": ops,
                           "chstt": [CHSTT_FORMS[i], CHSTT_FORMS[j]], "seeds": seeds}
                # the description read by rdsystem_from_dict: the map written inline, in a text file (blank / comma+newline
                # separated 0 and 1), in a .npy file, or left to the species flags
                if (i, j) in sub and (tier == "thorough" or (i + si) % 3 == 0):
                    alt = [[(q + k) % 2 for q in range(n)] for k in (0, 1)]
                    for route in DICT_ROUTES:
                        for k, m in enumerate(alt if route != "dict-generated" else [None]):
                            spec = dict(spec0)
                            if m is not None:
                                spec["chemostats"] = m
                            yield {"prov": True, "mode": route, "route": route, "shape": [2, nc], "gtype": gtype, "net": netname,
                                   "spec": spec, "ops": [], "chstt": [CHSTT_FORMS[i], CHSTT_FORMS[j]], "seeds": seeds}


def check_prov(case):
    out = []
    spec = case["spec"]
    ns, nc = case["shape"]
    n = ns * nc
    x0 = spec["state"]
    chem = prov_expected(case)
    how = "species chstt %r, cell environments %r, %s map%s" % (case["chstt"], ratelaw.cell_env(spec["space"]), case["mode"],
                                                             (" %r" % (case["ops"],)) if case["ops"] else "")
    try:
        system = build_by_route(spec, case["route"]) if case.get("route") else models.build_system(spec)
        for op in case["ops"]:
            if op[0] == "set":
                system.set_chemostat(op[1] if op[2] % 2 == 0 else spec["species"][op[1]]["label"], op[2], op[3])
            elif op[0] == "reset":
                system.reset_chemostats()
            else:
                system.set_default_chemostats()
        got_map = [int(v) for v in system.chemostats]
    except Exception as e:
        return [("C03:provenance:build:unexpected-exception", "%s: %s: %s" % (how, type(e).__name__, e))]
    if [1 if v else 0 for v in got_map] != chem:
        return [("C03:provenance:chemostat-map:%s" % case["mode"], "%s: system.chemostats = %r, documented map %r" % (how, got_map, chem))]
    eff = dict(spec, chemostats=chem)
    f, sc = ratelaw.rhs(eff, apply_chemostats=True)
    f2, sc2 = ratelaw.rhs(eff, apply_chemostats=False)
    # kinetics, whole state and entry by entry
    try:
        a = [float(v) for v in kinetics.compute_dstatedt(system, apply_chemostats=True).value]
        for q in range(n):
            if chem[q] and a[q] != 0.0:
                out.append(("C03:compute_dstatedt:flagged-entry-nonzero", "%s: entry %d is chemostated, derivative %.6g" % (how, q, a[q])))
                break
        _cmp_entries("compute_dstatedt", a, f, sc, chem, out)
        if case["mode"] == "generated":      # (the pure-Python kinetics is the cost of these cases)
            a2 = [float(v) for v in kinetics.compute_dstatedt(system, apply_chemostats=False).value]
            _cmp_entries("compute_dstatedt(apply_chemostats=False)", a2, f2, sc2, [0] * n, out)
    except Exception as e:
        out.append(("C03:compute_dstatedt:unexpected-exception", "%s: %s: %s" % (how, type(e).__name__, e)))
    try:
        b = []
        for q in range(n):
            sidx, c = divmod(q, nc)
            b.append(float(kinetics.compute_dspeciesdt(system, sidx if c % 2 else spec["species"][sidx]["label"], c).value))
        for q in range(n):
            if chem[q] and b[q] != 0.0:
                out.append(("C03:compute_dspeciesdt:flagged-entry-nonzero", "%s: entry %d is chemostated, derivative %.6g" % (how, q, b[q])))
                break
        _cmp_entries("compute_dspeciesdt", b, f, sc, chem, out)
    except Exception as e:
        out.append(("C03:compute_dspeciesdt:unexpected-exception", "%s: %s: %s" % (how, type(e).__name__, e)))
    if nc == 1:
        try:
            g = [float(v) for v in system.make_dxdtf()(0.0, list(x0))]
            for q in range(n):
                if chem[q] and g[q] != 0.0:
                    out.append(("C03:make_dxdtf:flagged-entry-nonzero", "%s: entry %d chemostated, rhs %.6g" % (how, q, g[q])))
                    break
            _cmp_entries("make_dxdtf", g, f, sc, chem, out)
        except Exception as e:
            out.append(("C03:make_dxdtf:unexpected-exception", "%s: %s: %s" % (how, type(e).__name__, e)))
    try:
        irr = ratelaw.irreversible(spec)
        for ri in range(len(spec["reactions"])):
            nu = irr[2 * ri][1]
            for pos in range(nc):
                for nn in (1, -1):
                    got = [float(v) for v in system.apply_reaction(ri, position=pos, n=nn).value]
                    for q in range(n):
                        exp = x0[q] + (nn * nu[q // nc] if (q % nc == pos and not chem[q]) else 0)
                        if got[q] != exp:
                            out.append(("C03:apply_reaction:%s" % ("flagged-entry-changed" if chem[q] else "wrong-entry"),
                                        "%s: reaction %d at cell %d n=%d: entry %d became %.6g, expected %.6g" % (how, ri, pos, nn, q, got[q], exp)))
                            raise StopIteration
    except StopIteration:
        pass
    except Exception as e:
        out.append(("C03:apply_reaction:unexpected-exception", "%s: %s: %s" % (how, type(e).__name__, e)))
    _engines(out, eff, system, case["seeds"], DT, 2, gil_iter=24)
    return [(k, w if w.startswith(how) else "%s: %s" % (how, w)) for k, w in out]


# ---------------------------------------------------------------------------------------------------------------------
# (ix) reservoir cells: EVERY species of a cell flagged, next to free cells that hold nothing.  "It still acts as ... a
# diffusion source and sink for its neighbours": the free neighbours are fed by the reservoir's outgoing jumps.

RES_DT = 2.0 ** -4
RES_STEPS = 32


def _res_space(name):
    if name == "grid2":
        return 2, {"type": "grid", "w": 2, "h": 1, "d": 1, "vol": 2.0}
    if name == "grid3":
        return 3, {"type": "grid", "w": 3, "h": 1, "d": 1, "vol": 2.0}
    if name == "grid3p":
        return 3, {"type": "grid", "w": 3, "h": 1, "d": 1, "vol": 2.0, "bc": {"x": "periodical"}}
    if name == "grid2x2":
        return 4, _space("grid", 4)
    if name == "graph2":
        return 2, _space("graph", 2)
    if name == "graph3":
        return 3, _space("graph", 3)
    return 4, _space("graph", 4)


def gen_res(tier, seed0):
    seeds = list(range(1000 * seed0, 1000 * seed0 + (2 if tier == "quick" else 4)))
    nets = [("A diffuses", ["A"], [], [2.0], [400.0]),
            ("A<->B+diff", ["A", "B"], [{"eq": [[["A", 1]], [["B", 1]]], "kf": 3.0, "kr": 5.0}], [2.0, 3.0], [400.0, 300.0]),
            ("A<->B+diff, reservoir holds no B", ["A", "B"], [{"eq": [[["A", 1]], [["B", 1]]], "kf": 3.0, "kr": 5.0}], [2.0, 3.0], [400.0, 0.0])]
    if tier == "thorough":
        nets.append(("A decays", ["A"], [{"eq": [[["A", 1]], []], "kf": 1.5, "kr": 0.0}], [1.0], [350.0]))
    for sname in ("grid2", "grid3", "grid3p", "grid2x2", "graph2", "graph3", "graph4"):
        nc, space = _res_space(sname)
        for netname, labels, reactions, Dc, amount in nets:
            ns = len(labels)
            for rc in range(nc):           # the reservoir cell
                chem = [0] * (ns * nc)
                state = [0.0] * (ns * nc)
                for si in range(ns):
                    chem[si * nc + rc] = [1, 2, 5][(rc + si) % 3]
                    state[si * nc + rc] = amount[si]
                spec = {"species": [{"label": labels[si], "D": Dc[si]} for si in range(ns)], "reactions": reactions, "envs": [""],
                        "space": space, "state": state, "chemostats": chem}
                yield {"res": True, "shape": [ns, nc], "gtype": space["type"], "space_name": sname, "net": netname, "reservoir": rc,
                       "spec": spec, "seeds": seeds}


def check_res(case):
    out = []
    spec = case["spec"]
    try:
        system = models.build_system(spec)
    except Exception as e:
        return [("C03:build:unexpected-exception", "%s: %s" % (type(e).__name__, e))]
    _engines(out, spec, system, case["seeds"], RES_DT, RES_STEPS)
    how = "%s on %s, every species of cell %d chemostated, the other cells empty" % (case["net"], case["space_name"], case["reservoir"])
    return [(k, "%s: %s" % (how, w)) for k, w in out]


# ---------------------------------------------------------------------------------------------------------------------
# (x) engine-object histories: ONE engine object per engine kind simulates a system with map M1, then a system with the same
# network, space and units but map M2.  The map in effect of the second run is M2.

HIST_DT = 2.0 ** -5
HIST_STEPS = 8
HIST_MODES = ["set_chemostat", "assign", "fresh", "reset"]


def gen_hist(tier, seed0):
    seeds = list(range(1000 * seed0, 1000 * seed0 + (1 if tier == "quick" else 2)))
    ns, nc = 2, 2
    n = ns * nc
    netname, reactions, Dc = _networks(2)[0]
    idx = 0
    for gtype in ("grid", "graph"):
        for m1 in range(2 ** n):
            for m2 in range(2 ** n):
                if m1 == m2:
                    continue
                M1 = [((m1 >> q) & 1) * [1, 2, 5][q % 3] for q in range(n)]
                M2 = [((m2 >> q) & 1) * [1, 5, 2][q % 3] for q in range(n)]
                modes = HIST_MODES[:3] if tier == "thorough" else [HIST_MODES[idx % 3]]
                if m2 == 0:
                    modes = modes + ["reset"]
                idx += 1
                for mode in modes:
                    spec = {"species": [{"label": "AB"[si], "D": Dc[si]} for si in range(ns)], "reactions": reactions, "envs": [""],
                            "space": _space(gtype, nc), "state": [float(v) for v in STATE_INT[:n]], "chemostats": M1}
                    yield {"hist": True, "mode": mode, "shape": [ns, nc], "gtype": gtype, "net": netname, "spec": spec, "M2": M2,
                           "seeds": seeds}


def check_hist(case):
    out = []
    spec1 = case["spec"]
    spec2 = dict(spec1, chemostats=case["M2"])
    ns, nc = case["shape"]
    try:
        engines = {kind: eng.make_engine(kind) for kind in eng.KINDS}
        system = models.build_system(spec1)
    except Exception as e:
        return [("C03:build:unexpected-exception", "%s: %s" % (type(e).__name__, e))]
    _engines(out, spec1, system, case["seeds"], HIST_DT, HIST_STEPS, gil_iter=24, engines=engines)
    out = [(k, "first run on the engine objects, map %r: %s" % (spec1["chemostats"], w)) for k, w in out]
    try:
        mode = case["mode"]
        if mode == "fresh":
            system = models.build_system(spec2)
        elif mode == "assign":
            system.chemostats = [int(v) for v in case["M2"]]
        elif mode == "reset":
            system.reset_chemostats()
        else:
            for q in range(ns * nc):
                if bool(case["M2"][q]) != bool(spec1["chemostats"][q]) or case["M2"][q] != spec1["chemostats"][q]:
                    system.set_chemostat(q // nc, q % nc, case["M2"][q])
        got = [1 if v else 0 for v in system.chemostats]
        if got != [1 if v else 0 for v in case["M2"]]:
            return out + [("C03:engine-history:checker:map-not-set", "%s: system.chemostats = %r, wanted %r" % (mode, got, case["M2"]))]
    except Exception as e:
        return out + [("C03:engine-history:edit:unexpected-exception", "%s: %s: %s" % (case["mode"], type(e).__name__, e))]
    out2 = []
    _engines(out2, spec2, system, case["seeds"], HIST_DT, HIST_STEPS, gil_iter=24, engines=engines)
    how = "engine object that first simulated the same system with map %r, then (%s) map %r" % (spec1["chemostats"], case["mode"], case["M2"])
    for k, w in out2:
        parts = k.split(":")
        out.append((":".join(parts[:2] + ["engine-history"] + parts[2:]), "%s: %s" % (how, w)))
    return out


def check_case(case):
    if case.get("wide"):
        return check_wide(case)
    if case.get("hist"):
        return check_hist(case)
    if case.get("res"):
        return check_res(case)
    if case.get("prov"):
        return check_prov(case)
    out = []
    spec = case["spec"]
    ns, nc = case["shape"]
    chem = spec["chemostats"]
    x0 = spec["state"]
    n = ns * nc
    try:
        system = models.build_system(spec)
    except Exception as e:
        return [("C03:build:unexpected-exception", "%s: %s" % (type(e).__name__, e))]
    f, sc = ratelaw.rhs(spec, apply_chemostats=True)
    # (ii) kinetics
    try:
        a = [float(v) for v in kinetics.compute_dstatedt(system, apply_chemostats=True).value]
        for q in range(n):
            if chem[q] and a[q] != 0.0:
                s, c = divmod(q, nc)
                other = "another species" if any(chem[t * nc + c] == 0 for t in range(ns)) else ""
                out.append(("C03:compute_dstatedt:flagged-entry-nonzero",
                            "species %d cell %d is chemostated but its derivative is %.6g" % (s, c, a[q])))
                break
        _cmp_entries("compute_dstatedt", a, f, sc, chem, out)
        a2 = [float(v) for v in kinetics.compute_dstatedt(system, apply_chemostats=False).value]
        f2, sc2 = ratelaw.rhs(spec, apply_chemostats=False)
        _cmp_entries("compute_dstatedt(apply_chemostats=False)", a2, f2, sc2, [0] * n, out)
    except Exception as e:
        out.append(("C03:compute_dstatedt:unexpected-exception", "%s: %s" % (type(e).__name__, e)))
    if nc == 1:
        try:
            g = [float(v) for v in system.make_dxdtf()(0.0, list(x0))]
            for q in range(n):
                if chem[q] and g[q] != 0.0:
                    out.append(("C03:make_dxdtf:flagged-entry-nonzero", "entry %d chemostated, rhs %.6g" % (q, g[q])))
                    break
            _cmp_entries("make_dxdtf", g, f, sc, chem, out)
        except Exception as e:
            out.append(("C03:make_dxdtf:unexpected-exception", "%s: %s" % (type(e).__name__, e)))
    # (iv) apply_reaction
    try:
        labels = [s["label"] for s in spec["species"]]
        irr = ratelaw.irreversible(spec)
        for ri in range(len(spec["reactions"])):
            nu = irr[2 * ri][1]
            for pos in range(nc):
                for nn in (1, -1, 2):
                    st = system.apply_reaction(ri, position=pos, n=nn)
                    got = [float(v) for v in st.value]
                    for q in range(n):
                        s, c = divmod(q, nc)
                        exp = x0[q] + (nn * nu[s] if (c == pos and not chem[q]) else 0)
                        if got[q] != exp:
                            out.append(("C03:apply_reaction:%s" % ("flagged-entry-changed" if chem[q] else "wrong-entry"),
                                        "reaction %d at cell %d n=%d: entry %d became %.6g, expected %.6g" % (ri, pos, nn, q, got[q], exp)))
                            raise StopIteration
                    if [float(v) for v in system.state.value] != [float(v) for v in x0]:
                        out.append(("C03:apply_reaction:system-state-mutated", "update=False changed the system state"))
                        raise StopIteration
    except StopIteration:
        pass
    except Exception as e:
        out.append(("C03:apply_reaction:unexpected-exception", "%s: %s" % (type(e).__name__, e)))
    if case.get("lattice"):
        _apply_lattice(system, spec, out)
    _engines(out, spec, system, case["seeds"], DT, 5)
    return out


def gen_owned(tier):
    """(v) owned draws: for EVERY flag subset of a (2 species x 3 cells) periodic grid the Gillespie engine is driven, in
    one state, with every u of a grid (probe build): each event's u-measure must be its CME probability computed with
    chemostated entries acting as sources and sinks (exempt from the change only)."""
    from checks import c07_stochastic as c07
    ns, nc = 2, 3
    for mask in range(2 ** (ns * nc)):
        chem = [(mask >> q) & 1 for q in range(ns * nc)]
        spec = {"species": [{"label": "A", "D": 2.0}, {"label": "B", "D": 3.0}],
                "reactions": [{"eq": [[["A", 1]], [["B", 1]]], "kf": 3.0, "kr": 5.0}], "envs": [""],
                "space": {"type": "grid", "w": 3, "h": 1, "d": 1, "vol": 2.0, "bc": {"x": "periodical"}}, "chemostats": chem}
        yield {"owned": True, "sub": "owned", "name": "C03 flag subset %d on a periodic 3x1x1 grid" % mask, "spec": spec,
               "state": [2, 1, 3, 1, 2, 0], "M": 48 if tier == "quick" else 192, "shape": [ns, nc], "seeds": []}


_CASES = None


def _work(job):
    lo, hi = job
    acc = core.Acc()
    for case in _CASES[lo:hi]:
        if case.get("owned"):
            from checks import c07_stochastic as c07
            res, st = c07.check_owned(case)
            acc.add(states=1, transitions=st.get("transitions", 0), traces=st.get("transitions", 0), evaluations=1, nontrivial=1)
            acc.count("owned_draw_states")
            acc.count("probe_blind_cases", st.get("blind", 0))
            for key, what in res:
                acc.violation("C03" + key[3:], what, case)
            continue
        res = check_case(case)
        nflag = sum(case["spec"].get("chemostats") or [])
        nruns = 1 + 2 * len(case["seeds"])
        if case.get("prov"):
            exp = prov_expected(case)
            truthy = [1 if sp.get("chstt") else 0 for sp in case["spec"]["species"]]
            nc_ = case["shape"][1]
            differs = any(truthy[q // nc_] and not exp[q] for q in range(len(exp)))
            acc.add(states=1, transitions=nruns + 3 + len(exp), traces=nruns + 3, evaluations=nruns + 3 + len(exp),
                    nontrivial=1 if any(truthy) else 0)
            acc.count("provenance_cases:" + case["mode"])
            acc.count("provenance_cases_free_entry_of_a_species_with_truthy_chstt", 1 if differs else 0)
            acc.count("engine_runs", nruns)
            for key, what in res:
                acc.violation(key, what, case)
            continue
        if case.get("hist"):
            acc.add(states=1, transitions=2 * nruns + 1, traces=2 * nruns, evaluations=2 * nruns, nontrivial=1)
            acc.count("engine_history_cases:" + case["mode"])
            acc.count("engine_runs", 2 * nruns)
            for key, what in res:
                acc.violation(key, what, case)
            continue
        if case.get("res"):
            acc.add(states=1, transitions=nruns, traces=nruns, evaluations=nruns, nontrivial=1)
            acc.count("reservoir_cases:" + case["gtype"])
            acc.count("engine_runs", nruns)
            for key, what in res:
                acc.violation(key, what, case)
            continue
        if case.get("wide"):
            acc.count("wide_cases_%d_species" % case["shape"][0])
            acc.add(states=1, transitions=nruns, traces=nruns, evaluations=nruns, nontrivial=1)
            acc.count("wide_cases_with_flag_on_species_index>=31", 1 if any(f[0] >= 31 for f in case["flags"]) else 0)
            acc.count("engine_runs", nruns)
            for key, what in res:
                acc.violation(key, what, case)
            continue
        ncalls = 0
        if case.get("lattice"):
            ncalls = len(case["spec"]["reactions"]) * case["shape"][1] * len(STATE_FORMS) * (1 + len(MAP_FORMS) * len(MAP_VARIANTS)) * 4
            acc.count("apply_reaction_lattice_calls", ncalls)
            acc.count("apply_reaction_lattice_systems")
        acc.add(states=1, transitions=nruns + 2 + ncalls, traces=nruns + 2, evaluations=nruns + 2 + ncalls,
                nontrivial=1 if 0 < nflag else 0)
        acc.count("flag_maps_with_flag_on_species_index>=1",
                  1 if any(case["spec"]["chemostats"][case["shape"][1]:]) else 0)
        acc.count("engine_runs", nruns)
        for key, what in res:
            acc.violation(key, what, case)
    if lo == 0:
        acc.sample(_CASES[min(5, len(_CASES) - 1)])
    if _CASES[lo].get("wide") and lo > 0 and not _CASES[lo - 1].get("wide"):
        c = dict(_CASES[lo])
        c["spec"] = "wide_spec(%d, %r, flags)" % (c["shape"][0], c["gtype"])
        acc.sample(c)
    return acc.pack()


def run(ctx):
    global _CASES
    _CASES = list(gen_cases(ctx.tier, ctx.seed))
    nplain = len(_CASES)
    nlat = sum(1 for c in _CASES if c.get("lattice"))
    _CASES += list(gen_owned(ctx.tier))
    nowned = len(_CASES) - nplain
    _CASES += list(gen_wide(ctx.tier, ctx.seed))
    nwide = len(_CASES) - nplain - nowned
    _CASES += list(gen_prov(ctx.tier, ctx.seed))
    nprov = len(_CASES) - nplain - nowned - nwide
    _CASES += list(gen_res(ctx.tier, ctx.seed))
    nres = len(_CASES) - nplain - nowned - nwide - nprov
    _CASES += list(gen_hist(ctx.tier, ctx.seed))
    nhist = len(_CASES) - nplain - nowned - nwide - nprov - nres
    eng.so_path("plain")
    try:
        eng.so_path("probe")
    except Exception:
        pass
    nhead = nplain + nowned
    # the wide cases are the heaviest: small chunks, started first
    jobs = [(nhead + lo, nhead + hi) for lo, hi in pool.chunks(nwide, 2)] + pool.chunks(nhead, 12)
    jobs += [(nhead + nwide + lo, nhead + nwide + hi) for lo, hi in pool.chunks(nprov + nres + nhist, 16)]
    res = pool.pmap(_work, jobs, timeout=600)
    done = 0
    for job, r in zip(jobs, res):
        if isinstance(r, pool.Crash):
            ctx.violation("C03:engine-or-checker:worker-%s" % r.kind, r.detail, {"job": list(job), "first_case": _CASES[job[0]]})
            continue
        core.merge(ctx, r)
        done += job[1] - job[0]
    ctx.subspace("all chemostat subsets of (species,cells) in {(2,1),(3,1),(2,2),(2,3),(3,2)} (4+8+16+64+64 maps; thorough adds (2,4): 256 maps on a 2x2 grid / 4-node graph) x 4 networks (incl. a catalytic one) x "
                 "{grid,graph}; per system: kinetics (both modes), make_dxdtf (single cell), apply_reaction at every position "
                 "x n in {1,-1,2}, Euler (5 steps), tau-leap and Gillespie x seed window",
                 nplain, min(done, nplain), exhaustive=(done == len(_CASES)))
    ctx.subspace("owned draws (probe build): all 64 flag subsets of a 2-species periodic 3x1x1 grid; in one molecular state every u of "
                 "the grid {(k+1/2)/M} is supplied for both draws of a Gillespie step: legality, event measure vs CME probability "
                 "(chemostated entries keep their propensities), waiting-time quantiles", nowned,
                 nowned if done == len(_CASES) else 0, exhaustive=(done == len(_CASES)))
    ctx.subspace("apply_reaction argument lattice on every system with a reaction of the shapes (2,1), (3,1), (2,2) (thorough: all "
                 "shapes), all flag subsets as the system's own map: per (reaction, position) state in {omitted, list, tuple, "
                 "ndarray, UnitArray (values differing from the system's own)} x chemostats in {omitted, list / tuple / ndarray x "
                 "{every flag inverted, one entry of the target cell inverted}} x update in {False, True} x reaction positional / "
                 "keyword (n cycles through 1, -1, 2): map in effect respected, update=True sets / update=False keeps the system state",
                 nlat, nlat if done == len(_CASES) else 0, exhaustive=(done == len(_CASES)))
    ctx.subspace("wide networks: 34 and 66 species S0.. (S_i -> S_i+1 with own rate constants, last one decays, all D > 0) on a 2-cell "
                 "grid and a 2-node graph; one flag on species index 0, 1, 30, 31, 32, 33 or last in cell 0 and in cell 1 (quick, 66 "
                 "species: cells alternate, one seed) (values 1, 2, 5) plus flag pairs (thorough: more pairs and all seven); apply_reaction around the flagged species; Euler %d steps "
                 "vs reference, tau-leap (flagged constant, integers, no impossible frozen entry), Gillespie 120 legal events x "
                 "seed window" % WIDE_STEPS, nwide, nwide if done == len(_CASES) else 0, exhaustive=(done == len(_CASES)))
    ctx.subspace("engine-object histories: one engine object per kind simulates A<->B+diffusion on a 2x2 grid / 4-node graph with map "
                 "M1, then the same network / space / units with map M2 -- every ordered pair of different flag subsets of the 2x2 "
                 "entries (240; flag values 1, 2, 5), M2 installed by set_chemostat entry by entry / chemostats = [...] / a fresh "
                 "system object (quick: one of the three per pair in turn; thorough: all) / reset_chemostats (M2 empty): both runs "
                 "judged as everywhere (flagged of the map in effect bit-constant, Euler %d steps vs reference, tau-leap, <= 24 legal "
                 "Gillespie events)" % HIST_STEPS, nhist, nhist if done == len(_CASES) else 0, exhaustive=(done == len(_CASES)))
    ctx.subspace("reservoir cells: every species of one cell flagged (values 1, 2, 5; 400 / 300 molecules, or no B), all other cells "
                 "empty and free, every D > 0; networks {A diffuses, A<->B, A<->B with an empty-B reservoir (thorough: + A decays)} x "
                 "spaces {2x1x1, 3x1x1, periodic 3x1x1, 2x2x1 grids, 2-, 3-, 4-node graphs} x each cell as the reservoir; Euler %d "
                 "steps vs reference, tau-leap %d steps and 120 Gillespie events x seed window: flagged constant, legal events, no "
                 "unflagged entry frozen with probability bound <= %g (the free neighbours must be fed by the reservoir)"
                 % (RES_STEPS, RES_STEPS, FROZEN_EPS), nres, nres if done == len(_CASES) else 0, exhaustive=(done == len(_CASES)))
    ctx.subspace("flag provenance: 2 species x {3-cell periodic grid, 3-node graph} x cell environments {[a,b,b], [a,b,c]} + single "
                 "cell / node in environment b; Species.chstt of each species in {False, True, {a:T,b:F}, {b:T}, {a:F,default:T}, "
                 "{a:T,b:F,default:T}} (all 36 pairs); map in effect: generated by the system; generated then edited with set_chemostat "
                 "against the species flag (each entry in turn, values 0 / 1 / True / 5; all entries); explicit all-zero / complement / "
                 "rotated map given to RDSystem over truthy species flags; reset_chemostats; explicit then set_default_chemostats; the "
                 "description read by rdsystem_from_dict with the map left to the species flags / written inline / in a text file "
                 "(blank or comma+newline separated) / in a .npy file (alternating 0/1 maps) "
                 "(quick: the operations on 6 of the 36 pairs, networks alternate; thorough: everything x 2 networks; unmasked mode on the generated maps): system.chemostats "
                 "vs the documented map, compute_dstatedt (both modes), compute_dspeciesdt per entry, make_dxdtf (single cell), "
                 "apply_reaction, 2 steps of Euler / tau-leap, <= 24 Gillespie events", nprov,
                 nprov if done == len(_CASES) else 0, exhaustive=(done == len(_CASES)))
    ctx.rule("one case per (shape, flag subset, network, space type); non-trivial = at least one entry flagged; all "
             "2^(species*cells) subsets are enumerated so a wrong-species / wrong-cell flag lookup cannot hide")
    ctx.assume("reference rate law and CME channel model (mc/ref); seed window [1000*VERIF_SEED, +2 quick / +8 thorough)")
    ctx.assume("tau-leap 'unflagged-entry-frozen': documented model (DESIGN A.3: firings of a channel in a step ~ independent "
               "Poisson(a dt)); Gillespie 'unflagged-entry-frozen': CME event law (event c with probability a_c / a0); reported only "
               "when the probability bound of the observation is <= %g" % FROZEN_EPS)
    ctx.note("seed_window", [_CASES[0]["seeds"][0], _CASES[0]["seeds"][-1]])


def replay(case):
    if case.get("owned"):
        from checks import c07_stochastic as c07
        return [("C03" + k[3:], w) for k, w in c07.check_owned(case)[0]]
    return check_case(case)
