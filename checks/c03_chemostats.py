"""C03 — chemostated entries never change; everything else ignores the flag.

E1 over ALL chemostat subsets of small species x cell shapes ((2,2), (2,3), (3,2), and single cells for the
exported ODE right-hand side), x networks x {grid, graph}:
  (i)   every flagged entry keeps its t=0 value bit-for-bit in every sample of every engine (seed window);
  (ii)  compute_dstatedt / make_dxdtf: exactly 0 at flagged entries, reference rate law elsewhere (flagged
        entries still act as reactants and diffusion sources/sinks);
  (iii) each Euler step of unflagged entries equals the reference step from the previous recorded state;
  (iv)  apply_reaction at every position changes exactly the unflagged entries of that cell by n*delta;
  (v)   every Gillespie step is a legal event of the CME model with the chemostat exemption applied.
"""
import itertools
import struct

from mc import core, pool, models, eng, uq
from mc.ref import ratelaw, cme, si

core.setup_paths()
from strengths import kinetics  # noqa: E402

TOL = 1e-9
DT = 2.0 ** -8


def _bits(x):
    return struct.pack("<d", float(x))


def _networks(ns):
    if ns == 2:
        return [
            ("A<->B+diff", [{"eq": [[["A", 1]], [["B", 1]]], "kf": 3.0, "kr": 5.0}], [2.0, 3.0]),
            ("2A->B+diff", [{"eq": [[["A", 2]], [["B", 1]]], "kf": 0.5, "kr": 0.25}], [1.0, 0.0]),
            ("diffusion", [], [2.0, 3.0]),
            ("A+B->2B,B->A", [{"eq": [[["A", 1], ["B", 1]], [["B", 2]]], "kf": 0.5, "kr": 0.0},
                              {"eq": [[["B", 1]], [["A", 1]]], "kf": 1.5, "kr": 0.0}], [0.5, 1.0]),
        ]
    return [
        ("A+B<->C+diff", [{"eq": [[["A", 1], ["B", 1]], [["C", 1]]], "kf": 0.5, "kr": 2.0}], [2.0, 3.0, 5.0]),
        ("A->B,B->C", [{"eq": [[["A", 1]], [["B", 1]]], "kf": 2.0, "kr": 0.0},
                       {"eq": [[["B", 1]], [["C", 1]]], "kf": 3.0, "kr": 1.0}], [0.0, 1.0, 2.0]),
        ("diffusion", [], [2.0, 3.0, 5.0]),
        # a species on both sides (catalyst B) whose amount changes through a second reaction
        ("A+B->C+B,B->A", [{"eq": [[["A", 1], ["B", 1]], [["C", 1], ["B", 1]]], "kf": 0.5, "kr": 0.0},
                           {"eq": [[["B", 1]], [["A", 1]]], "kf": 1.5, "kr": 0.25}], [0.0, 1.0, 2.0]),
    ]


def _space(gtype, nc):
    if gtype == "grid" and nc == 4:
        return {"type": "grid", "w": 2, "h": 2, "d": 1, "vol": 2.0, "bc": {"y": "periodical"}}
    if gtype == "graph" and nc == 4:
        return {"type": "graph", "nodes": [{"vol": [1.0, 8.0, 0.5, 27.0][i], "env": 0} for i in range(4)],
                "edges": [[0, 1, 1.5, 0.75], [1, 2, 2.5, 1.25], [3, 1, 3.5, 1.75], [0, 3, 0.5, 2.0]]}
    if gtype == "grid":
        return {"type": "grid", "w": nc, "h": 1, "d": 1, "vol": 2.0,
                "bc": {"x": "periodical"} if nc == 3 else {}}
    nodes = [{"vol": [1.0, 8.0, 0.5][i], "env": 0} for i in range(nc)]
    edges = [[i, i + 1, 1.5 + i, 0.75 + i / 2] for i in range(nc - 1)]
    if nc == 3:
        edges.append([2, 0, 4.5, 2.25])
    return {"type": "graph", "nodes": nodes, "edges": edges}


STATE_INT = [4, 7, 2, 9, 5, 3, 8, 6, 1]


def gen_cases(tier, seed0):
    seeds = list(range(1000 * seed0, 1000 * seed0 + (2 if tier == "quick" else 8)))
    shapes = [(2, 1), (3, 1), (2, 2), (2, 3), (3, 2)] + ([(2, 4)] if tier == "thorough" else [])
    for (ns, nc) in shapes:
        labels = "ABC"[:ns]
        for mask in range(2 ** (ns * nc)):
            # a flag is any non-zero integer (the documentation's own example sets value=5): the k-th flagged entry of
            # every second map carries 1, 2 or 5
            chem = [(mask >> q) & 1 for q in range(ns * nc)]
            if mask % 2 == 1 or mask % 4 == 2:
                k = 0
                for q in range(ns * nc):
                    if chem[q]:
                        chem[q] = [1, 2, 5][k % 3]
                        k += 1
            for netname, reactions, D in _networks(ns):
                for gtype in ("grid", "graph"):
                    spec = {"species": [{"label": labels[s], "D": D[s]} for s in range(ns)],
                            "reactions": reactions, "envs": [""], "space": _space(gtype, nc),
                            "state": [float(v) for v in STATE_INT[:ns * nc]], "chemostats": chem}
                    yield {"shape": [ns, nc], "net": netname, "gtype": gtype, "spec": spec, "seeds": seeds}


def _cmp_entries(tag, got, ref, scale, chem, out, extra=None):
    for q in range(len(ref)):
        if chem[q]:
            continue
        tol = TOL * scale[q] + (extra[q] if extra else 0.0) + 1e-300
        if not abs(got[q] - ref[q]) <= tol:
            out.append(("C03:%s:unflagged-entry-deviates" % tag,
                        "entry %d (not chemostated): got %.17g, rate law gives %.17g" % (q, got[q], ref[q])))
            return


def check_case(case):
    out = []
    spec = case["spec"]
    ns, nc = case["shape"]
    chem = spec["chemostats"]
    x0 = spec["state"]
    n = ns * nc
    try:
        system = models.build_system(spec)
    except Exception as e:
        return [("C03:build:unexpected-exception", "%s: %s" % (type(e).__name__, e))]
    f, sc = ratelaw.rhs(spec, apply_chemostats=True)
    # (ii) kinetics
    try:
        a = [float(v) for v in kinetics.compute_dstatedt(system, apply_chemostats=True).value]
        for q in range(n):
            if chem[q] and a[q] != 0.0:
                s, c = divmod(q, nc)
                other = "another species" if any(chem[t * nc + c] == 0 for t in range(ns)) else ""
                out.append(("C03:compute_dstatedt:flagged-entry-nonzero",
                            "species %d cell %d is chemostated but its derivative is %.6g" % (s, c, a[q])))
                break
        _cmp_entries("compute_dstatedt", a, f, sc, chem, out)
        a2 = [float(v) for v in kinetics.compute_dstatedt(system, apply_chemostats=False).value]
        f2, sc2 = ratelaw.rhs(spec, apply_chemostats=False)
        _cmp_entries("compute_dstatedt(apply_chemostats=False)", a2, f2, sc2, [0] * n, out)
    except Exception as e:
        out.append(("C03:compute_dstatedt:unexpected-exception", "%s: %s" % (type(e).__name__, e)))
    if nc == 1:
        try:
            g = [float(v) for v in system.make_dxdtf()(0.0, list(x0))]
            for q in range(n):
                if chem[q] and g[q] != 0.0:
                    out.append(("C03:make_dxdtf:flagged-entry-nonzero", "entry %d chemostated, rhs %.6g" % (q, g[q])))
                    break
            _cmp_entries("make_dxdtf", g, f, sc, chem, out)
        except Exception as e:
            out.append(("C03:make_dxdtf:unexpected-exception", "%s: %s" % (type(e).__name__, e)))
    # (iv) apply_reaction
    try:
        labels = [s["label"] for s in spec["species"]]
        irr = ratelaw.irreversible(spec)
        for ri in range(len(spec["reactions"])):
            nu = irr[2 * ri][1]
            for pos in range(nc):
                for nn in (1, -1, 2):
                    st = system.apply_reaction(ri, position=pos, n=nn)
                    got = [float(v) for v in st.value]
                    for q in range(n):
                        s, c = divmod(q, nc)
                        exp = x0[q] + (nn * nu[s] if (c == pos and not chem[q]) else 0)
                        if got[q] != exp:
                            out.append(("C03:apply_reaction:%s" % ("flagged-entry-changed" if chem[q] else "wrong-entry"),
                                        "reaction %d at cell %d n=%d: entry %d became %.6g, expected %.6g" % (ri, pos, nn, q, got[q], exp)))
                            raise StopIteration
                    if [float(v) for v in system.state.value] != [float(v) for v in x0]:
                        out.append(("C03:apply_reaction:system-state-mutated", "update=False changed the system state"))
                        raise StopIteration
    except StopIteration:
        pass
    except Exception as e:
        out.append(("C03:apply_reaction:unexpected-exception", "%s: %s" % (type(e).__name__, e)))
    # engines
    for kind in eng.KINDS:
        for seed in (case["seeds"] if kind != "euler" else case["seeds"][:1]):
            try:
                sc_ = {"system": spec, "t_sample": [0], "policy": "on_iteration", "seed": seed, "isp": "none",
                       "time_step": DT, "t_max": (5 * DT - DT / 2) if kind != "gillespie" else 0.15}
                script = models.build_script(sc_, system=system)
                traj, nit = eng.simulate(kind, script, max_iter=120)
                t, d = models.traj_arrays(traj)
            except Exception as e:
                out.append(("C03:%s:unexpected-exception" % kind, "%s: %s" % (type(e).__name__, e)))
                continue
            if not d or d[0] != [float(v) for v in x0]:
                out.append(("C03:%s:t0-record" % kind, "first record %r is not the initial state %r" % (d[:1], x0)))
                continue
            bad = False
            for k, rec in enumerate(d):
                for q in range(n):
                    if chem[q] and _bits(rec[q]) != _bits(x0[q]):
                        out.append(("C03:%s:flagged-entry-changed" % kind,
                                    "seed %d sample %d: chemostated entry %d went %.17g -> %.17g" % (seed, k, q, x0[q], rec[q])))
                        bad = True
                        break
                if bad:
                    break
            if bad:
                continue
            if kind == "euler":
                for k in range(len(d) - 1):
                    ref, rsc = ratelaw.euler_step(spec, d[k], DT, chemostats=chem)
                    before = len(out)
                    _cmp_entries("euler-step", d[k + 1], ref, rsc, chem, out,
                                 extra=[4e-16 * (abs(v) + abs(w)) for v, w in zip(d[k], d[k + 1])])
                    if len(out) > before:
                        break
            elif kind == "gillespie":
                for k in range(len(d) - 1):
                    tab, a0 = cme.effect_table(cme.channels(spec, d[k], chem))
                    dk = cme.diff_key(d[k], d[k + 1])
                    if dk not in tab:
                        out.append(("C03:gillespie:illegal-step",
                                    "seed %d step %d: %r -> %r (change %r) is not an enabled event with the chemostat "
                                    "exemption; enabled effects: %r" % (seed, k, d[k], d[k + 1], dk, sorted(tab))[:900]))
                        break
            else:  # tau-leap: unflagged entries stay integers; flagged handled above
                for k, rec in enumerate(d):
                    if any(v != round(v) for v in rec):
                        out.append(("C03:tauleap:non-integer", "seed %d sample %d: %r" % (seed, k, rec)))
                        break
    return out


def gen_owned(tier):
    """(v) owned draws: for EVERY flag subset of a (2 species x 3 cells) periodic grid the Gillespie engine is driven, in
    one state, with every u of a grid (probe build): each event's u-measure must be its CME probability computed with
    chemostated entries acting as sources and sinks (exempt from the change only)."""
    from checks import c07_stochastic as c07
    ns, nc = 2, 3
    for mask in range(2 ** (ns * nc)):
        chem = [(mask >> q) & 1 for q in range(ns * nc)]
        spec = {"species": [{"label": "A", "D": 2.0}, {"label": "B", "D": 3.0}],
                "reactions": [{"eq": [[["A", 1]], [["B", 1]]], "kf": 3.0, "kr": 5.0}], "envs": [""],
                "space": {"type": "grid", "w": 3, "h": 1, "d": 1, "vol": 2.0, "bc": {"x": "periodical"}}, "chemostats": chem}
        yield {"owned": True, "sub": "owned", "name": "C03 flag subset %d on a periodic 3x1x1 grid" % mask, "spec": spec,
               "state": [2, 1, 3, 1, 2, 0], "M": 48 if tier == "quick" else 192, "shape": [ns, nc], "seeds": []}


_CASES = None


def _work(job):
    lo, hi = job
    acc = core.Acc()
    for case in _CASES[lo:hi]:
        if case.get("owned"):
            from checks import c07_stochastic as c07
            res, st = c07.check_owned(case)
            acc.add(states=1, transitions=st.get("transitions", 0), traces=st.get("transitions", 0), evaluations=1, nontrivial=1)
            acc.count("owned_draw_states")
            acc.count("probe_blind_cases", st.get("blind", 0))
            for key, what in res:
                acc.violation("C03" + key[3:], what, case)
            continue
        res = check_case(case)
        nflag = sum(case["spec"]["chemostats"])
        nruns = 1 + 2 * len(case["seeds"])
        acc.add(states=1, transitions=nruns + 2, traces=nruns + 2, evaluations=nruns + 2,
                nontrivial=1 if 0 < nflag else 0)
        acc.count("flag_maps_with_flag_on_species_index>=1",
                  1 if any(case["spec"]["chemostats"][case["shape"][1]:]) else 0)
        acc.count("engine_runs", nruns)
        for key, what in res:
            acc.violation(key, what, case)
    if lo == 0:
        acc.sample(_CASES[min(5, len(_CASES) - 1)])
    return acc.pack()


def run(ctx):
    global _CASES
    _CASES = list(gen_cases(ctx.tier, ctx.seed))
    nplain = len(_CASES)
    _CASES += list(gen_owned(ctx.tier))
    eng.so_path("plain")
    try:
        eng.so_path("probe")
    except Exception:
        pass
    jobs = pool.chunks(len(_CASES), 12)
    res = pool.pmap(_work, jobs, timeout=600)
    done = 0
    for job, r in zip(jobs, res):
        if isinstance(r, pool.Crash):
            ctx.violation("C03:engine-or-checker:worker-%s" % r.kind, r.detail, {"job": list(job), "first_case": _CASES[job[0]]})
            continue
        core.merge(ctx, r)
        done += job[1] - job[0]
    ctx.subspace("all chemostat subsets of (species,cells) in {(2,1),(3,1),(2,2),(2,3),(3,2)} (4+8+16+64+64 maps; thorough adds (2,4): 256 maps on a 2x2 grid / 4-node graph) x 4 networks (incl. a catalytic one) x "
                 "{grid,graph}; per system: kinetics (both modes), make_dxdtf (single cell), apply_reaction at every position "
                 "x n in {1,-1,2}, Euler (5 steps), tau-leap and Gillespie x seed window",
                 nplain, min(done, nplain), exhaustive=(done == len(_CASES)))
    ctx.subspace("owned draws (probe build): all 64 flag subsets of a 2-species periodic 3x1x1 grid; in one molecular state every u of "
                 "the grid {(k+1/2)/M} is supplied for both draws of a Gillespie step: legality, event measure vs CME probability "
                 "(chemostated entries keep their propensities), waiting-time quantiles", len(_CASES) - nplain,
                 len(_CASES) - nplain if done == len(_CASES) else 0, exhaustive=(done == len(_CASES)))
    ctx.rule("one case per (shape, flag subset, network, space type); non-trivial = at least one entry flagged; all "
             "2^(species*cells) subsets are enumerated so a wrong-species / wrong-cell flag lookup cannot hide")
    ctx.assume("reference rate law and CME channel model (mc/ref); seed window [1000*VERIF_SEED, +2 quick / +8 thorough)")
    ctx.note("seed_window", [_CASES[0]["seeds"][0], _CASES[0]["seeds"][-1]])


def replay(case):
    if case.get("owned"):
        from checks import c07_stochastic as c07
        return [("C03" + k[3:], w) for k, w in c07.check_owned(case)[0]]
    return check_case(case)
