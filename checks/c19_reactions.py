"""C19 — reaction equations: stoichiometry, order, rate-constant dimensions, split, K, network validity.

E1 bounded-exhaustive enumeration on the real Reaction / RDNetwork:

  eq*      equation texts (four spacing styles) -> per-species vectors, orders, k dimensions, print-parse
           fix-point, split sides; oracle = independent scanner mc/ref/reaction.py (and, redundantly, the
           term list the text was printed from)
  kbare    bare numbers, orders 0..8 x 0..8, 36 unit systems        -> exactly the units of the system
  kexp     explicit quantities (str / UnitValue) of the right dimension in any of 36 systems -> accepted,
           physical value kept
  kwrong   every other dimension of the cube {-1,0,1}^3 around the right one -> must raise
  kdict    per-environment dictionaries (with / without 'default', scalar-dict mixes), K per environment
  kdictwrong  one wrong entry anywhere in a dictionary -> must raise
  net*     RDNetwork constructor: undeclared species, duplicate species / reaction labels

Every accepted reaction with constants is also split() and its K compared with kf/kr in SI.
"""
import json
import os
import shutil
import tempfile
from fractions import Fraction as F

from mc import core, pool, uq
from mc.ref import si
from mc.ref import reaction as R

core.setup_paths()
from strengths.rdnetwork import Reaction, RDNetwork, Species, rdnetwork_from_dict, reaction_from_dict, load_rdnetwork  # noqa: E402
from strengths.rdsystem import load_rdsystem  # noqa: E402
from strengths.units import UnitValue, UnitsSystem  # noqa: E402

TOL = 1e-9
PID = "C19"

# unusual labels the label rules allow (no white space, no '+', no '->'); none ends with '-' or starts with
# '>' so that the minimal-spacing text stays unambiguous; digit-only labels are deliberately left out.
ULABELS = ["A_1", "α", "H2O", "2B", "Ca2", "X*", "a.b", "[C]", "A-B", "x>y", "é", "µM"]

S2 = R.sides(["A", "B", "C"], [None, 0, 1, 2, 3, 9], 2)      # 343
S2Q = R.sides(["A", "B", "C"], [None, 0, 2, 9], 2)           # 157 (quick tier)
S3 = R.sides(["A", "B"], [None, 2], 3)                        # 85
S4 = R.sides(["A", "B"], [None, 2], 4)                        # 341
SU2 = R.sides(ULABELS, [None, 2], 2)                          # 1 + 24 + 576 = 601
SU1 = R.sides(ULABELS, [None, 2], 1)                          # 25
# probe sides for the factorised spacing sub-space of the quick tier
PROBES = [[], [(None, "C")], [(0, "A")], [(2, "B"), (None, "B")], [(9, "A"), (3, "C")]]

SYS36 = si.systems36()
CUBE_OFF = [d for d in si.cube(-1, 1) if d != (0, 0, 0)]     # 26 wrong dimensions
ORDERS = list(range(9))
FORMS = ("single", "two", "repeat")
NET_EQS = ["A -> B", "A + B -> C", "-> C", "B ->", "2 A -> 3 A", "C + C -> A"]
NET_RLABELS = [None, "r1", "r2"]


# ---- small helpers ---------------------------------------------------------------------------------

def _side_of_order(n, form, x, y):
    """A side of order n over the labels x, y in one of three shapes."""
    if n == 0:
        return []
    if form == "single":
        return [(None if n == 1 else n, x)]
    if form == "two":
        if n == 1:
            return [(1, y)]
        a = n // 2
        return [(None if a == 1 else a, x), (n - a, y)]
    if form == "repeat":
        if n == 1:
            return [(1, x)]
        return [(None, x), (n - 1, x)]
    raise ValueError(form)


def _k_text(case):
    left = _side_of_order(case["n"], case["form"], "A", "B")
    right = _side_of_order(case["m"], case["form"], "B", "C")
    return R.write(left, right, "single")


def _terms(js):
    return [(None if c is None else int(c), l) for c, l in js]


def _eq_class(left, right):
    for s in (left, right):
        ls = [l for c, l in s]
        if len(set(ls)) != len(ls):
            return "repeated-species"
    if any(c == 0 for s in (left, right) for c, l in s):
        return "zero-coefficient"
    if not left or not right:
        return "empty-side"
    return "plain"


def _universe(left, right):
    """Species list the vectors are taken over: every label of the case in reversed order of first
    appearance, plus a label that occurs nowhere (its coefficient must be 0)."""
    seen = []
    for c, l in list(left) + list(right):
        if l not in seen:
            seen.append(l)
    seen.reverse()
    seen.insert(1 if seen else 0, "Zz")
    return seen


def _quantity(v, qsys, dim, qform):
    if qform == "UnitValue":
        return uq.mk_uv(v, qsys, dim)
    if qform == "str":
        return "%r %s" % (v, si.units_string(qsys, dim))
    raise ValueError(qform)


def _us3(us):
    return (us.space, us.time, us.quantity)


def _add(a, b):
    return tuple(x + y for x, y in zip(a, b))


def _sub(a, b):
    return tuple(x - y for x, y in zip(a, b))


def _const_problem(got, dim, exact_si, bare=None):
    """None if `got` is a UnitValue of dimension `dim` with SI value `exact_si`; for a bare number
    (bare = (number, system)) additionally: stored value is the number, stored units are the system's."""
    if type(got) is not UnitValue:
        return "is a %s, not a UnitValue" % type(got).__name__
    gd = uq.dim_of(got.units)
    if gd != tuple(dim):
        return "has dimension %s, expected %s" % (gd, tuple(dim))
    err = si.rel_err(uq.si_value(got), exact_si)
    if not err <= TOL:
        return "physical value off by relative %.3e (is %s, SI %.17g; expected SI %.17g)" % (
            err, got, float(uq.si_value(got)), float(exact_si))
    if bare is not None:
        num, sys3 = bare
        if got.value != num:
            return "stored value %r differs from the bare number %r" % (got.value, num)
        gs = uq.sys_of(got.units)
        for i in range(3):
            if dim[i] != 0 and gs[i] != sys3[i]:
                return "bare number stored in %s, reaction's units system is %s" % (gs, tuple(sys3))
    return None


def _is_zero_const(k):
    if type(k) is UnitValue:
        return k.value == 0
    if isinstance(k, dict):
        return all(type(v) is UnitValue and v.value == 0 for v in k.values())
    return False


def _same_const(a, b):
    """None if a and b are physically the same constant (UnitValue or per-environment dict)."""
    if isinstance(a, dict) != isinstance(b, dict):
        return "%s vs %s" % (type(a).__name__, type(b).__name__)
    if isinstance(a, dict):
        ka, kb = sorted(a), sorted(b)
        if ka != kb:
            return "environment keys %s vs %s" % (ka, kb)
        for k in ka:
            p = _same_const(a[k], b[k])
            if p:
                return "[%r] %s" % (k, p)
        return None
    if type(a) is not UnitValue or type(b) is not UnitValue:
        return "%s vs %s" % (type(a).__name__, type(b).__name__)
    if uq.dim_of(a.units) != uq.dim_of(b.units):
        return "dimension %s vs %s" % (uq.dim_of(a.units), uq.dim_of(b.units))
    err = si.rel_err(uq.si_value(a), uq.si_value(b))
    if not err <= TOL:
        return "%s vs %s (relative %.3e in SI)" % (a, b, err)
    return None


def _lookup(k, env):
    """Value of a constant in an environment: entry, else 'default', else 0 (None stands for 0)."""
    if isinstance(k, dict):
        if env in k:
            return k[env]
        return k.get("default")
    return k


def _check_half(h, name, s_terms, p_terms, k, r, L, tag, out, hand_written):
    """A half returned by split() is itself a reaction: everything that is checked on a constructed reaction
    holds for it, for ITS OWN forward / reverse orders, and it equals (physically, including the dimension of
    its zero reverse constant) the irreversible Reaction one would write by hand with constant k."""
    n, m = R.order(s_terms), R.order(p_terms)
    df, dr = R.k_dimension(n), R.k_dimension(m)
    why = []
    if h.order() != n or h.rorder() != m:
        why.append("orders %r/%r, expected %d/%d" % (h.order(), h.rorder(), n, m))
    fd, rd = h.kf_units_dimensions(), h.kr_units_dimensions()
    if (fd.space, fd.time, fd.quantity) != df or (rd.space, rd.time, rd.quantity) != dr:
        why.append("k dimensions %s / %s, expected %s / %s" % ((fd.space, fd.time, fd.quantity),
                                                               (rd.space, rd.time, rd.quantity), df, dr))
    if why:
        out.append(("%s:split:%s:%s-half-orders" % (PID, tag, name), "; ".join(why)))
    for cname, c, dim in (("kf", h.kf, df), ("kr", h.kr, dr)):
        vals = list(c.values()) if isinstance(c, dict) else [c]
        bad = [v for v in vals if type(v) is not UnitValue or uq.dim_of(v.units) != dim]
        if bad:
            out.append(("%s:split:%s:%s-half-%s-dimension" % (PID, tag, name, cname),
                        "%s of the %s half is %r; for its own order %d the dimension must be %s"
                        % (cname, name, c, n if cname == "kf" else m, dim)))
    for how, K in (("K", h.K), ("equilibrium_constant", h.equilibrium_constant())):
        if not (K is None or (isinstance(K, dict) and all(v is None for v in K.values()))):
            out.append(("%s:split:%s:%s-half-%s-not-None" % (PID, tag, name, how), "%s of the %s half (kr = 0) is %r" % (how, name, K)))
    if not hand_written:     # equation sub-spaces (constants are the default 0): the direct checks above suffice
        return
    summed = lambda ts: [(c, l) for l, c in R.summed(ts)]                      # noqa: E731
    text = R.write(summed(s_terms), summed(p_terms), "single")
    hand = Reaction(text, kf=k, kr=0, units_system=r.units_system)
    for cname, a, b in (("kf", h.kf, hand.kf), ("kr", h.kr, hand.kr)):
        if cname == "kr" and isinstance(a, dict):
            a = list(a.values())[0] if a else a
        p = _same_const(a, b)
        if p:
            out.append(("%s:split:%s:%s-half-differs-from-hand-written:%s" % (PID, tag, name, cname),
                        "%s half %s = %r; Reaction(%r, kf=%r, kr=0, same units system) has %r (%s)"
                        % (name, cname, a, text, k, b, p)))
    if hand.ssto(L) != h.ssto(L) or hand.psto(L) != h.psto(L):
        out.append(("%s:split:%s:%s-half-differs-from-hand-written:sides" % (PID, tag, name),
                    "%s half %s -> %s, Reaction(%r) %s -> %s" % (name, h.ssto(L), h.psto(L), text, hand.ssto(L), hand.psto(L))))


def _check_split(r, s_terms, p_terms, L, tag, out, with_constants):
    try:
        pair = r.split()
        fwd, rev = pair[0], pair[1]
        if len(pair) != 2:
            out.append(("%s:split:%s:count" % (PID, tag), "split() returned %d reactions" % len(pair)))
        es, ep = R.vector(s_terms, L), R.vector(p_terms, L)
        if fwd.ssto(L) != es or fwd.psto(L) != ep:
            out.append(("%s:split:%s:forward-sides" % (PID, tag),
                        "forward part has %s -> %s, expected %s -> %s over %s" % (fwd.ssto(L), fwd.psto(L), es, ep, L)))
        if rev.ssto(L) != ep or rev.psto(L) != es:
            out.append(("%s:split:%s:reverse-sides" % (PID, tag),
                        "reverse part has %s -> %s, expected %s -> %s over %s" % (rev.ssto(L), rev.psto(L), ep, es, L)))
        if not _is_zero_const(fwd.kr) or not _is_zero_const(rev.kr):
            out.append(("%s:split:%s:not-irreversible" % (PID, tag),
                        "kr of the parts: %s, %s" % (fwd.kr, rev.kr)))
        _check_half(fwd, "forward", s_terms, p_terms, r.kf, r, L, tag, out, with_constants)
        _check_half(rev, "reverse", p_terms, s_terms, r.kr, r, L, tag, out, with_constants)
        if with_constants:
            p = _same_const(fwd.kf, r.kf)
            if p:
                out.append(("%s:split:%s:forward-constant" % (PID, tag), "forward part kf differs from kf: " + p))
            p = _same_const(rev.kf, r.kr)
            if p:
                out.append(("%s:split:%s:reverse-constant" % (PID, tag), "reverse part kf differs from kr: " + p))
            if fwd.label is not None or rev.label is not None:
                out.append(("%s:split:%s:label" % (PID, tag), "labels of the parts: %r, %r (documented: None)"
                            % (fwd.label, rev.label)))
            us = _us3(r.units_system)
            if _us3(fwd.units_system) != us or _us3(rev.units_system) != us:
                out.append(("%s:split:%s:units-system" % (PID, tag), "units systems of the parts differ from %s" % (us,)))
    except Exception as e:
        out.append(("%s:split:%s:unexpected-exception" % (PID, tag), "%s: %s" % (type(e).__name__, e)))


_NOTES = {}      # per-process counters of cases the oracle declines to judge (merged by _work)
_LO, _HI = F(10) ** -250, F(10) ** 250


def _in_float_range(vf, vr):
    """kf / kr mixes two unit systems when the operands are stored in different ones; with orders up to 8
    (length exponents up to 21) and systems from fm to km the ratio, an operand converted to the other
    system, or the conversion factor itself can leave the range of a double whichever system the result is
    expressed in.  Such ratios are not claimed (they are counted).  Exact arithmetic."""
    a, b = uq.sys_of(vf.units), uq.sys_of(vr.units)
    if a == b:
        return True
    df, dr = uq.dim_of(vf.units), uq.dim_of(vr.units)
    sf, sr = abs(uq.si_value(vf)), abs(uq.si_value(vr))
    combos = [tuple((a, b)[(k >> i) & 1][i] for i in range(3)) for k in range(8)]
    mags = []
    for c in combos:
        mags.append(sf / si.si_scale(c, df))
        mags.append(sr / si.si_scale(c, dr))
        mags.append((sf / sr) / si.si_scale(c, _sub(df, dr)))
        for d in (df, dr, _sub(df, dr)):
            mags.append(si.factor(a, c, d))
            mags.append(si.factor(b, c, d))
            mags.append(si.factor(c, a, d))
            mags.append(si.factor(c, b, d))
    return all(x == 0 or _LO <= x <= _HI for x in mags)


def _check_K(r, n, m, tag, out, reads=None):
    """K = kf / kr per environment (entry -> 'default' -> 0); None where kr is 0.
    reads: optional {how: ('ok', value) | ('exc', text)} already obtained from r (not read again)."""
    kd = _sub(R.k_dimension(n), R.k_dimension(m))
    kf, kr = r.kf, r.kr
    if not isinstance(kf, dict) and not isinstance(kr, dict):
        envs = [None]
    else:
        envs = []
        for k in (kf, kr):
            if isinstance(k, dict):
                for e in k:
                    if e not in envs:
                        envs.append(e)
        if "default" not in envs:
            envs.append("default")
    plan = []          # (env, kf there, kr there, exact K or None, judged?)
    for e in envs:
        vf, vr = _lookup(kf, e), _lookup(kr, e)
        sf = uq.si_value(vf) if vf is not None else F(0)
        sr = uq.si_value(vr) if vr is not None else F(0)
        if sr == 0:
            plan.append((e, vf, vr, None, True))
        else:
            plan.append((e, vf, vr, sf / sr, vf is None or _in_float_range(vf, vr)))
    unjudged = sum(1 for x in plan if not x[4])
    if unjudged:
        _NOTES["K_outside_float_range_not_claimed"] = _NOTES.get("K_outside_float_range_not_claimed", 0) + unjudged
    for how in ("equilibrium_constant", "K"):
        if reads is not None:
            st, K = reads[how]
            if st == "exc":
                if not unjudged:
                    out.append(("%s:%s:%s:unexpected-exception" % (PID, how, tag), K))
                continue
        else:
            try:
                K = r.equilibrium_constant() if how == "equilibrium_constant" else r.K
            except Exception as e:
                if not unjudged:      # otherwise: an overflow of an unclaimed entry took the whole result with it
                    out.append(("%s:%s:%s:unexpected-exception" % (PID, how, tag), "%s: %s" % (type(e).__name__, e)))
                continue
        if envs != [None] and not isinstance(K, dict):
            out.append(("%s:%s:%s:not-a-dict" % (PID, how, tag), "per-environment constants but K is %r" % (K,)))
            continue
        for e, vf, vr, exact, judged in plan:
            if not judged:
                continue
            if e is None:
                got = K
            elif e not in K:
                out.append(("%s:%s:%s:missing-environment" % (PID, how, tag), "K has keys %s, no %r" % (sorted(K), e)))
                continue
            else:
                got = K[e]
            if exact is None:
                if got is not None:
                    out.append(("%s:%s:%s:kr-zero-not-None" % (PID, how, tag),
                                "kr = 0 in environment %r but K = %r" % (e, got)))
            elif got is None:
                out.append(("%s:%s:%s:None-but-kr-nonzero" % (PID, how, tag),
                            "K is None in environment %r, kf = %s, kr = %s" % (e, vf, vr)))
            else:
                p = _const_problem(got, kd, exact)
                if p:
                    out.append(("%s:%s:%s:value" % (PID, how, tag),
                                "K in environment %r %s (kf = %s, kr = %s)" % (e, p, vf, vr)))


# ---- the cases -------------------------------------------------------------------------------------

def _case_eq(case, out):
    left, right, style = _terms(case["left"]), _terms(case["right"]), case["style"]
    text = R.write(left, right, style)
    s_terms, p_terms = R.parse(text)
    direct = ([(1 if c is None else c, l) for c, l in left], [(1 if c is None else c, l) for c, l in right])
    if (s_terms, p_terms) != direct:   # the two references disagree: a checker bug, never a finding
        raise AssertionError("reference scanner disagrees with the printed term list for %r" % text)
    cls = _eq_class(left, right)
    tag = "%s:%s" % (cls, style)
    L = _universe(left, right)
    es, ep = R.vector(s_terms, L), R.vector(p_terms, L)
    ed = [b - a for a, b in zip(es, ep)]
    n, m = R.order(s_terms), R.order(p_terms)
    try:
        r = Reaction(text)
    except Exception as e:
        out.append(("%s:parse:%s:unexpected-exception" % (PID, tag), "Reaction(%r): %s: %s" % (text, type(e).__name__, e)))
        return
    try:
        for name, got, exp in (("ssto", r.ssto(L), es), ("psto", r.psto(L), ep), ("dsto", r.dsto(L), ed)):
            if list(got) != exp:
                out.append(("%s:%s:%s" % (PID, name, tag), "Reaction(%r).%s(%s) = %s, expected %s" % (text, name, L, list(got), exp)))
        for name, d, exp in (("substrates", r.substrates, es), ("products", r.products, ep)):
            bad = [l for l, x in zip(L, exp) if d.get(l, 0) != x] + [l for l in d if l not in L and d[l] != 0]
            if bad:
                out.append(("%s:%s:%s" % (PID, name, tag), "Reaction(%r).%s = %s, expected %s" % (text, name, d, dict(zip(L, exp)))))
        gs = [r.get_substrate_stoichiometry(l) for l in L]
        gp = [r.get_product_stoichiometry(l) for l in L]
        if gs != es or gp != ep:
            out.append(("%s:get_stoichiometry:%s" % (PID, tag), "Reaction(%r): per-label getters give %s -> %s over %s, expected %s -> %s"
                        % (text, gs, gp, L, es, ep)))
        if r.order() != n:
            out.append(("%s:order:%s" % (PID, tag), "Reaction(%r).order() = %r, expected %d" % (text, r.order(), n)))
        if r.rorder() != m:
            out.append(("%s:rorder:%s" % (PID, tag), "Reaction(%r).rorder() = %r, expected %d" % (text, r.rorder(), m)))
        for name, ud, k, o in (("kf", r.kf_units_dimensions(), r.kf, n), ("kr", r.kr_units_dimensions(), r.kr, m)):
            exp = R.k_dimension(o)
            got = (ud.space, ud.time, ud.quantity)
            if got != exp:
                out.append(("%s:%s_units_dimensions:%s" % (PID, name, tag),
                            "Reaction(%r): %s dimension %s, expected %s for order %d" % (text, name, got, exp, o)))
            p = _const_problem(k, exp, F(0), bare=(0, si.DEFAULT))
            if p:
                out.append(("%s:%s-default:%s" % (PID, name, tag), "Reaction(%r): default %s %s" % (text, name, p)))
    except Exception as e:
        out.append(("%s:observers:%s:unexpected-exception" % (PID, tag), "Reaction(%r): %s: %s" % (text, type(e).__name__, e)))
    # print-parse fix-point
    printed = None
    try:
        printed = r.to_string()
        r2 = Reaction(printed)
        if r2.ssto(L) != es or r2.psto(L) != ep:
            out.append(("%s:roundtrip:%s:vectors" % (PID, tag),
                        "Reaction(%r).to_string() = %r parses back as %s -> %s over %s, expected %s -> %s"
                        % (text, printed, r2.ssto(L), r2.psto(L), L, es, ep)))
    except Exception as e:
        out.append(("%s:roundtrip:%s:unexpected-exception" % (PID, tag), "Reaction(%r).to_string() = %r: %s: %s"
                    % (text, printed, type(e).__name__, e)))
    _check_split(r, s_terms, p_terms, L, tag, out, with_constants=False)


def _k_context(case):
    text = _k_text(case)
    s_terms, p_terms = R.parse(text)
    n, m = case["n"], case["m"]
    assert R.order(s_terms) == n and R.order(p_terms) == m, text
    sys3 = tuple(case["sys"])
    us = uq.sysdict(sys3) if case.get("usform") == "dict" else uq.mk_sys(sys3)
    return text, s_terms, p_terms, n, m, sys3, us


def _case_kbare(case, out):
    text, s_terms, p_terms, n, m, sys3, us = _k_context(case)
    kf, kr = case["kf"], case["kr"]
    tag = "bare"
    r = Reaction(text, kf=kf, kr=kr, label="R", units_system=us)
    for name, got, num, o in (("kf", r.kf, kf, n), ("kr", r.kr, kr, m)):
        dim = R.k_dimension(o)
        p = _const_problem(got, dim, F(num) * si.si_scale(sys3, dim), bare=(num, sys3))
        if p:
            out.append(("%s:%s:bare-number" % (PID, name),
                        "Reaction(%r, %s=%r, units %s): %s %s" % (text, name, num, sys3, name, p)))
    # the property setters, too
    r.kf = kr
    r.kr = kf
    for name, got, num, o in (("kf", r.kf, kr, n), ("kr", r.kr, kf, m)):
        dim = R.k_dimension(o)
        p = _const_problem(got, dim, F(num) * si.si_scale(sys3, dim), bare=(num, sys3))
        if p:
            out.append(("%s:%s:bare-number:setter" % (PID, name),
                        "Reaction(%r, units %s).%s = %r: %s %s" % (text, sys3, name, num, name, p)))
    r.set_k(kf, kr)
    L = _universe(s_terms, p_terms)
    _check_split(r, s_terms, p_terms, L, tag, out, with_constants=True)
    _check_K(r, n, m, tag, out)


def _case_kexp(case, out):
    text, s_terms, p_terms, n, m, sys3, us = _k_context(case)
    qsys, qform = tuple(case["qsys"]), case["qform"]
    vf, vr = 3.5, 0.125
    df, dr = R.k_dimension(n), R.k_dimension(m)
    qf, qr = _quantity(vf, qsys, df, qform), _quantity(vr, qsys, dr, qform)
    tag = "explicit:" + qform
    try:
        r = Reaction(text, kf=qf, kr=qr, label="R", units_system=us)
    except Exception as e:
        out.append(("%s:k:%s:right-dimension-rejected" % (PID, tag),
                    "Reaction(%r, kf=%r, kr=%r, units %s): %s: %s" % (text, qf, qr, sys3, type(e).__name__, e)))
        return
    for name, got, v, dim in (("kf", r.kf, vf, df), ("kr", r.kr, vr, dr)):
        p = _const_problem(got, dim, F(v) * si.si_scale(qsys, dim))
        if p:
            out.append(("%s:%s:%s:value" % (PID, name, tag),
                        "Reaction(%r, kf=%r, kr=%r, units %s): %s %s" % (text, qf, qr, sys3, name, p)))
    L = _universe(s_terms, p_terms)
    _check_split(r, s_terms, p_terms, L, tag, out, with_constants=True)
    _check_K(r, n, m, tag, out)


def _skipped(case):
    """A dimensionless quantity written as a string is just a number literal ('3.5'): whether that is a
    'bare number' or a dimensionless quantity is not decided by the statement -> not claimed."""
    if case["sub"] in ("kwrong", "kdictwrong") and case["qform"] == "str":
        o = case["n"] if case["which"] == "kf" else case["m"]
        return _add(R.k_dimension(o), tuple(case["off"])) == (0, 0, 0)
    return False


def _case_kwrong(case, out):
    if _skipped(case):
        return
    text, s_terms, p_terms, n, m, sys3, us = _k_context(case)
    qsys, qform, which, site = tuple(case["qsys"]), case["qform"], case["which"], case["site"]
    df, dr = R.k_dimension(n), R.k_dimension(m)
    good_f, good_r = _quantity(3.5, qsys, df, qform), _quantity(0.125, qsys, dr, qform)
    wdim = _add(df if which == "kf" else dr, tuple(case["off"]))
    wrong = _quantity(3.5, qsys, wdim, qform)
    kf, kr = (wrong, good_r) if which == "kf" else (good_f, wrong)
    if qform == "str":
        UnitValue(wrong)      # vacuity guard: the text itself is a well-formed quantity
    if site == "ctor":
        try:
            r = Reaction(text, kf=kf, kr=kr, units_system=us)
        except Exception:
            return
    else:
        r = Reaction(text, units_system=us)
        try:
            if site == "setter":
                setattr(r, which, wrong)
            else:
                r.set_k(kf, kr)
        except Exception:
            return
    got = r.kf if which == "kf" else r.kr
    out.append(("%s:%s:wrong-dimension-accepted:%s:%s" % (PID, which, site, qform),
                "Reaction %r (order %d/%d, units %s): %s = %r of dimension %s accepted (now %s); required dimension %s"
                % (text, n, m, sys3, which, wrong, wdim, got, df if which == "kf" else dr)))


_QSYS2 = si.MIXED[1]


def _dict_constants(v, sys3, qsys, df, dr):
    """(kf, kr, expected SI of every entry) for the dictionary variants."""
    bare = lambda x, d: F(x) * si.si_scale(sys3, d)          # noqa: E731
    q1 = lambda x, d: F(x) * si.si_scale(qsys, d)            # noqa: E731
    q2 = lambda x, d: F(x) * si.si_scale(_QSYS2, d)          # noqa: E731
    if v == 0:     # both dictionaries, kf with 'default', kr without
        kf = {"e1": 7, "e2": _quantity(3.5, qsys, df, "str"), "default": _quantity(0.5, _QSYS2, df, "UnitValue")}
        kr = {"e2": 0.375, "e3": _quantity(0.25, qsys, dr, "UnitValue"), "e4": 0}
        ef = {"e1": (bare(7, df), 7), "e2": (q1(3.5, df), None), "default": (q2(0.5, df), None)}
        er = {"e2": (bare(0.375, dr), 0.375), "e3": (q1(0.25, dr), None), "e4": (F(0), 0)}
    elif v == 1:   # scalar kf, dictionary kr with 'default'
        kf = 7
        kr = {"default": 0.375, "e1": _quantity(0.25, qsys, dr, "UnitValue")}
        ef = (bare(7, df), 7)
        er = {"default": (bare(0.375, dr), 0.375), "e1": (q1(0.25, dr), None)}
    elif v == 2:   # dictionary kf with 'default', scalar kr
        kf = {"e1": 7, "default": _quantity(3.5, qsys, df, "str")}
        kr = 0.375
        ef = {"e1": (bare(7, df), 7), "default": (q1(3.5, df), None)}
        er = (bare(0.375, dr), 0.375)
    elif v == 3:   # dictionary kf, scalar kr = 0 -> K is None everywhere
        kf = {"e1": _quantity(3.5, _QSYS2, df, "str"), "e2": 7}
        kr = 0
        ef = {"e1": (q2(3.5, df), None), "e2": (bare(7, df), 7)}
        er = (F(0), 0)
    else:
        raise ValueError(v)
    return kf, kr, ef, er


def _case_kdict(case, out):
    text, s_terms, p_terms, n, m, sys3, us = _k_context(case)
    qsys, v = tuple(case["qsys"]), case["variant"]
    df, dr = R.k_dimension(n), R.k_dimension(m)
    kf, kr, ef, er = _dict_constants(v, sys3, qsys, df, dr)
    tag = "dict:v%d" % v
    try:
        r = Reaction(text, kf=kf, kr=kr, label="R", units_system=us)
    except Exception as e:
        out.append(("%s:k:%s:right-dimension-rejected" % (PID, tag),
                    "Reaction(%r, kf=%r, kr=%r, units %s): %s: %s" % (text, kf, kr, sys3, type(e).__name__, e)))
        return
    for name, got, exp, dim in (("kf", r.kf, ef, df), ("kr", r.kr, er, dr)):
        if isinstance(exp, dict):
            if not isinstance(got, dict) or sorted(got) != sorted(exp):
                out.append(("%s:%s:%s:keys" % (PID, name, tag), "Reaction(%r, kf=%r, kr=%r): %s is %r" % (text, kf, kr, name, got)))
                continue
            items = [(e, got[e], exp[e]) for e in exp]
        else:
            items = [(None, got, exp)]
        for e, g, (exact, num) in items:
            p = _const_problem(g, dim, exact, bare=None if num is None else (num, sys3))
            if p:
                out.append(("%s:%s:%s:value" % (PID, name, tag),
                            "Reaction(%r, kf=%r, kr=%r, units %s): %s[%r] %s" % (text, kf, kr, sys3, name, e, p)))
    L = _universe(s_terms, p_terms)
    _check_split(r, s_terms, p_terms, L, tag, out, with_constants=True)
    _check_K(r, n, m, tag, out)


def _case_kdictwrong(case, out):
    if _skipped(case):
        return
    text, s_terms, p_terms, n, m, sys3, us = _k_context(case)
    qsys, qform, which, pos = tuple(case["qsys"]), case["qform"], case["which"], case["pos"]
    df, dr = R.k_dimension(n), R.k_dimension(m)
    dim = df if which == "kf" else dr
    wdim = _add(dim, tuple(case["off"]))
    keys = ["e1", "e2", "default"]
    d = {"e1": 7, "e2": _quantity(3.5, qsys, dim, "str"), "default": _quantity(0.5, qsys, dim, "UnitValue")}
    d[keys[pos]] = _quantity(3.5, qsys, wdim, qform)
    other = _quantity(0.125, qsys, dr if which == "kf" else df, "UnitValue")
    kf, kr = (d, other) if which == "kf" else (other, d)
    try:
        r = Reaction(text, kf=kf, kr=kr, units_system=us)
    except Exception:
        return
    out.append(("%s:%s:wrong-dimension-accepted:dict-entry:%s" % (PID, which, qform),
                "Reaction %r (order %d/%d): %s = %r accepted although entry %r has dimension %s (required %s); stored %r"
                % (text, n, m, which, d, keys[pos], wdim, dim, r.kf if which == "kf" else r.kr)))


def _net_expect(species, reactions):
    """Reasons for which the network must be refused (empty list: valid)."""
    why = []
    if len(set(species)) != len(species):
        why.append("duplicate-species")
    labs = [lab for eq, lab in reactions if lab is not None]
    if len(set(labs)) != len(labs):
        why.append("duplicate-reaction-label")
    for eq, lab in reactions:
        s, p = R.parse(eq)
        if any(l not in species for c, l in s) and "undeclared-substrate" not in why:
            why.append("undeclared-substrate")
        if any(l not in species for c, l in p) and "undeclared-product" not in why:
            why.append("undeclared-product")
    return why


def _case_net(case, out):
    species, reactions = list(case["species"]), [tuple(x) for x in case["reactions"]]
    why = _net_expect(species, reactions)
    sp = [Species(l) for l in species]
    rs = [Reaction(eq, label=lab) for eq, lab in reactions]
    try:
        net = RDNetwork(sp, rs)
    except Exception as e:
        if not why:
            out.append(("%s:RDNetwork:valid-network-rejected" % PID,
                        "RDNetwork(species %s, reactions %s): %s: %s" % (species, reactions, type(e).__name__, e)))
        return
    if why:
        out.append(("%s:RDNetwork:accepted:%s" % (PID, "+".join(why)),
                    "RDNetwork(species %s, reactions %s) was accepted" % (species, reactions)))
        return
    if net.species_labels() != species or net.nspecies() != len(species) or net.nreactions() != len(reactions):
        out.append(("%s:RDNetwork:contents" % PID, "species_labels() = %s, nreactions() = %d for species %s, reactions %s"
                    % (net.species_labels(), net.nreactions(), species, reactions)))
        return
    for i, (eq, lab) in enumerate(reactions):
        s, p = R.parse(eq)
        es, ep = R.vector(s, species), R.vector(p, species)
        ri = net.reactions[i]
        if ri.ssto(net.species_labels()) != es or ri.psto(net.species_labels()) != ep or ri.label != lab:
            out.append(("%s:RDNetwork:reaction-vectors" % PID, "reaction %d %r of the network has %s -> %s over %s"
                        % (i, eq, ri.ssto(net.species_labels()), ri.psto(net.species_labels()), species)))


# ---- networks: duplicate labels in every object form --------------------------------------------------
#
# "A network refuses ... duplicate species or reaction labels" is about LABELS: the same Species object
# listed twice, an object and its copy(), and two distinct objects with one label all carry a duplicated
# label.  Unlabelled reactions may repeat, also as the same object twice.  Claimed for the constructor and
# for rdnetwork_from_dict (which builds through it); the species / reactions setters are not claimed (no
# document promises validation on assignment).

OBJ_EQS = ["A -> B", "B -> A + C", "2 A -> C", "-> B"]
OBJ_PAIRS = [(n, i, j) for n in (2, 3, 4) for i in range(n) for j in range(i + 1, n)]      # 10


def _netobj_build(case):
    """-> (species objects, reaction objects, species dicts, reaction dicts, expectation)."""
    kind, form, n, i, j = case["kind"], case["form"], case["n"], case["i"], case["j"]
    if kind == "species":
        labels = ["A", "B", "C", "D"][:n]
        objs = [Species(l, D=k + 1) for k, l in enumerate(labels)]
        dicts = [{"label": l, "D": k + 1} for k, l in enumerate(labels)]
        if form == "distinct":
            objs[j] = Species(labels[i], D=9)
            dicts[j] = {"label": labels[i], "D": 9}
        elif form == "same":
            objs[j] = objs[i]
            dicts[j] = dicts[i]
        elif form == "copy":
            objs[j] = objs[i].copy()
            dicts[j] = dict(dicts[i])
        elif form == "twice":
            objs, dicts = objs * 2, dicts * 2
        elif form != "none":
            raise ValueError(form)
        x = labels[i]
        if case["withreaction"]:
            return objs, [Reaction("%s -> 2 %s" % (x, x), label="r")], dicts, \
                [{"stoichiometry": "%s -> 2 %s" % (x, x), "label": "r"}], ("refuse" if form != "none" else "accept")
        return objs, [], dicts, [], ("refuse" if form != "none" else "accept")
    labelled = kind == "reaction"
    sp = [Species("A"), Species("B"), Species("C")]
    spd = [{"label": "A"}, {"label": "B"}, {"label": "C"}]
    labs = [("r%d" % (k + 1)) if labelled else None for k in range(n)]
    objs = [Reaction(OBJ_EQS[k], kf=k + 1, label=labs[k]) for k in range(n)]
    dicts = [{"stoichiometry": OBJ_EQS[k], "k+": k + 1, "label": labs[k]} for k in range(n)]
    if form == "distinct":            # another equation under the same label
        objs[j] = Reaction(OBJ_EQS[j], kf=9, label=labs[i])
        dicts[j] = {"stoichiometry": OBJ_EQS[j], "k+": 9, "label": labs[i]}
    elif form == "distinct-equal":    # an equal reaction built separately
        objs[j] = Reaction(OBJ_EQS[i], kf=i + 1, label=labs[i])
        dicts[j] = {"stoichiometry": OBJ_EQS[i], "k+": i + 1, "label": labs[i]}
    elif form == "same":
        objs[j] = objs[i]
        dicts[j] = dicts[i]
    elif form == "copy":
        objs[j] = objs[i].copy()
        dicts[j] = dict(dicts[i])
    elif form == "twice":
        objs, dicts = objs * 2, dicts * 2
    elif form != "none":
        raise ValueError(form)
    return sp, objs, spd, dicts, ("refuse" if (labelled and form != "none") else "accept")


def _case_netobj(case, out):
    sp, rs, spd, rsd, expect = _netobj_build(case)
    kind, form, route = case["kind"], case["form"], case["route"]
    if route not in ("ctor", "ctor-tuple", "from_dict"):
        raise ValueError(route)
    net, err = None, None
    try:
        if route == "ctor":
            net = RDNetwork(sp, rs)
        elif route == "ctor-tuple":
            net = RDNetwork(tuple(sp), tuple(rs))
        else:
            net = rdnetwork_from_dict({"species": spd, "reactions": rsd})
    except Exception as e:
        err = e
    what = "%s, form %s, positions %d,%d of %d, route %s: species %s, reactions %s" % (
        kind, form, case["i"], case["j"], case["n"], route, [x.label for x in sp],
        [(r.to_string().strip(), r.label) for r in rs])
    if expect == "refuse":
        if net is not None:
            which = "duplicate-species" if kind == "species" else "duplicate-reaction-label"
            out.append(("%s:RDNetwork:accepted:%s:%s:%s" % (PID, which, form, route), what + " was accepted"))
        return
    if net is None:
        tag = "valid-network-rejected" if form == "none" else "repeated-unlabelled-reaction-rejected:" + form
        out.append(("%s:RDNetwork:%s:%s" % (PID, tag, route), what + " raised %s: %s" % (type(err).__name__, err)))
        return
    if net.nspecies() != len(sp) or net.nreactions() != len(rs) or net.species_labels() != [x.label for x in sp]:
        out.append(("%s:RDNetwork:contents:%s" % (PID, route), what + " -> %d species, %d reactions"
                    % (net.nspecies(), net.nreactions())))


# ---- networks: undeclared species whose label resembles the declared ones -----------------------------
#
# "refuses reactions naming undeclared species" is exact label identity: a label that is a prefix, suffix,
# inner part, concatenation, case variant or one-character neighbour of declared labels is NOT declared.

ADV_ALPHA = ["A", "B", ",", "a"]
ADV_SETS = [["AB", "C"], ["ABA", "B,", "a"], ["A", "BB", ",AB"], ["AaB", "A,B", "C", "b"]]
ADV_REAL = [["ATP", "ADP", "Pi"], ["E", "ES", "P"], ["Ca2", "CaM"], ["A1", "A2", "A10"], ["x", "y", "z"]]
ADV_PUNCT = [",", ".", ";", ":", "_", "*", "/", "(", ")", "[", "]", "'", '"', "|", "=", "?", "!", "#", "&"]


def _adv_strings(alpha, maxlen):
    out, layer = [], [""]
    for _ in range(maxlen):
        layer = [w + ch for w in layer for ch in alpha]
        out.extend(layer)
    return out


def _adv_derived(declared):
    """Labels built from the declared ones: every substring, pairwise concatenations with '' and ',',
    one character more / less, case variants, single punctuation characters (label rules respected,
    digit-only strings left out), in a fixed order without repeats."""
    c = []
    for l in declared:
        c += [l[i:j] for i in range(len(l)) for j in range(i + 1, len(l) + 1)]
        c += [l + "x", "x" + l, l + l[-1], l[:-1], l[1:], l.swapcase(), l.lower(), l.upper()]
    c += [a + j + b for a in declared for b in declared for j in ("", ",")]
    c += [", ".join(declared).replace(" ", ""), ",".join(declared)] + ADV_PUNCT
    out = []
    for x in c:
        if R.label_ok(x) and not x.isdigit() and x not in out and not x.endswith("-") and not x.startswith(">"):
            out.append(x)
    return out


ADV_FORMS = 4


def _adv_equation(declared, x, form):
    d0, d1 = declared[0], declared[1]
    left, right = [[(None, x)], [(None, d0)], [(None, d0), (None, x)], [(None, d0)]][form], \
                  [[(None, d0)], [(None, x)], [(None, d1)], [(None, d1), (2, x)]][form]
    return R.write(left, right, "single")


def _case_netadv(case, out):
    declared, x, route = list(case["declared"]), case["x"], case["route"]
    text = _adv_equation(declared, x, case["form"])
    s_terms, p_terms = R.parse(text)
    named = [l for c, l in s_terms + p_terms]
    assert x in named and all(c >= 1 for c, l in s_terms + p_terms), text
    undeclared = [l for l in named if l not in declared]
    net, err = None, None
    sp = [Species(l) for l in declared]          # must work: the labels obey the label rules
    r = Reaction(text, kf=1)
    try:
        if route == "ctor":
            net = RDNetwork(sp, [r])
        elif route == "from_dict":
            net = rdnetwork_from_dict({"species": [{"label": l} for l in declared],
                                       "reactions": [{"eq": text, "k+": 1}]})
        else:
            raise AssertionError(route)
    except AssertionError:
        raise
    except Exception as e:
        err = e
    side = "substrate" if any(l == x for c, l in s_terms) else "product"
    if undeclared and net is not None:
        rel = "contained-in-declared-labels" if any(x in l for l in declared) or x in ", ".join(declared) else "other"
        out.append(("%s:RDNetwork:accepted:undeclared-%s:%s:%s" % (PID, side, rel, route),
                    "species %s, reaction %r: %r is not declared but the network was accepted" % (declared, text, undeclared)))
    elif not undeclared and net is None:
        out.append(("%s:RDNetwork:valid-network-rejected:%s" % (PID, route),
                    "species %s, reaction %r: every species is declared; %s: %s" % (declared, text, type(err).__name__, err)))


# ---- the reaction's units system when it is declared by a dictionary -----------------------------------
#
# json_and_dict_doc.rst, reaction "units": "default" = µm, s, molecule; "inherit" (also when the key is absent) =
# the enclosing object's system; a dictionary = that system.  A bare "k+" / "k-" must land in exactly that system.

FD_UNITS = ["absent", "inherit", "default", "dict"]


def _case_kfromdict(case, out):
    text = _k_text(case)
    n, m = case["n"], case["m"]
    parent, own = tuple(case["parent"]), tuple(case["own"])
    df, dr = R.k_dimension(n), R.k_dimension(m)
    kfkey, krkey = case.get("kkeys", ["k+", "k-"])          # documented aliases: "kf", "kr"
    ukey = case.get("ukey", "units")                         # documented aliases: "units_system", "units system", "u"
    d = {"stoichiometry": text, kfkey: 7, krkey: 0.375, "label": "R"}
    spec = case["units"]
    if spec == "dict":
        d[ukey] = uq.sysdict(own)
    elif spec != "absent":
        d[ukey] = spec
    expect = {"absent": parent, "inherit": parent, "default": si.DEFAULT, "dict": own}[spec]
    route = case["route"]
    species = [{"label": l} for l in ("A", "B", "C")]
    if route == "reaction_from_dict":
        r = reaction_from_dict(d, uq.mk_sys(parent))
    elif route == "rdnetwork_from_dict":
        net = rdnetwork_from_dict({"units": uq.sysdict(parent), "species": species, "reactions": [d]})
        r = net.reactions[0]
    elif route in ("load_rdnetwork", "load_rdsystem"):
        # the network is a separate JSON file WITHOUT a units key ("inherit"): it takes the system given to
        # load_rdnetwork, resp. the units of the system file that names it
        tmp = tempfile.mkdtemp(prefix="c19_", dir=os.environ.get("VERIF_TMP", "/tmp"))
        try:
            with open(os.path.join(tmp, "network.json"), "w", encoding="utf-8") as f:
                json.dump({"species": species, "reactions": [d]}, f, ensure_ascii=False)
            if route == "load_rdnetwork":
                r = load_rdnetwork(os.path.join(tmp, "network.json"), uq.mk_sys(parent)).reactions[0]
            else:
                with open(os.path.join(tmp, "system.json"), "w", encoding="utf-8") as f:
                    json.dump({"units": uq.sysdict(parent), "network": "network.json", "space": {"cell_volume": 1}}, f,
                              ensure_ascii=False)
                r = load_rdsystem(os.path.join(tmp, "system.json")).network.reactions[0]
        finally:
            shutil.rmtree(tmp, ignore_errors=True)
    else:
        raise ValueError(route)
    what = "reaction dict %r inside units %s (%s)" % (d, parent, route)
    if _us3(r.units_system) != tuple(expect):
        out.append(("%s:from_dict:units-system:%s:%s:%s" % (PID, spec, ukey.replace(" ", "_"), route),
                    "%s: the reaction's units system is %s, documented %s" % (what, _us3(r.units_system), tuple(expect))))
    for name, got, num, dim in (("kf", r.kf, 7, df), ("kr", r.kr, 0.375, dr)):
        p = _const_problem(got, dim, F(num) * si.si_scale(expect, dim), bare=(num, expect))
        if p:
            out.append(("%s:from_dict:%s:bare-number:%s:%s:%s" % (PID, name, spec, ukey.replace(" ", "_"), route),
                        "%s: %s %s" % (what, name, p)))


# ---- E2: operation histories on ONE Reaction object ---------------------------------------------------
#
# The statement's "the equilibrium constant is their ratio", "splitting it gives ... the same constants" speak
# about the reaction's *current* constants; a Reaction is mutable (kf / kr properties, set_k).  So every
# observer must, after any sequence of operations, agree with a FRESH Reaction constructed directly with the
# constants the object should now hold (differential oracle), and K must be the exact ratio of the object's
# own kf / kr (ratio oracle).  A rejected assignment leaves the constant it was aimed at as it was.

HIST_RX = [("A -> B", si.DEFAULT), ("A + B -> C", si.MIXED[3]), ("-> 2 A", si.DEFAULT),
           ("2 A + A -> 0 B + 2 C", si.MIXED[0])]            # orders 1/1, 2/1, 0/2, 3/2
HIST_OPS = ["K", "EC", "kf=scalar", "kf=str", "kf=dict", "kf=zero", "kr=scalar", "kr=str", "kr=dict", "kr=zero",
            "set_k=scalars", "set_k=dict+zero", "split", "to_string", "dims", "kr=bad", "set_k=badkf", "fork", "swap",
            "us=other", "us=dict"]
HIST_OPS_CORE = ["K", "EC", "kf=scalar", "kf=dict", "kr=scalar", "kr=str", "kr=dict", "kr=zero", "set_k=scalars",
                 "split", "kr=bad", "swap", "us=other"]
NET_OPS = ["K", "kf=scalar", "kr=scalar", "kr=zero", "kr=dict", "set_k=scalars"]
NETHIST_OPS = ["h%d.%s" % (h, o) for h in (0, 1, 2) for o in NET_OPS] + ["netcopy"]


def _h_ctx(rx):
    text, sys3 = HIST_RX[rx]
    sys3 = tuple(sys3)
    s_terms, p_terms = R.parse(text)
    n, m = R.order(s_terms), R.order(p_terms)
    qsys = si.MIXED[3] if sys3 == si.MIXED[0] else si.MIXED[0]
    # unit systems the object can be switched to: 0 = the one it is built with, 1 = 'us=other' (a UnitsSystem
    # object), 2 = 'us=dict' (a units dictionary)
    systems = [sys3, si.MIXED[3] if sys3 == si.DEFAULT else si.DEFAULT, si.MIXED[5]]
    return {"text": text, "sys": sys3, "us": uq.mk_sys(sys3), "systems": systems, "s": s_terms, "p": p_terms, "n": n, "m": m,
            "df": R.k_dimension(n), "dr": R.k_dimension(m), "qsys": qsys, "L": _universe(s_terms, p_terms)}


def _explicit(v, sys3, dim):
    """The same constant with every bare number written as an explicit quantity of system sys3."""
    if isinstance(v, dict):
        return {k: _explicit(x, sys3, dim) for k, x in v.items()}
    if isinstance(v, (int, float)) and not isinstance(v, bool):
        return uq.mk_uv(v, sys3, dim)
    return v


def _h_val(c, which, form):
    """The value an operation assigns (rebuilt identically each time it is needed).  'form@k' = that value as
    it must be understood when it was assigned while the reaction's units system was systems[k]: bare numbers
    are numbers OF THAT SYSTEM (the model side of 'bare numbers get the units of the reaction's units system')."""
    dim = c["df"] if which == "kf" else c["dr"]
    if "@" in form:
        form, k = form.split("@")
        return _explicit(_h_val(c, which, form), c["systems"][int(k)], dim)
    q = lambda v, f="str": _quantity(v, c["qsys"], dim, f)       # noqa: E731
    if form == "bad":
        return uq.mk_uv(3.5, c["qsys"], _add(dim, (1, 0, 0)))
    if which == "kf":
        return {"scalar": 7, "str": q(3.5), "dict": {"e1": 5, "default": q(2.5)}, "zero": 0,
                "s1": 11, "s2": {"e1": 3, "e3": q(1.25)}, "init": 2}[form]
    return {"scalar": 0.375, "str": q(0.125), "dict": {"e2": 0.25, "default": 1.5}, "zero": 0,
            "s1": 13, "s2": 0, "s3": 17, "init": 4}[form]


def _h_fresh(c, model):
    return Reaction(c["text"], kf=_h_val(c, "kf", model[0]), kr=_h_val(c, "kr", model[1]), label="R",
                    units_system=uq.mk_sys(c["systems"][model[2]]))


def _same_K(a, b):
    if a is None or b is None:
        return None if (a is None and b is None) else "%r vs %r" % (a, b)
    if isinstance(a, dict) != isinstance(b, dict):
        return "%r vs %r" % (a, b)
    if isinstance(a, dict):
        if sorted(a) != sorted(b):
            return "environment keys %s vs %s" % (sorted(a), sorted(b))
        for k in sorted(a):
            p = _same_K(a[k], b[k])
            if p:
                return "[%r] %s" % (k, p)
        return None
    return _same_const(a, b)


def _h_readK(r, how):
    try:
        return ("ok", r.K if how == "K" else r.equilibrium_constant())
    except Exception as e:
        return ("exc", "%s: %s" % (type(e).__name__, e))


def _h_cmpK(a, b, how, where, out, hist):
    """a = _h_readK(object), b = _h_readK(fresh reaction)."""
    if a[0] == "exc" or b[0] == "exc":
        if a[0] != b[0]:      # both raising = the float-range limit of _in_float_range, not judged
            out.append(("%s:history:%s:%s:exception-differs-from-fresh-reaction" % (PID, how, where),
                        "after %s: object %s, fresh reaction %s" % (hist, a, b)))
        return
    p = _same_K(a[1], b[1])
    if p:
        out.append(("%s:history:%s:%s:differs-from-fresh-reaction" % (PID, how, where),
                    "after %s: %s on the object is %r, on a fresh reaction with the same constants %r (%s)"
                    % (hist, how, a[1], b[1], p)))


def _h_observe(r, c, model, where, out, hist):
    """All observers of r against a fresh Reaction(text, kf, kr) holding the model's constants."""
    reads = {"K": _h_readK(r, "K")}                             # K first: before anything recomputes it
    reads["equilibrium_constant"] = _h_readK(r, "equilibrium_constant")
    fresh = _h_fresh(c, model)
    fk = _h_readK(fresh, "K")
    _h_cmpK(reads["K"], fk, "K", where, out, hist)
    _h_cmpK(reads["equilibrium_constant"], fk, "equilibrium_constant", where, out, hist)
    for name, a, b in (("kf", r.kf, fresh.kf), ("kr", r.kr, fresh.kr)):
        p = _same_const(a, b)
        if p:
            out.append(("%s:history:%s:%s:differs-from-fresh-reaction" % (PID, name, where),
                        "after %s: %s is %r, expected %r (%s)" % (hist, name, a, b, p)))
    L = c["L"]
    es, ep = R.vector(c["s"], L), R.vector(c["p"], L)
    if r.ssto(L) != es or r.psto(L) != ep or r.order() != c["n"] or r.rorder() != c["m"]:
        out.append(("%s:history:stoichiometry:%s" % (PID, where), "after %s: %s -> %s over %s, orders %r/%r"
                    % (hist, r.ssto(L), r.psto(L), L, r.order(), r.rorder())))
    fd, rd = r.kf_units_dimensions(), r.kr_units_dimensions()
    if (fd.space, fd.time, fd.quantity) != c["df"] or (rd.space, rd.time, rd.quantity) != c["dr"]:
        out.append(("%s:history:units_dimensions:%s" % (PID, where), "after %s" % (hist,)))
    if r.label != "R" or _us3(r.units_system) != tuple(c["systems"][model[2]]):
        out.append(("%s:history:label-or-units-system:%s" % (PID, where), "after %s: label %r, units system %s"
                    % (hist, r.label, _us3(r.units_system))))
    tag = "history:" + where
    _check_split(r, c["s"], c["p"], L, tag, out, with_constants=True)
    _check_K(r, c["n"], c["m"], tag, out, reads=reads)


def _h_apply(r, c, model, op, out, hist, olds):
    """Apply one operation; returns (r, model) (only 'swap' changes the object)."""
    kf, kr, cur = model
    if op in ("K", "EC"):
        how = "K" if op == "K" else "equilibrium_constant"
        _h_cmpK(_h_readK(r, how), _h_readK(_h_fresh(c, model), "K"), how, op, out, hist)
    elif op.startswith("kf=") or op.startswith("kr="):
        which, form = op.split("=")
        if form == "bad":
            try:
                setattr(r, which, _h_val(c, which, "bad"))
            except Exception:
                return r, model
            out.append(("%s:history:%s:wrong-dimension-accepted" % (PID, op), "after %s" % (hist,)))
            return r, model
        setattr(r, which, _h_val(c, which, form))
        form = "%s@%d" % (form, cur)
        model = (form, kr, cur) if which == "kf" else (kf, form, cur)
    elif op == "set_k=scalars":
        r.set_k(_h_val(c, "kf", "s1"), _h_val(c, "kr", "s1"))
        model = ("s1@%d" % cur, "s1@%d" % cur, cur)
    elif op == "set_k=dict+zero":
        r.set_k(_h_val(c, "kf", "s2"), _h_val(c, "kr", "s2"))
        model = ("s2@%d" % cur, "s2@%d" % cur, cur)
    elif op == "set_k=badkf":
        try:
            r.set_k(_h_val(c, "kf", "bad"), _h_val(c, "kr", "s3"))
        except Exception:
            # kf stays; whether the valid kr of a rejected set_k was taken is not decided by the statement
            if _same_const(r.kr, _h_fresh(c, (kf, "s3@%d" % cur, cur)).kr) is None:
                model = (kf, "s3@%d" % cur, cur)
            return r, model
        out.append(("%s:history:%s:wrong-dimension-accepted" % (PID, op), "after %s" % (hist,)))
    elif op == "split":
        r.split()
    elif op == "to_string":
        t = r.to_string()
        r2 = Reaction(t)
        if r2.ssto(c["L"]) != R.vector(c["s"], c["L"]) or r2.psto(c["L"]) != R.vector(c["p"], c["L"]):
            out.append(("%s:history:to_string:vectors" % PID, "after %s: %r" % (hist, t)))
    elif op == "dims":
        r.kf_units_dimensions()
        r.kr_units_dimensions()
    elif op == "fork":          # a copy, modified: the copy is right, the original untouched (observed later)
        cp = r.copy()
        cp.kr = _h_val(c, "kr", "str")
        _h_observe(cp, c, (kf, "str@%d" % cur, cur), "fork:copy", out, hist)
    elif op == "us=other":      # stored constants keep their physical value; later bare numbers use the new system
        r.units_system = uq.mk_sys(c["systems"][1])
        model = (kf, kr, 1)
    elif op == "us=dict":
        r.units_system = uq.sysdict(c["systems"][2])
        model = (kf, kr, 2)
    elif op == "swap":          # go on with a copy; the abandoned original is observed again at the end
        olds.append((r, model))
        r = r.copy()
    else:
        raise ValueError(op)
    return r, model


def _case_hist(case, out):
    c = _h_ctx(case["rx"])
    ops, every = list(case["ops"]), case["mode"] == "every"
    model = ("init@0", "init@0", 0)
    r = Reaction(c["text"], kf=_h_val(c, "kf", "init"), kr=_h_val(c, "kr", "init"), label="R", units_system=c["us"])
    olds = []
    done = []
    for op in ops:
        done.append(op)
        hist = "%r, kf=2, kr=4, units %s; %s" % (c["text"], c["sys"], ", ".join(done))
        r, model = _h_apply(r, c, model, op, out, hist, olds)
        if out:
            return           # minimal violating history: stop at the first deviation
        if every:
            _h_observe(r, c, model, "after:" + op, out, hist)
            if out:
                return
    hist = "%r, kf=2, kr=4, units %s; %s" % (c["text"], c["sys"], ", ".join(done) or "(nothing)")
    if not every:
        _h_observe(r, c, model, "after:" + (ops[-1] if ops else "construction"), out, hist)
    for o, mo in olds:
        _h_observe(o, c, mo, "abandoned-original-after-copy", out, hist)


def _case_nethist(case, out):
    c = _h_ctx(case["rx"])
    model0 = ("init@0", "init@0", 0)
    r = Reaction(c["text"], kf=_h_val(c, "kf", "init"), kr=_h_val(c, "kr", "init"), label="R", units_system=c["us"])
    other = Reaction("B -> A", kf=1, kr=1)
    net1 = RDNetwork([Species("A"), Species("B"), Species("C")], [r])
    net2 = RDNetwork([Species("C"), Species("B"), Species("A"), Species("D")], [other, r])
    handles = [r, net1.reactions[0], net2.reactions[1]]
    objs, models = [], []          # distinct objects (whether a network shares or copies is not claimed)
    for h in handles:
        if not any(h is o for o in objs):
            objs.append(h)
            models.append(model0)
    done = []
    for op in case["ops"]:
        done.append(op)
        hist = "%r in two networks; %s" % (c["text"], ", ".join(done))
        if op == "netcopy":
            nc = net1.copy()
            rc = nc.reactions[0]
            k = [i for i, o in enumerate(objs) if o is handles[1]][0]
            rc.kr = _h_val(c, "kr", "str")
            _h_observe(rc, c, (models[k][0], "str@%d" % models[k][2], models[k][2]), "netcopy:copy", out, hist)
        else:
            hs, o = op.split(".", 1)
            h = handles[int(hs[1:])]
            k = [i for i, x in enumerate(objs) if x is h][0]
            _, models[k] = _h_apply(h, c, models[k], o, out, hist, [])
        if out:
            return
        for i, o in enumerate(objs):
            _h_observe(o, c, models[i], "network:after:" + op.split(".")[-1], out, hist)
        if out:
            return


class SeqSpace:
    """All operation sequences of length 0..maxlen over `ops` (shortest first, then lexicographic), for each
    element of `heads` (a list of constant dictionaries)."""

    def __init__(self, name, sub, heads, ops, maxlen):
        self.name, self.sub, self.heads, self.ops, self.maxlen = name, sub, heads, ops, maxlen
        self.per = sum(len(ops) ** k for k in range(maxlen + 1))
        self.size = self.per * len(heads)

    def at(self, i):
        h, j = divmod(i, self.per)
        k = 0
        while j >= len(self.ops) ** k:
            j -= len(self.ops) ** k
            k += 1
        seq = []
        for _ in range(k):
            j, d = divmod(j, len(self.ops))
            seq.append(self.ops[d])
        seq.reverse()
        d = {"sub": self.sub}
        d.update(self.heads[h])
        d["ops"] = seq
        return d


_DISPATCH = {"eq": _case_eq, "kbare": _case_kbare, "kexp": _case_kexp, "kwrong": _case_kwrong,
             "kdict": _case_kdict, "kdictwrong": _case_kdictwrong, "net": _case_net,
             "hist": _case_hist, "nethist": _case_nethist, "netobj": _case_netobj,
             "netadv": _case_netadv, "kfromdict": _case_kfromdict}


def check_case(case):
    """One case; returns [(key, what)]."""
    out = []
    try:
        _DISPATCH[case["sub"]](case, out)
    except AssertionError:
        raise
    except Exception as e:  # an exception where the property specifies a value
        out.append(("%s:%s:unexpected-exception" % (PID, case["sub"]), "%s: %s" % (type(e).__name__, e)))
    return out


# ---- enumeration -----------------------------------------------------------------------------------

class Space:
    """A product of named finite lists, decoded from a linear index (last dimension fastest)."""

    def __init__(self, name, sub, dims, const=None, build=None):
        self.name, self.sub, self.dims, self.const, self.build = name, sub, dims, const or {}, build
        self.size = 1
        for _, vals in dims:
            self.size *= len(vals)

    def at(self, i):
        d = {"sub": self.sub}
        d.update(self.const)
        for nm, vals in reversed(self.dims):
            i, j = divmod(i, len(vals))
            d[nm] = vals[j]
        return self.build(d) if self.build else d


def _eq_build(d):
    return {"sub": "eq", "left": d["left"], "right": d["right"], "style": d["style"]}


def _eq_probe_build(d):
    a, b = d["side"], d["probe"]
    left, right = (a, b) if d["orient"] == 0 else (b, a)
    return {"sub": "eq", "left": left, "right": right, "style": d["style"]}


def _net_lists(specs, maxlen):
    out = [[]]
    layer = [[]]
    for _ in range(maxlen):
        layer = [x + [s] for x in layer for s in specs]
        out.extend(layer)
    return out


def _spaces(tier):
    thorough = tier == "thorough"
    sp = []
    styles = list(R.STYLES)
    # -- equations
    if thorough:
        sp.append(Space("eq2: <=2 terms/side over {A,B,C} x coefficients {none,0,1,2,3,9}: all 343x343 equations x 4 spacing styles",
                        "eq", [("left", S2), ("right", S2), ("style", styles)], build=_eq_build))
        sp.append(Space("eq4: <=4 terms/side over {A,B} x {none,2}: all 341x341 equations x 4 spacing styles",
                        "eq", [("left", S4), ("right", S4), ("style", styles)], build=_eq_build))
        sp.append(Space("equ: unusual labels %s: every side with <=2 terms x {none,2} (601) against every side with <=1 term (25), on either side, x 4 spacing styles"
                        % ULABELS, "eq", [("side", SU2), ("probe", SU1), ("orient", [0, 1]), ("style", styles)],
                        build=_eq_probe_build))
    else:
        sp.append(Space("eq2/quick: <=2 terms/side over {A,B,C} x coefficients {none,0,2,9}: all 157x157 equations, single blanks",
                        "eq", [("left", S2Q), ("right", S2Q), ("style", ["single"])], build=_eq_build))
        sp.append(Space("eq2/quick: each of the 343 sides (coefficients {none,0,1,2,3,9}) against 5 probe sides, on either side, x 4 spacing styles",
                        "eq", [("side", S2), ("probe", PROBES), ("orient", [0, 1]), ("style", styles)],
                        build=_eq_probe_build))
        sp.append(Space("eq4/quick: <=3 terms/side over {A,B} x {none,2}: all 85x85 equations x 4 spacing styles",
                        "eq", [("left", S3), ("right", S3), ("style", styles)], build=_eq_build))
        sp.append(Space("eq4/quick: every side with <=4 terms over {A,B} x {none,2} (341) against 5 probe sides, on either side, x 4 spacing styles",
                        "eq", [("side", S4), ("probe", PROBES), ("orient", [0, 1]), ("style", styles)],
                        build=_eq_probe_build))
        sp.append(Space("equ/quick: unusual labels %s: all 25x25 equations with <=1 term/side x {none,2} x 4 spacing styles"
                        % ULABELS, "eq", [("left", SU1), ("right", SU1), ("style", styles)], build=_eq_build))
        sp.append(Space("equ/quick: every side with <=2 terms over the unusual labels x {none,2} (601) against 3 probe sides, on either side, x 4 spacing styles",
                        "eq", [("side", SU2), ("probe", [[], [(None, "α")], [(2, "2B")]]), ("orient", [0, 1]), ("style", styles)],
                        build=_eq_probe_build))
    # -- constants
    sys8 = [si.DEFAULT] + list(si.MIXED)       # 8
    sys2 = [si.DEFAULT, si.MIXED[0]]
    bare_variants = [("UnitsSystem", 7, 0.375), ("UnitsSystem", 7, 0), ("UnitsSystem", 0, 0.375), ("dict", 7, 0.375)]

    def bare_build(d):
        return {"sub": "kbare", "n": d["n"], "m": d["m"], "form": d["form"], "sys": d["sys"],
                "usform": d["variant"][0], "kf": d["variant"][1], "kr": d["variant"][2]}
    if thorough:
        sp.append(Space("kbare: orders 0..8 x 0..8 x 3 side shapes x 36 unit systems x 4 variants ((7,.375),(7,0),(0,.375) with a UnitsSystem; (7,.375) with a units dict)",
                        "kbare", [("n", ORDERS), ("m", ORDERS), ("form", list(FORMS)), ("sys", SYS36), ("variant", bare_variants)],
                        build=bare_build))
        sp.append(Space("kexp: orders 0..8 x 0..8 x reaction system (36) x quantity system (36) x {str, UnitValue}: right dimension accepted, value kept",
                        "kexp", [("n", ORDERS), ("m", ORDERS), ("sys", SYS36), ("qsys", SYS36), ("qform", ["str", "UnitValue"])],
                        const={"form": "two"}))
    else:
        sp.append(Space("kbare/quick: orders 0..8 x 0..8 x 3 side shapes x 8 unit systems x 4 variants ((7,.375),(7,0),(0,.375) with a UnitsSystem; (7,.375) with a units dict)",
                        "kbare", [("n", ORDERS), ("m", ORDERS), ("form", list(FORMS)), ("sys", sys8), ("variant", bare_variants)],
                        build=bare_build))
        sp.append(Space("kbare/quick: orders 0..8 x 0..8 x shape 'two' x 36 unit systems x 2 variants ((7,.375) with a UnitsSystem and with a units dict)",
                        "kbare", [("n", ORDERS), ("m", ORDERS), ("form", ["two"]), ("sys", SYS36), ("variant", [bare_variants[0], bare_variants[3]])],
                        build=bare_build))
        sp.append(Space("kexp/quick: orders 0..8 x 0..8 x reaction system (8) x quantity system (8) x {str, UnitValue}: right dimension accepted, value kept",
                        "kexp", [("n", ORDERS), ("m", ORDERS), ("sys", sys8), ("qsys", sys8), ("qform", ["str", "UnitValue"])],
                        const={"form": "two"}))
        sp.append(Space("kexp/quick: orders 0..8 x 0..8 x reaction system (36) x quantity system cm/ms/µmol x {str, UnitValue}",
                        "kexp", [("n", ORDERS), ("m", ORDERS), ("sys", SYS36), ("qsys", [si.MIXED[3]]), ("qform", ["str", "UnitValue"])],
                        const={"form": "two"}))
    sysw = sys8 if thorough else [si.MIXED[0]]      # the reaction's own system is irrelevant to a rejection; 36 are used where values land
    sp.append(Space("kwrong: orders 0..8 x 0..8 x {kf,kr} x 26 wrong dimensions x {str, UnitValue} x {ctor, setter, set_k} x %d reaction systems: must raise"
                    % len(sysw), "kwrong",
                    [("n", ORDERS), ("m", ORDERS), ("which", ["kf", "kr"]), ("off", CUBE_OFF), ("qform", ["str", "UnitValue"]),
                     ("site", ["ctor", "setter", "set_k"]), ("sys", sysw)],
                    const={"form": "single", "qsys": si.MIXED[3]}))
    sysd, qsysd = (SYS36, sys8) if thorough else (sys8, sys2)
    sp.append(Space("kdict: orders 0..8 x 0..8 x %d reaction systems x %d quantity systems x 4 dictionary variants (with/without 'default', scalar-dict mixes, kr = 0)"
                    % (len(sysd), len(qsysd)), "kdict",
                    [("n", ORDERS), ("m", ORDERS), ("sys", sysd), ("qsys", qsysd), ("variant", [0, 1, 2, 3])],
                    const={"form": "repeat"}))
    sp.append(Space("kdictwrong: orders 0..8 x 0..8 x {kf,kr} x 3 entry positions x 26 wrong dimensions x {str, UnitValue} x %d systems: must raise"
                    % len(sysw), "kdictwrong",
                    [("n", ORDERS), ("m", ORDERS), ("which", ["kf", "kr"]), ("pos", [0, 1, 2]), ("off", CUBE_OFF),
                     ("qform", ["str", "UnitValue"]), ("sys", sysw)],
                    const={"form": "two", "qsys": si.MIXED[5]}))
    sp.append(Space("kfromdict: reaction declared by a dictionary with bare k+ / k-: orders 0..8 x 0..8 x 8 enclosing unit systems x 'units' in {absent, 'inherit', 'default', dictionary} x {reaction_from_dict, rdnetwork_from_dict}: the constants land in the documented system",
                    "kfromdict", [("n", ORDERS), ("m", ORDERS), ("parent", sys8), ("units", FD_UNITS),
                                  ("route", ["reaction_from_dict", "rdnetwork_from_dict"])],
                    const={"form": "two", "own": si.MIXED[4]}))
    ukeys = [("absent", "units")] + [(sp_, k) for sp_ in ("inherit", "default", "dict")
                                     for k in ("units", "units_system", "units system", "u")]      # 13
    sp.append(Space("kfromdict/keys+files: orders {0/0,1/1,2/1,0/2,3/2,8/8} x 8 enclosing systems x 13 (units value, spelling of the units key: units / units_system / 'units system' / u) x {k+ k-, kf kr} x {reaction_from_dict, rdnetwork_from_dict, load_rdnetwork(file, parent), load_rdsystem(system.json naming network.json)}",
                    "kfromdict", [("nm", [(0, 0), (1, 1), (2, 1), (0, 2), (3, 2), (8, 8)]), ("parent", sys8), ("uk", ukeys),
                                  ("kkeys", [["k+", "k-"], ["kf", "kr"]]),
                                  ("route", ["reaction_from_dict", "rdnetwork_from_dict", "load_rdnetwork", "load_rdsystem"])],
                    build=lambda d: {"sub": "kfromdict", "form": "two", "own": si.MIXED[4], "n": d["nm"][0], "m": d["nm"][1],
                                     "parent": d["parent"], "units": d["uk"][0], "ukey": d["uk"][1], "kkeys": d["kkeys"],
                                     "route": d["route"]}))
    # -- networks
    rspecs = [(eq, lab) for eq in NET_EQS for lab in NET_RLABELS]          # 18
    sp.append(Space("net: species lists of length <=3 over {A,B,C} (40) x reaction lists of length <=2 over 6 equations x labels {None,r1,r2} (343)",
                    "net", [("species", _net_lists(["A", "B", "C"], 3)), ("reactions", _net_lists(rspecs, 2))]))
    r3 = [[("A -> B", a), ("B -> A", b), ("A -> B", c)] for a in NET_RLABELS for b in NET_RLABELS for c in NET_RLABELS]
    sp.append(Space("net3: 3 reactions x labels {None,r1,r2}^3 over species [A,B] and [B,A,C]",
                    "net", [("species", [["A", "B"], ["B", "A", "C"]]), ("reactions", r3)]))
    s4 = [x for x in _net_lists(["A", "B", "C", "D"], 4) if len(x) == 4]
    sp.append(Space("net4: all 256 species lists of length 4 over {A,B,C,D} x {no reaction, 'A -> D', 'B + C -> 2 A'}",
                    "net", [("species", s4), ("reactions", [[], [("A -> D", None)], [("B + C -> 2 A", "r1")]])]))
    upairs = [[a, b] for a in ULABELS for b in ULABELS]
    sp.append(Space("netu: all ordered pairs of the unusual labels as species (144) x 3 reaction lists using them",
                    "net", [("species", upairs), ("rk", [0, 1, 2])],
                    build=lambda d: {"sub": "net", "species": d["species"],
                                     "reactions": [[], [("%s -> 2 %s" % (d["species"][0], d["species"][1]), "r")],
                                                   [("%s + %s -> Q" % (d["species"][1], d["species"][0]), None)]][d["rk"]]}))
    # -- duplicate labels in every object form
    routes = ["ctor", "ctor-tuple", "from_dict"]

    def pair_build(d):
        n, i, j = d["pair"]
        c = {"sub": "netobj", "kind": d["kind"], "form": d["form"], "n": n, "i": i, "j": j, "route": d["route"]}
        if d["kind"] == "species":
            c["withreaction"] = d["withreaction"]
        return c
    sp.append(Space("netobj/species: duplicate species label at every pair of positions of lists of 2..4 (10) x object form {distinct objects, same object twice, object and its copy()} x {no reaction, one reaction} x {constructor(list), constructor(tuple), rdnetwork_from_dict}: must be refused",
                    "netobj", [("pair", OBJ_PAIRS), ("form", ["distinct", "same", "copy"]), ("withreaction", [False, True]),
                               ("route", routes)], const={"kind": "species"}, build=pair_build))
    sp.append(Space("netobj/reaction: duplicate reaction label at every pair of positions of lists of 2..4 (10) x {distinct (other equation), distinct (equal reaction), same object twice, copy()} x 3 routes: must be refused",
                    "netobj", [("pair", OBJ_PAIRS), ("form", ["distinct", "distinct-equal", "same", "copy"]), ("route", routes)],
                    const={"kind": "reaction"}, build=pair_build))
    sp.append(Space("netobj/unlabelled: the same 10 x 4 x 3 with label None: repeated unlabelled reactions (also the same object twice) must be accepted",
                    "netobj", [("pair", OBJ_PAIRS), ("form", ["distinct", "distinct-equal", "same", "copy"]), ("route", routes)],
                    const={"kind": "unlabelled"}, build=pair_build))
    sp.append(Space("netobj/whole list twice ([..]*2, n = 1..4) and the duplicate-free controls (n = 1..4), for species / labelled / unlabelled reactions x 3 routes",
                    "netobj", [("kind", ["species", "reaction", "unlabelled"]), ("form", ["twice", "none"]), ("n", [1, 2, 3, 4]),
                               ("route", routes)],
                    build=lambda d: dict({"sub": "netobj", "kind": d["kind"], "form": d["form"], "n": d["n"], "i": 0,
                                          "j": 0, "route": d["route"]},
                                         **({"withreaction": True} if d["kind"] == "species" else {}))))
    # -- undeclared labels that resemble the declared ones
    adv_all = _adv_strings(ADV_ALPHA, 3)       # 84
    sp.append(Space("netadv: 4 declared label sets %s x EVERY string of length 1..3 over %s (84) as the label named by a reaction x 4 positions (substrate, product, second substrate, second product with coefficient 2) x {constructor, rdnetwork_from_dict}: refused iff not exactly a declared label"
                    % (ADV_SETS, ADV_ALPHA), "netadv",
                    [("declared", ADV_SETS), ("x", adv_all), ("form", list(range(ADV_FORMS))), ("route", ["ctor", "from_dict"])]))
    for D in ADV_REAL:
        sp.append(Space("netadv: declared %s x every label derived from them (substrings, concatenations with ''/',', one character more/less, case variants, 19 punctuation characters: %d) x 4 positions x 2 routes"
                        % (D, len(_adv_derived(D))), "netadv",
                        [("x", _adv_derived(D)), ("form", list(range(ADV_FORMS))), ("route", ["ctor", "from_dict"])],
                        const={"declared": D}))
    # -- histories on one object (E2)
    rx_all = list(range(len(HIST_RX)))
    if thorough:
        sp.append(SeqSpace("hist: every operation sequence of length <=3 over %d operations on one Reaction, 4 reactions (orders 1/1, 2/1, 0/2, 3/2), all observers after EVERY operation"
                           % len(HIST_OPS), "hist", [{"rx": i, "mode": "every"} for i in rx_all], HIST_OPS, 3))
        sp.append(SeqSpace("hist4: every sequence of length <=4 over the %d state-relevant operations, 2 reactions (orders 2/1, 3/2), all observers after the last operation (reads inside the sequence are checked as operations)"
                           % len(HIST_OPS_CORE), "hist", [{"rx": 1, "mode": "last"}, {"rx": 3, "mode": "last"}], HIST_OPS_CORE, 4))
        sp.append(SeqSpace("nethist: one Reaction shared by two RDNetworks: every sequence of length <=3 over %d operations (6 operations x 3 handles + network copy), reaction 'A + B -> C' (orders 2/1); length <=2 for 'A -> B'"
                           % len(NETHIST_OPS), "nethist", [{"rx": 1}], NETHIST_OPS, 3))
        sp.append(SeqSpace("nethist: the same, 'A -> B', length <=2", "nethist", [{"rx": 0}], NETHIST_OPS, 2))
    else:
        sp.append(SeqSpace("hist/quick: every operation sequence of length <=2 over %d operations on one Reaction, 4 reactions (orders 1/1, 2/1, 0/2, 3/2), all observers after EVERY operation"
                           % len(HIST_OPS), "hist", [{"rx": i, "mode": "every"} for i in rx_all], HIST_OPS, 2))
        sp.append(SeqSpace("hist/quick: every sequence of length <=3 over the %d state-relevant operations, 4 reactions, all observers after the last operation (reads inside the sequence are checked as operations)"
                           % len(HIST_OPS_CORE), "hist", [{"rx": i, "mode": "last"} for i in rx_all], HIST_OPS_CORE, 3))
        sp.append(SeqSpace("nethist/quick: one Reaction shared by two RDNetworks: every sequence of length <=2 over %d operations (6 operations x 3 handles + network copy), 2 reactions"
                           % len(NETHIST_OPS), "nethist", [{"rx": 0}, {"rx": 1}], NETHIST_OPS, 2))
    return sp


def _nontrivial(case):
    sub = case["sub"]
    if sub == "eq":
        return _eq_class(case["left"], case["right"]) != "plain" or case["style"] != "single"
    if sub == "net":
        return len(case["reactions"]) > 0 or len(set(case["species"])) != len(case["species"])
    if sub == "kbare":
        return tuple(case["sys"]) != si.DEFAULT
    if sub in ("hist", "nethist"):
        return any(("=" in o) or o in ("fork", "swap", "netcopy") for o in case["ops"])
    return True


_SPACES = None


def _work(job):
    k, lo, hi = job
    space = _SPACES[k]
    acc = core.Acc()
    nt = 0
    for i in range(lo, hi):
        case = space.at(i)
        if _skipped(case):
            acc.count("skipped_dimensionless_string_literal")
            acc.add(states=1)
            continue
        res = check_case(case)
        sub = case["sub"]
        ops = {"eq": 14, "kbare": 9, "kexp": 6, "kwrong": 2, "kdict": 6, "kdictwrong": 1, "net": 4,
               "hist": 0, "nethist": 0, "netobj": 1, "netadv": 3, "kfromdict": 2}[sub]
        if sub == "netadv":
            inside = case["x"] not in case["declared"] and case["x"] in ", ".join(case["declared"])
            acc.count("undeclared_label_textually_inside_declared_ones" if inside else
                      ("undeclared_label_other" if case["x"] not in case["declared"] else "declared_label_control"))
        if sub == "netobj":
            acc.count("networks_with_duplicate_label_as_" + case["form"].replace("-", "_"))
        if sub in ("hist", "nethist"):
            k = len(case["ops"])
            ops = k + 12 * (k if case.get("mode") != "last" else 1)
            acc.count("history_operations", k)
            if any(o.split(".")[-1].startswith(("kr=", "set_k")) for o in case["ops"]) and \
               any(o.split(".")[-1] in ("K", "EC") for o in case["ops"]):
                acc.count("histories_reading_K_and_changing_kr")
            seq = [o.split(".")[-1] for o in case["ops"]]
            if any(a.startswith("us=") and any(b in ("kf=scalar", "kr=scalar", "kf=dict", "kr=dict", "kf=zero", "kr=zero",
                                                       "set_k=scalars", "set_k=dict+zero") for b in seq[i + 1:])
                   for i, a in enumerate(seq)):
                acc.count("histories_assigning_bare_numbers_after_a_units_system_change")
        acc.add(states=1, transitions=ops, traces=1, evaluations=1)
        if _nontrivial(case):
            nt += 1
        if sub == "eq":
            c = _eq_class(case["left"], case["right"])
            acc.count("equations_" + c.replace("-", "_"))
        elif sub in ("kwrong", "kdictwrong"):
            acc.count("constants_that_must_be_rejected")
        elif sub == "net":
            acc.count("networks_invalid" if _net_expect(case["species"], [tuple(x) for x in case["reactions"]])
                      else "networks_valid")
        elif sub == "kbare" and case["kr"] == 0:
            acc.count("reactions_with_kr_zero")
        for key, what in res:
            acc.violation(key, what, case)
        if i == 0:
            acc.sample(case)
    for k, v in _NOTES.items():
        acc.count(k, v)
    _NOTES.clear()
    acc.add(nontrivial=nt)
    return acc.pack()


def run(ctx):
    global _SPACES
    R.selftest()
    _SPACES = _spaces(ctx.tier)
    jobs = []
    for k, space in enumerate(_SPACES):
        for lo, hi in pool.chunks(space.size, 4000):
            jobs.append((k, lo, hi))
    res = pool.pmap(_work, jobs, timeout=600)
    per = {}
    for job, r in zip(jobs, res):
        if isinstance(r, pool.Crash):
            ctx.violation("%s:checker:worker-%s" % (PID, r.kind), r.detail, {"job": job})
            continue
        core.merge(ctx, r)
        per[job[0]] = per.get(job[0], 0) + r["n"][0]
    for k, space in enumerate(_SPACES):
        ctx.subspace(space.name, space.size, per.get(k, 0), exhaustive=(per.get(k, 0) == space.size))
    ctx.rule("every element of each listed product is built and run on the real Reaction / RDNetwork in index order; "
             "non-trivial = an equation with a repeated species, a zero coefficient, an empty side or non-canonical "
             "spacing; a constant case in a non-default units system, with an explicit quantity, a dictionary, or a "
             "dimension that must be rejected; a network with at least one reaction or a duplicate; cases are "
             "distinct tuples of the products (the quick-tier probe products overlap in a few equations)")
    ctx.assume("label rules = no white space, no '+', no '->' (the library's own label check messages); "
               "exact SI scales of mc/ref/si.py; value of a constant in an environment = entry, else 'default', else 0; "
               "relative tolerance 1e-9 on SI values; a number literal given as a string ('3.5') is not claimed either way")


def replay(case):
    return check_case(case)
