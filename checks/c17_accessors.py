"""C17 — trajectory accessors all read the same array consistently; sample-index lookup.

E1 bounded-exhaustive enumeration on hand-built RDTrajectory objects (constructor: data, t_sample, system).

accessors   every shape (nsamples, nspecies, ncells) in {1,2,3}^3 x every w x h x d factorisation of ncells
            (grid) and a graph with ncells nodes x 3 unit variants x species form x position form; the data
            value is 10^4*sample + 10^2*species + cell, so the value IS the index triple.  Every triple is
            read through get_trajectory_point, get_state(species, sample), get_state(None, sample),
            get_trajectory(species, position), get_trajectory(species, merge=True) and direct indexing.
unknown     unknown species (label / too large index / negative index / Species object) must raise.
lookup      get_sample_index(t, policy): all strictly increasing time lists of length 1..4 over the lattice
            {0, 0.25, ..., 1.5} stored in s / ms / min / h, queries on every multiple of 0.125 in -0.25..1.75
            (before the first, on, between, exact midpoints, after the last) given in s / ms / min / h as a
            UnitValue and as a string, policies closest / infeq / supeq; oracle = brute force on exact
            rationals.
lookup-dup  the same with time lists that contain one duplicated time; any index with the same time value
            as the reference answer is accepted.
lookup-long beyond the small scope: time lists of 5..33 samples (regular, irregular, with duplicated times), queries on
            every sample time, every midpoint, just inside each interval from both ends, outside; two units; 3 policies.
lookup-near query times strictly before / after every sample time by a relative 4e-6 .. 1e-9 (the ordered comparisons of
            the statement are exact: a sample 1e-6 away is not "not before" the query), three forms / units, 3 policies.
boundary-conditions  accessor reads by coordinates on grids with every set of periodical axes (incl. d > h).
lookup-spelling  the same text query time in the decimal spellings float() reads (.5, +.5, 0.50, 5.000000e-01, 1.).
lookup-history   (E2) call histories on ONE trajectory object: the same number in s, ms, min, h in all 24 orders,
            in every ordered pair of units with mixed UnitValue / str forms, interleaved over the three policies,
            and long histories over all numbers x units x policies, run twice; every answer against the oracle.
accessor-history (E2) every species form x position form x triple on ONE object, forwards then backwards; the
            trajectory (data, t, system state) must be unchanged after the reads.
accessor-modify  (E2) on ONE object the data are changed between the reads through every documented route (value
            setter, set_value, in-place element writes, set_at with a UnitValue in another unit, units relabel), in
            the sequences [read-all, modify, read-all] and [modify, read-all, modify, read-all], with every accessor
            as the first reader; after each step all accessors must agree with direct indexing of the CURRENT data.
            Plus copy.deepcopy histories (the copy keeps its own data).
lookup-modify    (E2) the same for t (value setter, set_at in another unit, units relabel): the lookups follow the
            current times.
provenance  the accessor oracles (reference = direct indexing of the trajectory's data on the caller's grid) on
            trajectories from the real producers: simulate_script plain and with a cgmap (identity, lumping, lumping
            with a dropped cell) on fresh engine builds, save/load round trips and deepcopies of them, and
            RDTrajectory objects constructed with system != script.system.
carriers    the same argument value carried by another numeric type: the merge flag as 1 / numpy bool / numpy
            integer, keyword or positional; species / sample / linear cell index as numpy integers; (x,y,z) as
            numpy arrays / tuples / lists / objects of numpy int8..int64 scalars on grids (4x5x7, 5x5x6, 8x8x8) whose
            linear index does not fit the narrow dtypes.  A rejected carrier is counted; a wrong value is a violation.
network-edited   the network's species list (permuted / extended), reactions or environments assigned through
            the documented setters before the trajectory is built or on trajectory.system.network afterwards.
simulated   (small) the same accessor checks on trajectories produced by the Euler engine for a network
            without reactions and without diffusion (every sample equals the initial state).

The oracle is written from the statement, documentation/working_with_output.rst and the cell formula of
documentation/indexing.rst (i = z*w*h + y*w + x).  The trajectory formula of indexing.rst contains an extra
n_samples factor which the property statement disowns; the statement is followed.
"""
import itertools
import numbers
from fractions import Fraction as F

from mc import core, pool, uq
from mc.ref import si

core.setup_paths()
from strengths.units import UnitValue, UnitArray, UnitsSystem  # noqa: E402
from strengths.rdnetwork import RDNetwork, Species  # noqa: E402
from strengths.rdspace import RDGridSpace, RDGraphSpace  # noqa: E402
from strengths.rdgraphspace import RDGraphSpaceNode, RDGraphSpaceEdge  # noqa: E402
from strengths.rdsystem import RDSystem  # noqa: E402
from strengths.rdoutput import RDTrajectory  # noqa: E402

LABELS = ["Zed", "Alpha", "Mid"]           # label order differs from index order
# (data quantity unit, time unit of t_sample, units system of the RDSystem)
UNIT_VARIANTS = [("molecule", "s", None), ("nmol", "s", None), ("µmol", "min", ("mm", "min", "mmol"))]
SPFORMS = ["label", "index", "object"]
GRID_POSFORMS = ["index", "tuple", "list", "object"]
GRAPH_POSFORMS = ["index"]
TUNITS = ["s", "ms", "min", "h"]
LATTICE = [F(i, 4) for i in range(7)]                 # sample times: 0, 0.25, ... 1.5
QUERIES = [F(i, 8) for i in range(-2, 15)]            # -0.25, -0.125, 0, ... 1.75  (17 queries)
POLICIES = ["closest", "infeq", "supeq"]
QFORMS = ["UnitValue", "str"]
NEAR = F(1, 10 ** 9)
BAD_SPECIES = ["label", "index-high", "index-negative", "object"]
ACCESSORS_WITH_SPECIES = ["get_trajectory_point", "get_state", "get_trajectory", "get_trajectory_merged"]


class _Pos:
    """Coord-like object: x, y, z attributes."""

    def __init__(self, x, y, z):
        self.x, self.y, self.z = x, y, z

    def __repr__(self):
        return "Pos(x=%d,y=%d,z=%d)" % (self.x, self.y, self.z)


# ---- reference layout (statement + indexing.rst) --------------------------------------------------

def val(sample, species, cell):
    return 10000.0 * sample + 100.0 * species + cell


def flat_index(sample, species, cell, nsp, nc):
    return sample * nsp * nc + species * nc + cell


def cell_xyz(cell, w, h, d):
    """inverse of i = z*w*h + y*w + x."""
    return cell % w, (cell // w) % h, cell // (w * h)


def factorisations(n):
    return [(w, h, d) for w in range(1, n + 1) for h in range(1, n + 1) for d in range(1, n + 1) if w * h * d == n]


def arrangements(nc):
    return [["grid", w, h, d] for (w, h, d) in factorisations(nc)] + [["graph", nc]]


# ---- builders --------------------------------------------------------------------------------------

def _mk_space(space):
    if space[0] == "grid":
        if len(space) > 4:            # 5th item: the periodical axes, e.g. "xz"
            return RDGridSpace(w=space[1], h=space[2], d=space[3],
                               boundary_conditions={a: ("periodical" if a in space[4] else "reflecting") for a in "xyz"})
        return RDGridSpace(w=space[1], h=space[2], d=space[3])
    n = space[1]
    nodes = [RDGraphSpaceNode() for _ in range(n)]
    edges = [RDGraphSpaceEdge(i, i + 1) for i in range(n - 1)]
    return RDGraphSpace(nodes=nodes, edges=edges)


def _mk_system(nsp, space, usys=None):
    net = RDNetwork(species=[Species(LABELS[i], density=i + 1) for i in range(nsp)], reactions=[])
    if usys is None:
        return RDSystem(net, _mk_space(space))
    return RDSystem(net, _mk_space(space), units_system=UnitsSystem(space=usys[0], time=usys[1], quantity=usys[2]))


def _mk_traj(ns, nsp, nc, space, variant):
    qunit, tunit, usys = UNIT_VARIANTS[variant]
    data = [val(k, s, c) for k in range(ns) for s in range(nsp) for c in range(nc)]
    system = _mk_system(nsp, space, usys)
    tr = RDTrajectory(UnitArray(data, qunit), UnitArray([float(k) for k in range(ns)], tunit), system)
    return tr, data, qunit


def _species_arg(form, s, labels=None):
    labels = LABELS if labels is None else labels
    if form == "label":
        return labels[s]
    if form == "index":
        return s
    if form == "object":
        return Species(labels[s], density=s + 1)
    raise ValueError(form)


def _position_arg(form, cell, space):
    if form == "index":
        return cell
    x, y, z = cell_xyz(cell, space[1], space[2], space[3])
    if form == "tuple":
        return (x, y, z)
    if form == "list":
        return [x, y, z]
    if form == "object":
        return _Pos(x, y, z)
    raise ValueError(form)


# ---- comparison helpers ----------------------------------------------------------------------------

def _units_ok(got_units, qunit):
    """units of a result equal the data's units: dimension 'quantity', same quantity symbol."""
    try:
        return uq.dim_of(got_units) == (0, 0, 1) and uq.sys_of(got_units)[2] == qunit
    except Exception:
        return False


class _Checker:
    def __init__(self, out, stats, prefix="", suffix="", note=""):
        self.out = out
        self.stats = stats
        self.prefix = prefix
        self.suffix = suffix
        self.note = note

    def fail(self, key, what):
        if self.prefix:
            key = "C17:" + self.prefix + key[4:]
        if self.suffix:
            key = key + ":" + self.suffix
        self.out.append((key, self.note + what))

    def scalar(self, site, tag, got, expected, qunit, ctxt):
        self.stats["evaluations"] += 1
        if not isinstance(got, UnitValue):
            self.fail("C17:%s:result-type:%s" % (site, tag), "%s returned %s, a UnitValue is specified"
                      % (ctxt, type(got).__name__))
            return
        if not (got.value == expected):
            self.fail("C17:%s:wrong-value:%s" % (site, tag), "%s = %r, expected %r" % (ctxt, got.value, expected))
        if not _units_ok(got.units, qunit):
            self.fail("C17:%s:wrong-units:%s" % (site, tag), "%s has units %s, the data's units are %s"
                      % (ctxt, got.units, qunit))

    def vector(self, site, tag, got, expected, qunit, ctxt, scale=None):
        """scale: None = exact comparison; else per-entry sum of |terms| (a sum of non-integers is compared with
        1e-9 * scale, DESIGN 2.6)."""
        self.stats["evaluations"] += 1
        if not isinstance(got, UnitArray):
            self.fail("C17:%s:result-type:%s" % (site, tag), "%s returned %s, a UnitArray is specified"
                      % (ctxt, type(got).__name__))
            return
        try:
            vals = [float(x) for x in got.value]
        except Exception as e:
            self.fail("C17:%s:result-type:%s" % (site, tag), "%s: values not a flat array of numbers (%s)" % (ctxt, e))
            return
        if len(vals) != len(expected):
            self.fail("C17:%s:wrong-length:%s" % (site, tag), "%s has %d entries, expected %d"
                      % (ctxt, len(vals), len(expected)))
        elif (vals != expected) if scale is None else any(
                not abs(a - b) <= 1e-9 * sc for a, b, sc in zip(vals, expected, scale)):
            self.fail("C17:%s:wrong-value:%s" % (site, tag), "%s = %r, expected %r" % (ctxt, vals, expected))
        if not _units_ok(got.units, qunit):
            self.fail("C17:%s:wrong-units:%s" % (site, tag), "%s has units %s, the data's units are %s"
                      % (ctxt, got.units, qunit))

    def call(self, site, tag, ctxt, f):
        """executes one library call; an exception where a value is specified is a violation."""
        self.stats["transitions"] += 1
        try:
            return True, f()
        except Exception as e:
            self.fail("C17:%s:unexpected-exception:%s" % (site, tag), "%s raised %s: %s" % (ctxt, type(e).__name__, e))
            return False, None


def _merged(valf, ns, nc, s):
    """expected merged trajectory of species s and, when some term is not an integer, the tolerance scale."""
    exp, scale, exact = [], [], True
    for k in range(ns):
        terms = [valf(k, s, c) for c in range(nc)]
        exact = exact and all(float(x).is_integer() and abs(x) < 2.0 ** 40 for x in terms)
        exp.append(float(sum(terms)))
        scale.append(sum(abs(x) for x in terms))
    return exp, (None if exact else scale)


def _check_accessors(tr, ns, nsp, nc, space, qunit, spform, posform, out, stats, triple=None, rev=False, prefix="",
                     valf=None, only_sites=None, suffix="", note="", labels=None):
    """all accessor reads of one trajectory for one species form and one position form.
    rev: visit samples / species / cells in decreasing order; prefix / suffix: added to the site / end of the keys;
    valf(sample, species, cell): expected value (default: the construction value); only_sites: restrict the reads
    to these accessors; note: text put in front of the messages (the history that led here)."""
    ck = _Checker(out, stats, prefix, suffix, note)
    labels = LABELS if labels is None else labels
    if valf is None:
        valf = val
    want = (lambda site: True) if only_sites is None else (lambda site: site in only_sites)
    kind = space[0]
    ptag = "%s-%s:%s" % (kind, posform, spform)
    stag = "%s:%s" % (kind, spform)
    samples = list(range(ns)) if triple is None else [triple[0]]
    speciess = list(range(nsp)) if triple is None else [triple[1]]
    cells = list(range(nc)) if triple is None else [triple[2]]
    if rev:
        samples, speciess, cells = samples[::-1], speciess[::-1], cells[::-1]
    desc = "shape(ns=%d,nsp=%d,nc=%d) %s" % (ns, nsp, nc, space)

    # whole state: the sample's contiguous block
    for k in samples:
        if not want("get_state_whole"):
            break
        ok, got = ck.call("get_state_whole", kind, "%s get_state(None, %d)" % (desc, k), lambda: tr.get_state(None, k))
        if ok:
            exp = [valf(k, s, c) for s in range(nsp) for c in range(nc)]
            ck.vector("get_state_whole", kind, got, exp, qunit, "%s get_state(None, %d)" % (desc, k))

    for s in speciess:
        sp = _species_arg(spform, s, labels)
        # per-sample state
        for k in samples:
            if not want("get_state"):
                break
            c_ = "%s get_state(%r, %d)" % (desc, sp if spform != "object" else "Species(%s)" % labels[s], k)
            ok, got = ck.call("get_state", stag, c_, lambda: tr.get_state(sp, k))
            if ok:
                ck.vector("get_state", stag, got, [valf(k, s, c) for c in range(nc)], qunit, c_)
        # merged trajectory = sum over cells (position is documented as ignored)
        if want("get_trajectory_merged"):
            c_ = "%s get_trajectory(species %d as %s, merge=True)" % (desc, s, spform)
            ok, got = ck.call("get_trajectory_merged", stag, c_, lambda: tr.get_trajectory(sp, merge=True))
            if ok:
                exp, scale = _merged(valf, ns, nc, s)
                ck.vector("get_trajectory_merged", stag, got, exp, qunit, c_, scale)
        for c in cells:
            pos = _position_arg(posform, c, space)
            c_ = "%s get_trajectory(species %d as %s, position=%r)" % (desc, s, spform, pos)
            if want("get_trajectory"):
                # per-cell trajectory
                ok, got = ck.call("get_trajectory", ptag, c_, lambda: tr.get_trajectory(sp, pos))
                if ok:
                    ck.vector("get_trajectory", ptag, got, [valf(k, s, c) for k in range(ns)], qunit, c_)
                ok, got = ck.call("get_trajectory", ptag, c_ + " [keyword]", lambda: tr.get_trajectory(sp, position=pos))
                if ok:
                    ck.vector("get_trajectory", ptag, got, [valf(k, s, c) for k in range(ns)], qunit, c_ + " [keyword]")
            if want("get_trajectory_merged"):
                # merged with a position given: position ignored
                ok, got = ck.call("get_trajectory_merged", ptag, c_ + " merge=True",
                                  lambda: tr.get_trajectory(sp, pos, merge=True))
                if ok:
                    exp, scale = _merged(valf, ns, nc, s)
                    ck.vector("get_trajectory_merged", ptag, got, exp, qunit, c_ + " merge=True", scale)
            for k in samples:
                if want("get_trajectory_point"):
                    # point accessor
                    c_ = "%s get_trajectory_point(species %d as %s, sample %d, position %r)" % (desc, s, spform, k, pos)
                    ok, got = ck.call("get_trajectory_point", ptag, c_, lambda: tr.get_trajectory_point(sp, k, pos))
                    if ok:
                        ck.scalar("get_trajectory_point", ptag, got, valf(k, s, c), qunit, c_)
                if want("data"):
                    # direct indexing of the data
                    i = flat_index(k, s, c, nsp, nc)
                    c_ = "%s data[%d] (sample %d x nspecies x ncells + species %d x ncells + cell %d)" % (desc, i, k, s, c)
                    ok, got = ck.call("data", kind, c_, lambda: tr.data.get_at(i))
                    if ok:
                        ck.scalar("data", kind, got, valf(k, s, c), qunit, c_)
                    ok, got = ck.call("data", kind, c_, lambda: float(tr.data.value[i]))
                    if ok:
                        stats["evaluations"] += 1
                        if got != valf(k, s, c):
                            ck.fail("C17:data:wrong-value:%s" % kind, "%s .value = %r, expected %r" % (c_, got, valf(k, s, c)))


# ---- sample-index lookup ---------------------------------------------------------------------------

def _tscale(u):
    return si.TIME[u]


def brute(policy, T, t):
    """T: list of exact sample times, t: exact query.  Index (or None) by the statement."""
    n = len(T)
    if policy == "closest":
        best = None
        for i in range(n):
            if best is None or abs(T[i] - t) < abs(T[best] - t):     # strict: ties stay with the earlier index
                best = i
        return best
    if policy == "infeq":
        r = None
        for i in range(n):
            if T[i] <= t:
                r = i
        return r
    if policy == "supeq":
        for i in range(n):
            if T[i] >= t:
                return i
        return None
    raise ValueError(policy)


def _region(T, t):
    if t < T[0]:
        return "before-first"
    if t > T[-1]:
        return "after-last"
    if t in T:
        return "on-sample"
    for i in range(len(T) - 1):
        if T[i] < t < T[i + 1] and t - T[i] == T[i + 1] - t:
            return "midpoint"
    return "between"


def _query_value(q, tunit, qunit):
    """float value, in qunit, of the lattice time q (expressed in tunit); correctly rounded."""
    return si.to_float(q * _tscale(tunit) / _tscale(qunit))


def _check_lookup(case, out, stats, only=None):
    times = [F(x) for x in case["times"]]
    tunit, qunit, form = case["tunit"], case["qunit"], case["form"]
    dup = case["sub"] == "lookup-dup"
    n = len(times)
    system = _mk_system(1, ["grid", 1, 1, 1])
    tr = RDTrajectory(UnitArray([0.0] * n, "molecule"), UnitArray([float(x) for x in times], tunit), system)
    T = [x * _tscale(tunit) for x in times]          # exact, in seconds
    for qi, q in enumerate(QUERIES):
        v = _query_value(q, tunit, qunit)
        te = F(v) * _tscale(qunit)                    # exact time that the query text/value denotes
        exact_conv = (qunit == tunit) or v == 0.0     # no scaling needed / 0 scales to 0
        arg = UnitValue(v, qunit) if form == "UnitValue" else "%r %s" % (v, qunit)
        region = _region(T, q * _tscale(tunit))
        for policy in POLICIES:
            if only is not None and (qi, policy) != tuple(only):
                continue
            ref = brute(policy, T, te)
            accept = [ref]
            if not exact_conv:
                # near-tie rule: the conversion may round; within 1e-9 (relative) of a boundary both sides are accepted
                for tt in (te - abs(te) * NEAR, te + abs(te) * NEAR):
                    r2 = brute(policy, T, tt)
                    if r2 not in accept:
                        accept.append(r2)
            if len(accept) > 1:
                stats["near_tie"] += 1
            if dup:
                acc2 = []
                for r in accept:
                    if r is None:
                        acc2.append(None)
                    else:
                        acc2.extend(j for j in range(n) if T[j] == T[r] and j not in acc2)
                if len(acc2) > len(accept):
                    stats["dup_any_of_equal_times"] += 1
                accept = acc2
            if None in accept:
                stats["none_expected"] += 1
            if region == "midpoint" and policy == "closest" and exact_conv:
                stats["exact_ties_closest"] += 1
            stats["transitions"] += 1
            stats["evaluations"] += 1
            ktail = "%s:%s%s" % (region, "same-unit" if qunit == tunit else "cross-unit", ":dup" if dup else "")
            ctxt = "t=%s %s, get_sample_index(%s, %r)" % ([float(x) for x in times], tunit,
                                                          repr(arg) if form == "str" else "UnitValue(%r, %r)" % (v, qunit), policy)
            try:
                got = tr.get_sample_index(arg, policy)
            except Exception as e:
                out.append(("C17:get_sample_index:%s:unexpected-exception:%s" % (policy, ktail),
                            "%s raised %s: %s" % (ctxt, type(e).__name__, e)))
                continue
            if got is not None and (isinstance(got, bool) or not isinstance(got, numbers.Integral)):
                out.append(("C17:get_sample_index:%s:result-type:%s" % (policy, ktail),
                            "%s returned %r (%s)" % (ctxt, got, type(got).__name__)))
                continue
            if got is not None:
                got = int(got)
            if got in accept:
                if len(accept) > 1 and not dup and got != brute(policy, T, q * _tscale(tunit)):
                    # informational: rounding of the unit conversion moved an on-boundary query to the other side
                    stats["near_tie_not_lattice_answer"] += 1
                continue
            if got is None:
                cls = "none-but-sample-exists"
            elif accept == [None]:
                cls = "index-but-no-such-sample"
            else:
                cls = "wrong-index"
            out.append(("C17:get_sample_index:%s:%s:%s" % (policy, cls, ktail),
                        "%s returned %r, expected %s" % (ctxt, got, " or ".join(repr(a) for a in accept))))



# ---- histories on ONE trajectory object (E2) --------------------------------------------------------

HVALUES = [0.0, 0.25, 0.5, 0.75, 1.0, 1.25, 1.5]
HLISTS = ["sep", "lat"]
HLONG_ORDERS = ["v-major", "unit-major", "policy-major", "v-major-reversed"]


def _hist_times(name, tunit):
    """stored sample times (floats, in tunit).  'sep': 2^-7 s, 4 s, 256 s - for every v in 0.25..1.5 the times
    v ms < 2^-7 s < v s < 4 s < v min < 256 s < v h fall into four different intervals, far from every decision
    boundary, so the same NUMBER in the four units has four different answers.  'lat': 0.25, 0.75, 1.25 tunit."""
    if name == "lat":
        return [0.25, 0.75, 1.25]
    if name == "sep":
        return [si.to_float(F(x) / _tscale(tunit)) for x in (F(1, 128), F(4), F(256))]
    raise ValueError(name)


def _accept_set(policy, T, tunit, v, qunit):
    """accepted answers of one lookup (near-tie rule as in _check_lookup); second item: near tie?"""
    te = F(v) * _tscale(qunit)
    accept = [brute(policy, T, te)]
    if not (qunit == tunit or v == 0.0):
        for tt in (te - abs(te) * NEAR, te + abs(te) * NEAR):
            r2 = brute(policy, T, tt)
            if r2 not in accept:
                accept.append(r2)
    return accept


def _history_steps(case):
    """[(v, unit, form, policy)] of one lookup history."""
    kind = case["kind"]
    if kind == "orders":
        v, order, form = case["v"], case["order"], case["form"]
        if case["nest"] == "unit-major":      # same number, same unit, the three policies in a row; then the next unit
            return [(v, u, form, p) for u in order for p in POLICIES]
        return [(v, u, form, p) for p in POLICIES for u in order]
    if kind == "pairs":
        v = case["v"]
        return [x for p in POLICIES for x in ((v, case["ua"], case["fa"], p), (v, case["ub"], case["fb"], p))]
    if kind == "long":
        o, form = case["order"], case["form"]
        if o == "v-major":
            st = [(v, u, form, p) for v in HVALUES for u in TUNITS for p in POLICIES]
        elif o == "unit-major":
            st = [(v, u, form, p) for u in TUNITS for p in POLICIES for v in HVALUES]
        elif o == "policy-major":
            st = [(v, u, form, p) for p in POLICIES for v in HVALUES for u in TUNITS]
        elif o == "v-major-reversed":
            st = [(v, u, form, p) for v in HVALUES[::-1] for u in TUNITS[::-1] for p in POLICIES[::-1]]
        else:
            raise ValueError(o)
        return st + st            # second pass over the same object: same answers again
    raise ValueError(kind)


def _check_lookup_history(case, out, stats):
    tunit = case["tunit"]
    times = _hist_times(case["list"], tunit)
    T = [F(x) * _tscale(tunit) for x in times]
    system = _mk_system(1, ["grid", 1, 1, 1])
    tr = RDTrajectory(UnitArray([0.0] * len(times), "molecule"), UnitArray(times, tunit), system)
    steps = _history_steps(case)
    if case.get("upto") is not None:
        steps = steps[:case["upto"] + 1]
    seen = {}            # (policy, v) -> accept sets of the earlier steps with the same number
    seen_v = {}          # v -> accept sets of the earlier steps with the same number (any policy)
    done = []
    for n, (v, qunit, form, policy) in enumerate(steps):
        arg = UnitValue(v, qunit) if form == "UnitValue" else "%r %s" % (v, qunit)
        shown = repr(arg) if form == "str" else "UnitValue(%r, %r)" % (v, qunit)
        accept = _accept_set(policy, T, tunit, v, qunit)
        if len(accept) > 1:
            stats["near_tie"] += 1
        if any(not set(a) & set(accept) for a in seen.get((policy, v), [])):
            stats["history_steps_refuting_a_cache_on_policy_and_number"] += 1
        if any(not set(a) & set(accept) for a in seen_v.get(v, [])):
            stats["history_steps_refuting_a_cache_on_number"] += 1
        seen.setdefault((policy, v), []).append(accept)
        seen_v.setdefault(v, []).append(accept)
        stats["transitions"] += 1
        stats["evaluations"] += 1
        done.append("(%s, %r)" % (shown, policy))
        ktail = "%s:%s" % (case["kind"], "same-unit" if qunit == tunit else "cross-unit")
        ctxt = "t=%r %s, step %d of the history %s on one object: get_sample_index(%s, %r)" % (
            times, tunit, n, " ".join(done[-9:]) if len(done) <= 9 else "... " + " ".join(done[-9:]), shown, policy)
        try:
            got = tr.get_sample_index(arg, policy)
        except Exception as e:
            out.append(("C17:get_sample_index-history:%s:unexpected-exception:%s" % (policy, ktail),
                        "%s raised %s: %s" % (ctxt, type(e).__name__, e)))
            continue
        if got is not None and (isinstance(got, bool) or not isinstance(got, numbers.Integral)):
            out.append(("C17:get_sample_index-history:%s:result-type:%s" % (policy, ktail),
                        "%s returned %r (%s)" % (ctxt, got, type(got).__name__)))
            continue
        if got is not None:
            got = int(got)
        if got in accept:
            continue
        cls = "none-but-sample-exists" if got is None else ("index-but-no-such-sample" if accept == [None] else "wrong-index")
        out.append(("C17:get_sample_index-history:%s:%s:%s" % (policy, cls, ktail),
                    "%s returned %r, expected %s" % (ctxt, got, " or ".join(repr(a) for a in accept))))
    # the lookups are reads: the stored times are still the same physical times (compared in SI, 1e-12 relative;
    # the statement does not forbid re-expressing them, so the unit itself is not compared)
    stats["evaluations"] += 1
    try:
        now = uq.si_value(tr.t)
        same = uq.dim_of(tr.t.units) == (0, 1, 0) and len(now) == len(T) and all(
            (a == b) if b == 0 else abs(a / b - 1) <= F(1, 10 ** 12) for a, b in zip(now, T))
        if not same:
            out.append(("C17:get_sample_index-history:trajectory-mutated:t",
                        "after the lookups t = %s, it was built as %r %s" % (tr.t, times, tunit)))
    except Exception as e:
        out.append(("C17:get_sample_index-history:trajectory-mutated:t", "t unreadable after the lookups: %s" % e))


def _snapshot(tr):
    return {"data": [float(x) for x in tr.data.value], "data_units": uq.sys_of(tr.data.units) + uq.dim_of(tr.data.units),
            "t": [float(x) for x in tr.t.value], "t_units": uq.sys_of(tr.t.units) + uq.dim_of(tr.t.units),
            "state": [float(x) for x in tr.system.state.value]}


def _check_accessor_history(case, out, stats):
    """every species form x position form on ONE object, all triples in increasing order; then the forms in the
    opposite order with all triples in decreasing order.  Every answer is compared with the oracle (hence the two
    passes agree), and the trajectory must be unchanged afterwards."""
    ns, nsp, nc, space = case["ns"], case["nsp"], case["nc"], case["space"]
    tr, data, qunit = _mk_traj(ns, nsp, nc, space, case["units"])
    before = _snapshot(tr)
    combos = [(a, b) for a in SPFORMS for b in (GRID_POSFORMS if space[0] == "grid" else GRAPH_POSFORMS)]
    passes = [(combos, False), (combos[::-1], True)]
    if case.get("pass") is not None:
        passes = passes[:case["pass"] + 1]
    for combo_list, rev in passes:
        for spform, posform in combo_list:
            _check_accessors(tr, ns, nsp, nc, space, qunit, spform, posform, out, stats, rev=rev, prefix="history-")
    after = _snapshot(tr)
    for k in ("data", "data_units", "t", "t_units", "state"):
        stats["evaluations"] += 1
        if after[k] != before[k]:
            out.append(("C17:history-accessors:trajectory-mutated:%s" % k,
                        "shape(ns=%d,nsp=%d,nc=%d) %s: after reading every triple through every accessor %s = %r, before %r"
                        % (ns, nsp, nc, space, k, after[k], before[k])))


# ---- histories with modifications between the reads (E2) -------------------------------------------

DATA_MODS = ["value-setter", "set_value", "inplace-write", "set_at", "units-relabel"]
T_MODS = ["t-value-setter", "t-set_at", "t-units-relabel"]
FIRST_READERS = ["get_state", "get_trajectory", "get_trajectory_merged", "get_trajectory_point", "get_state_whole", "data"]
PATTERNS = ["R,M,R", "M,R,M,R"]
OTHER_QUNIT = {"molecule": "pmol", "nmol": "pmol", "µmol": "nmol", "pmol": "nmol"}
OTHER_TUNIT = {"s": "min", "ms": "s", "min": "h", "h": "min"}


def _apply_data_mod(tr, kind, rnd, stats):
    """one documented way of changing the trajectory's data; returns the text of what was done."""
    old = [float(x) for x in tr.data.value]
    cur = uq.sys_of(tr.data.units)[2]
    a, b = 2 + rnd, 1 + rnd
    expect, exact = None, True
    if kind == "value-setter":
        tr.data.value = tr.data.value * a + b                      # a new ndarray through the property setter
        expect, text = [x * a + b for x in old], "data.value = data.value*%d+%d" % (a, b)
    elif kind == "set_value":
        expect = [x * a + b for x in old]
        tr.data.set_value(list(expect))
        text = "data.set_value([x*%d+%d for x in old])" % (a, b)
    elif kind == "inplace-write":
        expect = [-x - 1 - rnd for x in old]
        for i, x in enumerate(expect):
            tr.data.value[i] = x
        text = "data.value[i] = -old[i]-%d for every i" % (1 + rnd)
    elif kind == "set_at":
        other = OTHER_QUNIT[cur]
        f = si.QUANTITY[other] / si.QUANTITY[cur]
        expect, exact = [(F(x) + 1 + rnd) * f for x in old], False
        for i, x in enumerate(old):
            tr.data.set_at(i, UnitValue(x + 1 + rnd, other))
        text = "data.set_at(i, UnitValue(old[i]+%d, %r)) for every i" % (1 + rnd, other)
    elif kind == "units-relabel":
        other = OTHER_QUNIT[cur]
        tr.data.units = other
        expect, text = old, "data.units = %r" % other
    else:
        raise ValueError(kind)
    now = [float(x) for x in tr.data.value]
    took = len(now) == len(expect) and all((x == e) if exact else si.rel_err(x, e) <= 1e-12 for x, e in zip(now, expect))
    stats["modify_steps_reflected_by_direct_indexing" if took else "modify_steps_NOT_reflected_by_direct_indexing"] += 1
    return text


def _read_all(tr, ns, nsp, nc, space, first, out, stats, note, suffix, prefix="modify-"):
    """first reader (one accessor, all triples), then every accessor in two form combinations; the reference is
    direct indexing of the CURRENT data and its current units (the statement's own formulation)."""
    import numpy as np
    live = [float(x) for x in np.asarray(tr.data.value, dtype=float).ravel()]
    if len(live) != ns * nsp * nc:
        out.append(("C17:%sdata:wrong-length:%s" % (prefix, suffix), "%sdata has %d entries, expected %d" % (note, len(live), ns * nsp * nc)))
        return
    qunit = uq.sys_of(tr.data.units)[2]

    def valf(k, s, c):
        return live[flat_index(k, s, c, nsp, nc)]
    grid = space[0] == "grid"
    _check_accessors(tr, ns, nsp, nc, space, qunit, "label", "index", out, stats, prefix=prefix, valf=valf,
                     only_sites=[first], suffix=suffix, note=note + " first reader %s: " % first)
    _check_accessors(tr, ns, nsp, nc, space, qunit, "index", "index", out, stats, prefix=prefix, valf=valf,
                     suffix=suffix, note=note + " ")
    _check_accessors(tr, ns, nsp, nc, space, qunit, "object", "tuple" if grid else "index", out, stats, rev=True,
                     prefix=prefix, valf=valf, suffix=suffix, note=note + " ")


def _check_accessor_modify(case, out, stats):
    import copy
    ns, nsp, nc, space = case["ns"], case["nsp"], case["nc"], case["space"]
    tr, data, qunit0 = _mk_traj(ns, nsp, nc, space, case["units"])
    kind, first = case["kind"], case["first"]
    hist = []

    def note():
        return "after [%s] on one object:" % "; ".join(hist)
    if kind == "deepcopy":
        _read_all(tr, ns, nsp, nc, space, first, out, stats, "fresh object:", "before-modification")
        hist.append("read-all")
        cp = copy.deepcopy(tr)
        hist.append("cp = copy.deepcopy(traj)")
        before = [float(x) for x in cp.data.value]
        hist.append("traj." + _apply_data_mod(tr, "value-setter", 0, stats))
        stats["evaluations"] += 1
        if [float(x) for x in cp.data.value] != before:
            out.append(("C17:modify-deepcopy:copy-follows-original", "%s the copy's data became %r, it was %r"
                        % (note(), [float(x) for x in cp.data.value], before)))
        _read_all(cp, ns, nsp, nc, space, first, out, stats, note() + " [reads on cp]", "deepcopy-copy")
        _read_all(tr, ns, nsp, nc, space, first, out, stats, note() + " [reads on traj]", "deepcopy-original")
        hist.append("cp." + _apply_data_mod(cp, "set_value", 1, stats))
        _read_all(cp, ns, nsp, nc, space, first, out, stats, note() + " [reads on cp]", "deepcopy-copy")
        _read_all(tr, ns, nsp, nc, space, first, out, stats, note() + " [reads on traj]", "deepcopy-original")
        return
    nmod = 0
    steps = case["pattern"].split(",")
    if case.get("upto") is not None:
        steps = steps[:case["upto"] + 1]
    for st in steps:
        if st == "R":
            _read_all(tr, ns, nsp, nc, space, first, out, stats, note() if hist else "fresh object:",
                      ("after-" + kind) if nmod else "before-modification")
            hist.append("read-all")
        else:
            hist.append(_apply_data_mod(tr, kind, nmod, stats))
            nmod += 1


def _apply_t_mod(tr, kind, rnd):
    n = len(tr.t.value)
    cur = uq.sys_of(tr.t.units)[1]
    if kind == "t-value-setter":
        new = [0.5 + 1.5 * i + rnd for i in range(n)]
        tr.t.value = new
        return "t.value = %r" % new
    if kind == "t-set_at":
        other = OTHER_TUNIT[cur]
        for i in range(n):
            tr.t.set_at(i, UnitValue(3.0 * i + 1 + rnd, other))
        return "t.set_at(i, UnitValue(3*i+%d, %r)) for every i" % (1 + rnd, other)
    if kind == "t-units-relabel":
        other = OTHER_TUNIT[cur]
        tr.t.units = other
        return "t.units = %r" % other
    raise ValueError(kind)


def _lookup_pass(tr, out, stats, note, suffix):
    """lookups against the CURRENT sample times: every stored time, every midpoint, before the first, after the
    last; in the current unit of t (UnitValue, strict) and in another unit (str, near-tie rule); 3 policies."""
    cur = uq.sys_of(tr.t.units)[1]
    stored = [float(x) for x in tr.t.value]
    T = [F(x) * _tscale(cur) for x in stored]
    qs = [stored[0] - 1.0] + stored + [(stored[i] + stored[i + 1]) / 2 for i in range(len(stored) - 1)] + [stored[-1] + 1.0]
    other = OTHER_TUNIT[cur]
    for v0 in qs:
        for (qunit, form) in ((cur, "UnitValue"), (other, "str")):
            v = v0 if qunit == cur else si.to_float(F(v0) * _tscale(cur) / _tscale(qunit))
            arg = UnitValue(v, qunit) if form == "UnitValue" else "%r %s" % (v, qunit)
            shown = repr(arg) if form == "str" else "UnitValue(%r, %r)" % (v, qunit)
            for policy in POLICIES:
                accept = _accept_set(policy, T, cur, v, qunit)
                stats["transitions"] += 1
                stats["evaluations"] += 1
                ktail = "%s:%s" % (suffix, "same-unit" if qunit == cur else "cross-unit")
                ctxt = "%s t is now %r %s; get_sample_index(%s, %r)" % (note, stored, cur, shown, policy)
                try:
                    got = tr.get_sample_index(arg, policy)
                except Exception as e:
                    out.append(("C17:modify-get_sample_index:%s:unexpected-exception:%s" % (policy, ktail),
                                "%s raised %s: %s" % (ctxt, type(e).__name__, e)))
                    continue
                if got is not None and (isinstance(got, bool) or not isinstance(got, numbers.Integral)):
                    out.append(("C17:modify-get_sample_index:%s:result-type:%s" % (policy, ktail),
                                "%s returned %r" % (ctxt, got)))
                    continue
                if got is not None:
                    got = int(got)
                if got not in accept:
                    out.append(("C17:modify-get_sample_index:%s:wrong-answer:%s" % (policy, ktail),
                                "%s returned %r, expected %s" % (ctxt, got, " or ".join(repr(x) for x in accept))))


def _check_lookup_modify(case, out, stats):
    n, tunit, kind = case["n"], case["tunit"], case["kind"]
    system = _mk_system(1, ["grid", 1, 1, 1])
    tr = RDTrajectory(UnitArray([0.0] * n, "molecule"), UnitArray([float(i) for i in range(n)], tunit), system)
    hist, nmod = [], 0
    steps = case["pattern"].split(",")
    if case.get("upto") is not None:
        steps = steps[:case["upto"] + 1]
    for st in steps:
        if st == "R":
            _lookup_pass(tr, out, stats, ("after [%s] on one object:" % "; ".join(hist)) if hist else "fresh object:",
                         ("after-" + kind) if nmod else "before-modification")
            hist.append("lookups")
        else:
            hist.append(_apply_t_mod(tr, kind, nmod))
            nmod += 1


# ---- trajectory provenance: the same accessor oracles on trajectories from the real producers --------

PRODUCERS = ["plain", "cg-identity", "cg-lump", "cg-lump-drop"]
CTOR_MISMATCH = ["ctor-mismatch-graph", "ctor-mismatch-transposed"]
POSTS = ["direct", "save-load-separate", "save-load-inline", "deepcopy"]


def _cgmap(producer, n):
    if producer == "cg-identity":
        return list(range(n))
    if producer == "cg-lump":                      # cells 0 and 1 lumped, every other cell alone: n-1 nodes
        return [0, 0] + list(range(1, n - 1))
    if producer == "cg-lump-drop":                 # the same with the last cell dropped: n-2 nodes
        return [0, 0] + list(range(1, n - 2)) + [-1]
    return None


def _provenance_system(w, h, d):
    from strengths.rdnetwork import Reaction
    nc = w * h * d
    net = RDNetwork(species=[Species(LABELS[0], density=0, D=1), Species(LABELS[1], density=0, D=0.5)],
                    reactions=[Reaction("%s -> %s" % (LABELS[0], LABELS[1]), kf=0.5, kr=0.25)])
    state = [float(10 * (s * nc + c) + 10) for s in range(2) for c in range(nc)]
    return RDSystem(net, RDGridSpace(w=w, h=h, d=d), state=state)


def _check_provenance(case, out, stats):
    """a trajectory from a real producer is expressed on the caller's own grid system: data holds
    nsamples x nspecies x (w*h*d) values; every accessor must agree with direct indexing of that data, cells by
    linear index and by (x,y,z) coordinates of the caller's grid."""
    import copy
    import shutil
    import tempfile
    from mc import eng
    from strengths.rdscript import RDScript
    from strengths.simulate import simulate_script
    from strengths.rdoutput import save_rdtrajectory, load_rdtrajectory
    w, h, d = case["grid"]
    nc, nsp = w * h * d, 2
    space = ["grid", w, h, d]
    producer, post, first = case["producer"], case["post"], case["first"]
    suffix = "%s:%s" % (producer, post)
    tsam = [0.0, 0.25, 0.5]
    system = _provenance_system(w, h, d)
    stats["transitions"] += 1
    if producer in CTOR_MISMATCH:
        # hand-built: the `system` argument is the trajectory's system, the script was written for another one
        if producer == "ctor-mismatch-graph":
            other = RDSystem(system.network, _mk_space(["graph", nc - 1]))
        else:
            other = RDSystem(system.network, RDGridSpace(w=h, h=w, d=d))
        script = RDScript(other, t_sample=tsam, time_step=0.125, rng_seed=1)
        data = [val(k, s, c) for k in range(3) for s in range(nsp) for c in range(nc)]
        tr = RDTrajectory(UnitArray(data, "molecule"), UnitArray(tsam, "s"), system, script=script)
        note = "RDTrajectory(data on grid %dx%dx%d, t, system=that grid, script=RDScript(%s))" % (
            w, h, d, "graph of %d nodes" % (nc - 1) if producer == "ctor-mismatch-graph" else "grid %dx%dx%d" % (h, w, d))
    else:
        script = RDScript(system, t_sample=tsam, time_step=0.125, rng_seed=3)
        cg = _cgmap(producer, nc)
        note = "simulate_script(script on grid %dx%dx%d, %s engine, cgmap=%r)" % (w, h, d, case["engine"], cg)
        try:
            tr = simulate_script(script, eng.make_engine(case["engine"]), cgmap=cg)
        except Exception as e:
            # whether the producer accepts the script / map is C16's and C10's business
            stats["provenance_producer_raised"] += 1
            return
    import numpy as np
    src_len = (len(np.asarray(tr.data.value).ravel()), len(np.asarray(tr.t.value).ravel()))
    if post in ("save-load-separate", "save-load-inline"):
        tmp = tempfile.mkdtemp(prefix="c17prov_")
        try:
            save_rdtrajectory(tr, tmp + "/traj", separate_data=(post == "save-load-separate"))
            tr = load_rdtrajectory(tmp + "/traj.json")
            note += " -> save_rdtrajectory -> load_rdtrajectory"
        except Exception:
            stats["provenance_save_load_raised"] += 1        # file round trips are C12's
            return
        finally:
            shutil.rmtree(tmp, ignore_errors=True)
    elif post == "deepcopy":
        tr = copy.deepcopy(tr)
        note += " -> copy.deepcopy"
    dv, tv = np.asarray(tr.data.value), np.asarray(tr.t.value)
    nt = int(tv.size)
    if dv.size != nt * nsp * nc:
        stats["provenance_unexpected_data_length"] += 1      # what the producer records is C09's / C16's
        return
    stats["provenance_trajectories_read"] += 1
    # direct indexing at sample x nspecies x ncells + species x ncells + cell needs FLAT data and times
    stats["evaluations"] += 2
    try:
        ld, lt = len(tr.data), len(tr.t)
    except Exception as e:
        ld = lt = "%s: %s" % (type(e).__name__, e)
    if dv.ndim != 1 or ld != nt * nsp * nc:
        out.append(("C17:provenance-data:not-flat:%s" % suffix,
                    "%s: data.value has shape %r and len(data) = %r; direct indexing at sample*nspecies*ncells + "
                    "species*ncells + cell needs a flat array of %d x %d x %d = %d numbers"
                    % (note, tuple(dv.shape), ld, nt, nsp, nc, nt * nsp * nc)))
    if tv.ndim != 1 or lt != nt:
        out.append(("C17:provenance-t:not-flat:%s" % suffix, "%s: t.value has shape %r and len(t) = %r"
                    % (note, tuple(tv.shape), lt)))
    if post != "direct" and (int(dv.size), nt) != src_len:
        out.append(("C17:provenance-data:size-differs-from-source:%s" % suffix,
                    "%s: (data size, number of samples) = %r, the source trajectory had %r" % (note, (int(dv.size), nt), src_len)))
    stats["evaluations"] += 1
    try:
        shape = (tr.nsamples(), tr.nspecies(), tr.ncells())
    except Exception as e:
        shape = "%s: %s" % (type(e).__name__, e)
    if shape != (nt, nsp, nc):
        out.append(("C17:provenance-shape:differs-from-data-layout:%s" % suffix,
                    "%s: (nsamples(), nspecies(), ncells()) = %r but data holds %d x %d x %d values on the caller's grid "
                    "(system.space is a %s of size %s)" % (note, shape, nt, nsp, nc, type(tr.system.space).__name__,
                                                           tr.system.space.size())))
    _read_all(tr, nt, nsp, nc, space, first, out, stats, note + ":", suffix, prefix="provenance-")


# ---- argument carriers: the same argument VALUE carried by another numeric type ----------------------

FLAG_CARRIERS = ["True", "False", "1", "0", "np.True_", "np.False_", "np.bool_(True)", "np.int64(1)", "np.int64(0)"]
FLAG_STYLES = ["keyword", "positional"]
INDEX_DTYPES = ["int64", "int32"]
INDEX_ROLES = ["species", "sample", "cell"]
COORD_GRIDS = [[4, 5, 7], [5, 5, 6], [8, 8, 8]]
COORD_CONTAINERS = ["ndarray", "tuple", "list", "object"]
COORD_DTYPES = ["int8", "uint8", "int16", "int32", "int64"]


def _flag(name):
    import numpy as np
    return {"True": True, "False": False, "1": 1, "0": 0, "np.True_": np.True_, "np.False_": np.False_,
            "np.bool_(True)": np.bool_(True), "np.int64(1)": np.int64(1), "np.int64(0)": np.int64(0)}[name]


def _check_flag_carrier(case, out, stats):
    """get_trajectory(species, position, merge): a true flag gives the sum over cells (position ignored), a false
    one the cell's own trajectory, whatever numeric type carries the truth value, by keyword or positionally."""
    ns, nsp, nc, space = case["ns"], case["nsp"], case["nc"], case["space"]
    tr, data, qunit = _mk_traj(ns, nsp, nc, space, 0)
    name, style = case["flag"], case["style"]
    flag = _flag(name)
    truth = name in ("True", "1", "np.True_", "np.bool_(True)", "np.int64(1)")
    ck = _Checker(out, stats, "carrier-", "flag-%s:%s" % (name, style))
    kind = space[0]
    for s in range(nsp):
        for c in range(nc):
            for sp in (LABELS[s], s):
                c_ = "shape(ns=%d,nsp=%d,nc=%d) %s get_trajectory(%r, %d, %s%s)" % (
                    ns, nsp, nc, space, sp, c, "merge=" if style == "keyword" else "", name)
                stats["transitions"] += 1
                try:
                    got = tr.get_trajectory(sp, c, merge=flag) if style == "keyword" else tr.get_trajectory(sp, c, flag)
                except Exception as e:
                    if name in ("True", "False"):
                        ck.fail("C17:get_trajectory_merged:unexpected-exception:%s" % kind, "%s raised %s: %s" % (c_, type(e).__name__, e))
                    else:
                        stats["carrier_rejected"] += 1          # a library may insist on a real bool
                    continue
                stats["carrier_accepted"] += 1
                if truth:
                    exp, scale = _merged(val, ns, nc, s)
                    ck.vector("get_trajectory_merged", kind, got, exp, qunit, c_ + " [true flag: sum over cells]", scale)
                else:
                    ck.vector("get_trajectory", kind, got, [val(k, s, c) for k in range(ns)], qunit,
                              c_ + " [false flag: the cell's own trajectory]")


def _check_index_carrier(case, out, stats):
    """species index / sample index / linear cell index given as a numpy integer instead of an int."""
    import numpy as np
    ns, nsp, nc, space = case["ns"], case["nsp"], case["nc"], case["space"]
    tr, data, qunit = _mk_traj(ns, nsp, nc, space, 0)
    T = getattr(np, case["dtype"])
    role = case["role"]
    ck = _Checker(out, stats, "carrier-", "%s-index-%s" % (role, case["dtype"]))
    kind = space[0]

    def attempt(site, c_, f, check):
        stats["transitions"] += 1
        try:
            got = f()
        except Exception:
            stats["carrier_rejected"] += 1
            return
        stats["carrier_accepted"] += 1
        check(got)
    for k in range(ns):
        for s in range(nsp):
            for c in range(nc):
                a_s = T(s) if role == "species" else s
                a_k = T(k) if role == "sample" else k
                a_c = T(c) if role == "cell" else c
                d_ = "shape(ns=%d,nsp=%d,nc=%d) %s with the %s index as numpy.%s:" % (ns, nsp, nc, space, role, case["dtype"])
                c1 = "%s get_trajectory_point(%d, %d, %d)" % (d_, s, k, c)
                attempt("get_trajectory_point", c1, lambda: tr.get_trajectory_point(a_s, a_k, a_c),
                        lambda got: ck.scalar("get_trajectory_point", kind, got, val(k, s, c), qunit, c1))
                if role != "cell" and c == 0:
                    c2 = "%s get_state(%d, %d)" % (d_, s, k)
                    attempt("get_state", c2, lambda: tr.get_state(a_s, a_k),
                            lambda got: ck.vector("get_state", kind, got, [val(k, s, cc) for cc in range(nc)], qunit, c2))
                if role == "sample" and s == 0 and c == 0:
                    c4 = "%s get_state(None, %d)" % (d_, k)
                    attempt("get_state_whole", c4, lambda: tr.get_state(None, a_k),
                            lambda got: ck.vector("get_state_whole", kind, got,
                                                  [val(k, ss, cc) for ss in range(nsp) for cc in range(nc)], qunit, c4))
                if role != "sample" and k == 0:
                    c3 = "%s get_trajectory(%d, %d)" % (d_, s, c)
                    attempt("get_trajectory", c3, lambda: tr.get_trajectory(a_s, a_c),
                            lambda got: ck.vector("get_trajectory", kind, got, [val(kk, s, c) for kk in range(ns)], qunit, c3))
                    exp, scale = _merged(val, ns, nc, s)
                    attempt("get_trajectory_merged", c3, lambda: tr.get_trajectory(a_s, a_c, merge=True),
                            lambda got: ck.vector("get_trajectory_merged", kind, got, exp, qunit, c3 + " merge=True", scale))


def _check_coord_carrier(case, out, stats):
    """(x,y,z) carried by a numpy array / tuple / list / object of numpy scalars of a narrow integer dtype, on grids
    whose linear index does not fit the narrow dtypes although every coordinate does.  Reference: direct indexing."""
    import numpy as np
    w, h, d = case["grid"]
    nc, nsp, ns = w * h * d, 2, 2
    T = getattr(np, case["dtype"])
    if max(w, h, d) - 1 > np.iinfo(T).max:
        stats["carrier_coordinates_do_not_fit"] += 1
        return
    system = _mk_system(nsp, ["grid", w, h, d])
    data = [float(3 * i + 1) for i in range(ns * nsp * nc)]          # distinct value per entry
    tr = RDTrajectory(UnitArray(data, "molecule"), UnitArray([0.0, 1.0], "s"), system)
    cont = case["container"]
    ck = _Checker(out, stats, "carrier-", "%s-%s:%dx%dx%d" % (cont, case["dtype"], w, h, d))
    for c in range(nc):
        x, y, z = cell_xyz(c, w, h, d)
        arr = np.array([x, y, z], dtype=T)
        pos = arr if cont == "ndarray" else tuple(arr) if cont == "tuple" else list(arr) if cont == "list" else _Pos(arr[0], arr[1], arr[2])
        shown = "%s of numpy.%s (%d,%d,%d)" % (cont, case["dtype"], x, y, z)
        for s in range(nsp):
            live = [float(tr.data.value[flat_index(k, s, c, nsp, nc)]) for k in range(ns)]
            stats["transitions"] += 1
            c_ = "grid %dx%dx%d: get_trajectory(%d, %s) [linear index %d]" % (w, h, d, s, shown, c)
            try:
                got = tr.get_trajectory(s, pos)
            except Exception:
                stats["carrier_rejected"] += 1
            else:
                stats["carrier_accepted"] += 1
                ck.vector("get_trajectory", "grid", got, live, "molecule", c_)
            for k in range(ns):
                stats["transitions"] += 1
                c_ = "grid %dx%dx%d: get_trajectory_point(%d, %d, %s) [linear index %d]" % (w, h, d, s, k, shown, c)
                try:
                    got = tr.get_trajectory_point(s, k, pos)
                except Exception:
                    stats["carrier_rejected"] += 1
                else:
                    stats["carrier_accepted"] += 1
                    ck.scalar("get_trajectory_point", "grid", got, live[k], "molecule", c_)


# ---- network edited through its setters ----------------------------------------------------------------

def _net_edits(nsp):
    """edits of a network whose FINAL species list has nsp species (labels LABELS[:nsp] in some order)."""
    eds = [["permute", list(p)] for p in itertools.permutations(range(nsp)) if list(p) != list(range(nsp))]
    if nsp >= 2:
        eds += [["extend-back"], ["extend-front"]]
    eds += [["reactions-setter"], ["environments-setter"]]
    return eds


def _check_network_edited(case, out, stats):
    """the species list (or reactions / environments) is assigned through the documented RDNetwork setters, before
    the system and the trajectory are built ('pre') or on trajectory.system.network afterwards ('post'); a species
    label / object means the species at that label's position in the network's CURRENT species list, so label,
    index and object forms must agree with direct indexing."""
    from strengths.rdnetwork import Reaction
    ns, nsp, nc, space, edit, when = case["ns"], case["nsp"], case["nc"], case["space"], case["edit"], case["when"]
    kind = edit[0]
    final = list(LABELS[:nsp])                     # label of the species at each index after the edit

    def sp_obj(lbl):
        return Species(lbl, density=LABELS.index(lbl) + 1)

    def apply(net):
        nonlocal final
        if kind == "permute":
            cur = list(net.species)
            net.species = [cur[i] for i in edit[1]]
            final = [LABELS[i] for i in edit[1]]
            return "network.species = the same Species in the order %r" % (final,)
        if kind == "reactions-setter":
            net.reactions = [Reaction("%s -> %s" % (LABELS[0], LABELS[nsp - 1]), kf=1, kr=1)] if nsp >= 2 else []
            return "network.reactions = [...]"
        if kind == "environments-setter":
            net.environments = ["", "second"]
            return "network.environments = ['', 'second']"
        raise ValueError(kind)
    if kind in ("extend-back", "extend-front"):
        if when != "pre":
            stats["network_edit_not_determined"] += 1
            return
        # built with nsp-1 species, the setter then installs the nsp-species list
        base = final[:-1] if kind == "extend-back" else final[1:]
        net = RDNetwork(species=[sp_obj(l) for l in base], reactions=[])
        net.species = ([net.species[i] for i in range(nsp - 1)] + [sp_obj(final[-1])]) if kind == "extend-back" else \
            ([sp_obj(final[0])] + [net.species[i] for i in range(nsp - 1)])
        what = "RDNetwork(%r); network.species = %r" % (base, final)
    else:
        net = RDNetwork(species=[sp_obj(l) for l in final], reactions=[])
        what = "RDNetwork(%r)" % (final,)
        if when == "pre":
            what += "; " + apply(net)
    stats["transitions"] += 1
    data = [val(k, s, c) for k in range(ns) for s in range(nsp) for c in range(nc)]
    try:
        system = RDSystem(net, _mk_space(space))
        tr = RDTrajectory(UnitArray(data, "molecule"), UnitArray([float(k) for k in range(ns)], "s"), system)
        what += "; system, trajectory built"
        if when == "post":
            what += "; trajectory.system." + apply(tr.system.network)
    except Exception as e:
        stats["network_edit_rejected"] += 1        # whether an edited network is accepted is not C17's business
        return
    stats["network_edits_read"] += 1
    suffix = "%s:%s" % (kind, when)
    note = "after [%s]:" % what
    grid = space[0] == "grid"
    for spform, posform, rev in (("label", "index", False), ("index", "index", False),
                                 ("object", "tuple" if grid else "index", True)):
        _check_accessors(tr, ns, nsp, nc, space, "molecule", spform, posform, out, stats, rev=rev, prefix="netedit-",
                         suffix=suffix, note=note + " ", labels=final)


# ---- sample-index lookup beyond the small scope (long time lists) ---------------------------------------

LONG_NS = [5, 6, 7, 8, 9, 16, 17, 33]
LONG_KINDS = ["regular", "irregular", "dup-middle", "dup-ends"]
LONG_GAPS = [F(1, 4), F(1), F(1, 2), F(2), F(1, 8), F(3, 4), F(3, 2)]
LONG_EPS = F(1, 1024)


def _long_times(n, kind):
    """n never-decreasing sample times (exact dyadic rationals, in the storage unit)."""
    def irregular(m):
        out, t = [], F(1, 4)
        for i in range(m):
            out.append(t)
            t += LONG_GAPS[i % len(LONG_GAPS)]
        return out
    if kind == "regular":
        return [F(i, 2) for i in range(n)]
    if kind == "irregular":
        return irregular(n)
    if kind == "dup-middle":                       # one time recorded twice
        base = irregular(n - 1)
        j = (n - 1) // 2
        return base[:j + 1] + base[j:]
    if kind == "dup-ends":                         # first and last time recorded twice
        base = irregular(n - 2)
        return [base[0]] + base + [base[-1]]
    raise ValueError(kind)


def _long_queries(times):
    d = sorted(set(times))
    qs = [d[0] - 1] + list(d)
    for a, b in zip(d, d[1:]):
        qs += [(a + b) / 2, a + LONG_EPS, b - LONG_EPS]
    qs.append(d[-1] + 1)
    return sorted(set(qs))


def _check_lookup_long(case, out, stats):
    n, kind, tunit = case["n"], case["kind"], case["tunit"]
    times = _long_times(n, kind)
    dup = kind.startswith("dup")
    T = [x * _tscale(tunit) for x in times]
    system = _mk_system(1, ["grid", 1, 1, 1])
    tr = RDTrajectory(UnitArray([0.0] * n, "molecule"), UnitArray([float(x) for x in times], tunit), system)
    other = OTHER_TUNIT[tunit]
    only = case.get("only")
    for qi, q in enumerate(_long_queries(times)):
        region = _region(T, q * _tscale(tunit))
        for ui, (qunit, form) in enumerate(((tunit, "UnitValue"), (other, "str"))):
            v = float(q) if qunit == tunit else _query_value(q, tunit, qunit)
            arg = UnitValue(v, qunit) if form == "UnitValue" else "%r %s" % (v, qunit)
            shown = repr(arg) if form == "str" else "UnitValue(%r, %r)" % (v, qunit)
            for policy in POLICIES:
                if only is not None and [qi, ui, policy] != list(only):
                    continue
                accept = _accept_set(policy, T, tunit, v, qunit)
                if len(accept) > 1:
                    stats["near_tie"] += 1
                if dup:
                    acc2 = []
                    for r in accept:
                        if r is None:
                            acc2.append(None)
                        else:
                            acc2.extend(j for j in range(n) if T[j] == T[r] and j not in acc2)
                    accept = acc2
                stats["transitions"] += 1
                stats["evaluations"] += 1
                if region in ("between", "midpoint", "on-sample") and accept not in ([0], [n - 1], [None]):
                    stats["long_lookups_strictly_inside"] += 1
                ktail = "%s:%s%s" % (region, "same-unit" if qunit == tunit else "cross-unit", ":dup" if dup else "")
                ctxt = "%d %s samples t=%s %s, get_sample_index(%s, %r)" % (n, kind, [float(x) for x in times], tunit, shown, policy)
                try:
                    got = tr.get_sample_index(arg, policy)
                except Exception as e:
                    out.append(("C17:get_sample_index-long:%s:unexpected-exception:%s" % (policy, ktail),
                                "%s raised %s: %s" % (ctxt, type(e).__name__, e)))
                    continue
                if got is not None and (isinstance(got, bool) or not isinstance(got, numbers.Integral)):
                    out.append(("C17:get_sample_index-long:%s:result-type:%s" % (policy, ktail), "%s returned %r" % (ctxt, got)))
                    continue
                if got is not None:
                    got = int(got)
                if got in accept:
                    continue
                cls = "none-but-sample-exists" if got is None else ("index-but-no-such-sample" if accept == [None] else "wrong-index")
                out.append(("C17:get_sample_index-long:%s:%s:%s" % (policy, cls, ktail),
                            "%s returned %r, expected %s" % (ctxt, got, " or ".join(repr(a) for a in accept))))


# ---- queries a hair before / after the sample times ------------------------------------------------------

NEAR_LISTS = [[0.25], [10.0], [0.0, 0.5], [2.5, 10.0], [0.25, 0.75, 1.25], [0.5, 1.0, 1.5, 2.0, 2.5]]
NEAR_REL = [F(1, 2 ** 18), F(1, 2 ** 24), F(1, 2 ** 30)]       # 3.8e-6, 6.0e-8, 9.3e-10 (relative to the sample time)
NEAR_ABS = [F(1, 2 ** 28), F(1, 2 ** 34)]                      # around a sample at time 0


def _check_lookup_near(case, out, stats):
    """query times strictly before / after a sample time by a relative 4e-6 .. 1e-9: the ordered comparisons of the
    statement (not after / not before / closest) are exact, a sample 1e-6 away is NOT the queried time."""
    times = [F(x) for x in case["times"]]
    tunit = case["tunit"]
    n = len(times)
    T = [x * _tscale(tunit) for x in times]
    system = _mk_system(1, ["grid", 1, 1, 1])
    tr = RDTrajectory(UnitArray([0.0] * n, "molecule"), UnitArray([float(x) for x in times], tunit), system)
    other = OTHER_TUNIT[tunit]
    only = case.get("only")
    step = 0
    for i, ti in enumerate(times):
        where = "first" if i == 0 else ("last" if i == n - 1 else "interior")
        if n == 1:
            where = "only"
        offs = [ti * r for r in NEAR_REL] if ti != 0 else list(NEAR_ABS)
        for off in offs:
            for side, q in (("just-before", ti - off), ("just-after", ti + off)):
                for (qunit, form) in ((tunit, "UnitValue"), (tunit, "str"), (other, "str")):
                    v = float(q) if qunit == tunit else _query_value(q, tunit, qunit)
                    arg = UnitValue(v, qunit) if form == "UnitValue" else "%r %s" % (v, qunit)
                    shown = repr(arg) if form == "str" else "UnitValue(%r, %r)" % (v, qunit)
                    for policy in POLICIES:
                        step += 1
                        if only is not None and step != only:
                            continue
                        accept = _accept_set(policy, T, tunit, v, qunit)
                        if len(accept) > 1:
                            stats["near_tie"] += 1
                        else:
                            stats["near_lookups_decided_strictly"] += 1
                        stats["transitions"] += 1
                        stats["evaluations"] += 1
                        ktail = "%s-%s:%s" % (side, where, "same-unit" if qunit == tunit else "cross-unit")
                        ctxt = "t=%s %s, query %s sample %d by %.1e%s: get_sample_index(%s, %r)" % (
                            [float(x) for x in times], tunit, side.replace("-", " "), i, float(off if ti == 0 else off / ti),
                            " (absolute)" if ti == 0 else " (relative)", shown, policy)
                        try:
                            got = tr.get_sample_index(arg, policy)
                        except Exception as e:
                            out.append(("C17:get_sample_index-near:%s:unexpected-exception:%s" % (policy, ktail),
                                        "%s raised %s: %s" % (ctxt, type(e).__name__, e), step))
                            continue
                        if got is not None and (isinstance(got, bool) or not isinstance(got, numbers.Integral)):
                            out.append(("C17:get_sample_index-near:%s:result-type:%s" % (policy, ktail),
                                        "%s returned %r" % (ctxt, got), step))
                            continue
                        if got is not None:
                            got = int(got)
                        if got in accept:
                            continue
                        cls = "none-but-sample-exists" if got is None else (
                            "index-but-no-such-sample" if accept == [None] else "wrong-index")
                        out.append(("C17:get_sample_index-near:%s:%s:%s" % (policy, cls, ktail),
                                    "%s returned %r, expected %s" % (ctxt, got, " or ".join(repr(a) for a in accept)), step))


# ---- grids with periodical axes; spellings of text queries ------------------------------------------------

BC_SETS = ["", "x", "y", "z", "xy", "xz", "yz", "xyz"]
SPELL_VALUES = [-0.25, 0.0, 0.125, 0.25, 0.5, 0.75, 1.0, 1.5, 1.75]
SPELL_LISTS = [[0.25, 0.75, 1.25], [0.0, 0.5, 1.0, 1.5]]
SPELLINGS = ["plain", "leading-dot", "plus", "plus-leading-dot", "trailing-zero", "exponent", "trailing-dot"]


def _check_bc(case, out, stats):
    """the boundary conditions of a grid say how matter diffuses, not how its cells are numbered: coordinates inside
    the grid designate cell z*w*h + y*w + x on reflecting and on periodical axes alike."""
    ns, nsp, nc, space = case["ns"], case["nsp"], case["nc"], case["space"]
    tr, data, qunit = _mk_traj(ns, nsp, nc, space, 0)
    _check_accessors(tr, ns, nsp, nc, space, qunit, case["spform"], case["posform"], out, stats, prefix="bc-",
                     suffix="periodical-%s" % (space[4] or "none"), triple=case.get("triple"),
                     note="grid %dx%dx%d with periodical axes %r: " % (space[1], space[2], space[3], space[4]))


def _spell(v, how):
    """text of the float v in the given spelling, or None when the spelling does not apply to v."""
    r = repr(abs(v))
    sign = "-" if v < 0 else ""
    if how == "plain":
        return repr(v)
    if how == "leading-dot":
        return sign + r[1:] if r.startswith("0.") and v != 0 else None
    if how == "plus":
        return "+" + r if v > 0 else None
    if how == "plus-leading-dot":
        return "+" + r[1:] if r.startswith("0.") and v > 0 else None
    if how == "trailing-zero":
        return repr(v) + "0"
    if how == "exponent":
        return "%e" % v
    if how == "trailing-dot":
        return sign + r[:-1] if r.endswith(".0") else None
    raise ValueError(how)


def _check_spelling(case, out, stats):
    """the same query time written in the decimal spellings Python's float() reads (.5, +.5, 0.50, 5.000000e-01, 1.):
    a spelling the library refuses is counted (the grammar of quantities is C18's), an accepted one must give the
    answer of the time it denotes."""
    times = [F(x) for x in case["times"]]
    tunit, qunit = case["tunit"], case["qunit"]
    n = len(times)
    T = [x * _tscale(tunit) for x in times]
    system = _mk_system(1, ["grid", 1, 1, 1])
    tr = RDTrajectory(UnitArray([0.0] * n, "molecule"), UnitArray([float(x) for x in times], tunit), system)
    only = case.get("only")
    step = 0
    for v in SPELL_VALUES:
        for how in SPELLINGS:
            txt = _spell(v, how)
            if txt is None or float(txt) != v:
                continue
            arg = "%s %s" % (txt, qunit)
            for policy in POLICIES:
                step += 1
                if only is not None and step != only:
                    continue
                accept = _accept_set(policy, T, tunit, v, qunit)
                stats["transitions"] += 1
                stats["evaluations"] += 1
                ctxt = "t=%s %s, get_sample_index(%r, %r)" % ([float(x) for x in times], tunit, arg, policy)
                try:
                    got = tr.get_sample_index(arg, policy)
                except Exception as e:
                    if how == "plain":
                        out.append(("C17:get_sample_index-spelling:%s:unexpected-exception:plain" % policy,
                                    "%s raised %s: %s" % (ctxt, type(e).__name__, e), step))
                    else:
                        stats["spelling_rejected"] += 1
                    continue
                stats["spelling_accepted"] += 1
                if got is not None and not isinstance(got, bool) and isinstance(got, numbers.Integral):
                    got = int(got)
                if got not in accept:
                    out.append(("C17:get_sample_index-spelling:%s:wrong-answer:%s:%s" % (
                        policy, how, "same-unit" if qunit == tunit else "cross-unit"),
                        "%s returned %r, expected %s (the text denotes %r %s)" % (
                            ctxt, got, " or ".join(repr(a) for a in accept), v, qunit), step))

# ---- unknown species -------------------------------------------------------------------------------

def _check_unknown(case, out, stats):
    ns, nsp, nc, space = case["ns"], case["nsp"], case["nc"], case["space"]
    tr, data, qunit = _mk_traj(ns, nsp, nc, space, 0)
    bad = case["bad"]
    sp = {"label": "Nope", "index-high": nsp, "index-negative": -1, "object": Species("Nope", density=1)}[bad]
    acc = case["accessor"]
    f = {"get_trajectory_point": lambda: tr.get_trajectory_point(sp, 0, 0),
         "get_state": lambda: tr.get_state(sp, 0),
         "get_trajectory": lambda: tr.get_trajectory(sp, 0),
         "get_trajectory_merged": lambda: tr.get_trajectory(sp, merge=True)}[acc]
    stats["transitions"] += 1
    stats["evaluations"] += 1
    try:
        got = f()
    except Exception:
        stats["unknown_species_rejected"] += 1
        return
    out.append(("C17:%s:unknown-species-accepted:%s" % (acc, bad),
                "%s with unknown species %r on a %d-species trajectory returned %s instead of raising"
                % (acc, sp if bad != "object" else "Species('Nope')", nsp, got)))


# ---- simulated trajectories ------------------------------------------------------------------------

def _check_simulated(case, out, stats):
    """Euler run of a network without reactions and with D = 0: every sample equals the initial state
    100*species + cell, so species / cell resolution of the accessors is observable on a simulated output."""
    from mc import eng
    from strengths.rdscript import RDScript
    nsp, nc, space, ns = case["nsp"], case["nc"], case["space"], case["ns"]
    net = RDNetwork(species=[Species(LABELS[i], density=0, D=0) for i in range(nsp)], reactions=[])
    state = [100.0 * s + c for s in range(nsp) for c in range(nc)]
    system = RDSystem(net, _mk_space(space), state=state)
    tsam = [0.25 * k for k in range(ns)]
    script = RDScript(system, t_sample=tsam, time_step=0.125, t_max=tsam[-1] + 0.25, rng_seed=1)
    stats["transitions"] += 1
    try:
        tr, _ = eng.simulate("euler", script)
    except Exception as e:
        out.append(("C17:simulate:unexpected-exception:%s" % space[0], "%s: %s" % (type(e).__name__, e)))
        return
    ck = _Checker(out, stats)
    kind = space[0]
    if tr.nsamples() != ns or tr.nspecies() != nsp or tr.ncells() != nc or len(tr.data) != ns * nsp * nc:
        # the sampling contract belongs to C09; without the expected shape nothing can be compared here
        stats["simulated_shape_unexpected"] += 1
        return
    qunit = uq.sys_of(tr.data.units)[2]
    for spform in SPFORMS:
        for posform in (GRID_POSFORMS if kind == "grid" else GRAPH_POSFORMS):
            for s in range(nsp):
                sp = _species_arg(spform, s)
                for k in range(ns):
                    c_ = "simulated %s nsp=%d: get_state(species %d as %s, %d)" % (space, nsp, s, spform, k)
                    ok, got = ck.call("simulated-get_state", kind, c_, lambda: tr.get_state(sp, k))
                    if ok:
                        ck.vector("simulated-get_state", kind, got, [100.0 * s + c for c in range(nc)], qunit, c_)
                    for c in range(nc):
                        pos = _position_arg(posform, c, space)
                        c_ = "simulated %s nsp=%d: get_trajectory_point(species %d as %s, %d, %r)" % (space, nsp, s, spform, k, pos)
                        ok, got = ck.call("simulated-get_trajectory_point", kind, c_, lambda: tr.get_trajectory_point(sp, k, pos))
                        if ok:
                            ck.scalar("simulated-get_trajectory_point", kind, got, 100.0 * s + c, qunit, c_)
                        ok, got = ck.call("simulated-data", kind, c_, lambda: tr.data.get_at(flat_index(k, s, c, nsp, nc)))
                        if ok:
                            ck.scalar("simulated-data", kind, got, 100.0 * s + c, qunit, c_ + " [direct index]")
                for c in range(nc):
                    pos = _position_arg(posform, c, space)
                    c_ = "simulated %s nsp=%d: get_trajectory(species %d as %s, %r)" % (space, nsp, s, spform, pos)
                    ok, got = ck.call("simulated-get_trajectory", kind, c_, lambda: tr.get_trajectory(sp, pos))
                    if ok:
                        ck.vector("simulated-get_trajectory", kind, got, [100.0 * s + c] * ns, qunit, c_)
                c_ = "simulated %s nsp=%d: get_trajectory(species %d as %s, merge=True)" % (space, nsp, s, spform)
                ok, got = ck.call("simulated-get_trajectory_merged", kind, c_, lambda: tr.get_trajectory(sp, merge=True))
                if ok:
                    ck.vector("simulated-get_trajectory_merged", kind, got,
                              [float(sum(100.0 * s + c for c in range(nc)))] * ns, qunit, c_)


# ---- one case --------------------------------------------------------------------------------------

_STAT_KEYS = ("transitions", "evaluations", "near_tie", "near_tie_not_lattice_answer",
              "dup_any_of_equal_times", "none_expected", "exact_ties_closest", "unknown_species_rejected",
              "simulated_shape_unexpected", "history_steps_refuting_a_cache_on_policy_and_number",
              "history_steps_refuting_a_cache_on_number", "modify_steps_reflected_by_direct_indexing",
              "modify_steps_NOT_reflected_by_direct_indexing", "provenance_producer_raised",
              "provenance_save_load_raised", "provenance_unexpected_data_length", "provenance_trajectories_read",
              "carrier_accepted", "carrier_rejected", "carrier_coordinates_do_not_fit",
              "network_edits_read", "network_edit_rejected", "network_edit_not_determined",
              "long_lookups_strictly_inside", "near_lookups_decided_strictly", "spelling_accepted", "spelling_rejected")


def _new_stats():
    return {k: 0 for k in _STAT_KEYS}


def check_case(case, stats=None):
    """One case; returns [(key, what)]."""
    out = []
    if stats is None:
        stats = _new_stats()
    sub = case["sub"]
    try:
        if sub == "accessors":
            ns, nsp, nc, space = case["ns"], case["nsp"], case["nc"], case["space"]
            tr, data, qunit = _mk_traj(ns, nsp, nc, space, case["units"])
            _check_accessors(tr, ns, nsp, nc, space, qunit, case["spform"], case["posform"], out, stats,
                             triple=case.get("triple"))
        elif sub in ("lookup", "lookup-dup"):
            _check_lookup(case, out, stats, only=case.get("only"))
        elif sub == "lookup-history":
            _check_lookup_history(case, out, stats)
        elif sub == "accessor-history":
            _check_accessor_history(case, out, stats)
        elif sub == "accessor-modify":
            _check_accessor_modify(case, out, stats)
        elif sub == "lookup-modify":
            _check_lookup_modify(case, out, stats)
        elif sub == "provenance":
            _check_provenance(case, out, stats)
        elif sub == "boundary-conditions":
            _check_bc(case, out, stats)
        elif sub == "lookup-spelling":
            sp3 = []
            _check_spelling(case, sp3, stats)
            out.extend((k, w) for (k, w, st) in sp3)
        elif sub == "lookup-long":
            _check_lookup_long(case, out, stats)
        elif sub == "lookup-near":
            near = []
            _check_lookup_near(case, near, stats)
            out.extend((k, w) for (k, w, st) in near)
        elif sub == "network-edited":
            _check_network_edited(case, out, stats)
        elif sub == "flag-carrier":
            _check_flag_carrier(case, out, stats)
        elif sub == "index-carrier":
            _check_index_carrier(case, out, stats)
        elif sub == "coord-carrier":
            _check_coord_carrier(case, out, stats)
        elif sub == "unknown":
            _check_unknown(case, out, stats)
        elif sub == "simulated":
            _check_simulated(case, out, stats)
        else:
            raise ValueError(sub)
    except Exception as e:   # construction of the hand-built objects failed: a value was specified
        out.append(("C17:%s:unexpected-exception" % sub, "%s: %s" % (type(e).__name__, e)))
    # de-duplicate by key inside one case (first occurrence = simplest triple)
    seen, res = set(), []
    for key, what in out:
        if key not in seen:
            seen.add(key)
            res.append((key, what))
    return res


# ---- enumeration -----------------------------------------------------------------------------------

def shapes(ncs=(1, 2, 3)):
    return [(ns, nsp, nc) for ns in (1, 2, 3) for nsp in (1, 2, 3) for nc in ncs]


def time_lists():
    """all strictly increasing sequences of length 1..4 over the lattice (98)."""
    out = []
    for n in (1, 2, 3, 4):
        for comb in itertools.combinations(range(len(LATTICE)), n):
            out.append([float(LATTICE[i]) for i in comb])
    return out


def time_lists_dup():
    """non-decreasing lists of length 2..4 with exactly one duplicated time (154)."""
    out = []
    for n in (1, 2, 3):
        for comb in itertools.combinations(range(len(LATTICE)), n):
            for j in range(n):
                l = [float(LATTICE[i]) for i in comb]
                out.append(l[:j + 1] + l[j:])
    return out


def _spaces(tier):
    sp = []
    # thorough adds the first cell counts that have genuinely two- and three-dimensional factorisations
    ncs = (1, 2, 3) if tier != "thorough" else (1, 2, 3, 4, 6, 8)

    def gen_acc():
        for (ns, nsp, nc) in shapes(ncs):
            for space in arrangements(nc):
                for u in range(len(UNIT_VARIANTS)):
                    for spform in SPFORMS:
                        for posform in (GRID_POSFORMS if space[0] == "grid" else GRAPH_POSFORMS):
                            yield {"sub": "accessors", "ns": ns, "nsp": nsp, "nc": nc, "space": space, "units": u,
                                   "spform": spform, "posform": posform}
    n_arr = sum((len(factorisations(nc)) * len(GRID_POSFORMS) + len(GRAPH_POSFORMS)) for nc in ncs)
    sp.append(("accessors: shapes (nsamples, nspecies) in {1,2,3}^2 x ncells in %s x every w*h*d factorisation + graph x 3 unit variants x 3 species forms "
               "x position forms (grid: index/tuple/list/object, graph: index); every (sample,species,cell) triple inside"
               % (list(ncs),),
               gen_acc, 9 * n_arr * len(UNIT_VARIANTS) * len(SPFORMS), 3))

    def gen_unknown():
        for (ns, nsp, nc) in shapes():
            for space in (["grid", nc, 1, 1], ["graph", nc]):
                for bad in BAD_SPECIES:
                    for acc in ACCESSORS_WITH_SPECIES:
                        yield {"sub": "unknown", "ns": ns, "nsp": nsp, "nc": nc, "space": space, "bad": bad,
                               "accessor": acc}
    sp.append(("unknown species: shapes {1,2,3}^3 x {grid,graph} x 4 unknown forms x 4 accessors must raise",
               gen_unknown, 27 * 2 * len(BAD_SPECIES) * len(ACCESSORS_WITH_SPECIES), 60))

    TL = time_lists()
    # (storage unit, query unit, form).  thorough: all 16 ordered unit pairs x both forms.  quick: the 4 same-unit
    # pairs + every unordered cross pair in one direction (each unit is storage unit and query unit of some cross
    # pair), both forms; the duplicated-time lists take the same-unit pairs in both forms + the 4 cyclic cross pairs.
    same = [(u, u) for u in TUNITS]
    cyc = [("s", "ms"), ("ms", "min"), ("min", "h"), ("h", "s")]
    if tier == "thorough":
        upf = [(a, b, f) for a in TUNITS for b in TUNITS for f in QFORMS]
        upf_dup = upf
    else:
        upf = [(a, b, f) for (a, b) in same + cyc + [("min", "s"), ("h", "ms")] for f in QFORMS]
        upf_dup = [(a, b, f) for (a, b) in same for f in QFORMS] + [(a, b, "UnitValue") for (a, b) in cyc]

    def gen_lookup():
        for times in TL:
            for (tunit, qunit, form) in upf:
                yield {"sub": "lookup", "times": times, "tunit": tunit, "qunit": qunit, "form": form}
    sp.append(("lookup: %d strictly increasing time lists (length 1..4 over 7 lattice points) x %d (storage unit, query "
               "unit, UnitValue|str) combinations; 17 queries x 3 policies inside" % (len(TL), len(upf)),
               gen_lookup, len(TL) * len(upf), 40))

    TD = time_lists_dup()

    def gen_dup():
        for times in TD:
            for (tunit, qunit, form) in upf_dup:
                yield {"sub": "lookup-dup", "times": times, "tunit": tunit, "qunit": qunit, "form": form}
    sp.append(("lookup-dup: %d non-decreasing time lists with one duplicated time (length 2..4) x %d (storage unit, query "
               "unit, form) combinations; 17 queries x 3 policies inside" % (len(TD), len(upf_dup)),
               gen_dup, len(TD) * len(upf_dup), 40))

    # ---- long time lists (beyond the small scope)
    ltunits = TUNITS if tier == "thorough" else ["s", "min"]

    def gen_long():
        for n in LONG_NS:                     # simplest first; later sub-spaces keep the workers busy meanwhile
            for kind in LONG_KINDS:
                for tunit in ltunits:
                    yield {"sub": "lookup-long", "n": n, "kind": kind, "tunit": tunit}
    sp.append(("lookup-long: time lists of %s samples x %s x storage units %s; queries = before the first, every sample "
               "time, every midpoint, a point 2^-10 inside each interval from both ends, after the last; as UnitValue in "
               "the storage unit and as str in another unit; 3 policies" % (LONG_NS, LONG_KINDS, ltunits),
               gen_long, len(LONG_NS) * len(LONG_KINDS) * len(ltunits), 1))

    def gen_near():
        for times in NEAR_LISTS:
            for tunit in TUNITS:
                yield {"sub": "lookup-near", "times": times, "tunit": tunit}
    sp.append(("lookup-near: %d time lists x 4 storage units; queries strictly before / after EVERY sample time by a relative "
               "2^-18, 2^-24, 2^-30 (absolute 2^-28, 2^-34 around time 0), as UnitValue and str in the storage unit and as str "
               "in another unit; 3 policies" % len(NEAR_LISTS), gen_near, len(NEAR_LISTS) * 4, 2))

    # ---- histories on one object
    htunits = TUNITS if tier == "thorough" else ["s", "min"]
    nestform = ([(n, f) for n in ("unit-major", "policy-major") for f in QFORMS] if tier == "thorough" else
                [("unit-major", "UnitValue"), ("policy-major", "UnitValue"), ("unit-major", "str")])
    orders = [list(o) for o in itertools.permutations(TUNITS)]

    def gen_horders():
        for lst in HLISTS:
            for tunit in htunits:
                for v in HVALUES:
                    for order in orders:
                        for (nest, form) in nestform:
                            yield {"sub": "lookup-history", "kind": "orders", "list": lst, "tunit": tunit, "v": v,
                                   "order": order, "nest": nest, "form": form}
    sp.append(("lookup-history/orders: ONE object per history; the same number in s, ms, min, h in each of the 24 orders "
               "x 3 policies (12 lookups), x 7 numbers x 2 time lists x storage units %s x %d (nesting, form) variants"
               % (htunits, len(nestform)),
               gen_horders, len(HLISTS) * len(htunits) * len(HVALUES) * 24 * len(nestform), 100))

    def gen_hpairs():
        for lst in HLISTS:
            for tunit in htunits:
                for v in HVALUES:
                    for ua in TUNITS:
                        for ub in TUNITS:
                            if ua != ub:
                                for fa in QFORMS:
                                    for fb in QFORMS:
                                        yield {"sub": "lookup-history", "kind": "pairs", "list": lst, "tunit": tunit,
                                               "v": v, "ua": ua, "ub": ub, "fa": fa, "fb": fb}
    sp.append(("lookup-history/pairs: ONE object; the same number in every ordered pair of different units x "
               "{UnitValue,str}^2, for each policy (6 lookups), x 7 numbers x 2 time lists x storage units %s" % (htunits,),
               gen_hpairs, len(HLISTS) * len(htunits) * len(HVALUES) * 12 * 4, 200))

    def gen_hlong():
        for lst in HLISTS:
            for tunit in htunits:
                for form in QFORMS:
                    for o in HLONG_ORDERS:
                        yield {"sub": "lookup-history", "kind": "long", "list": lst, "tunit": tunit, "form": form, "order": o}
    sp.append(("lookup-history/long: ONE object; all 7 numbers x 4 units x 3 policies in 4 global orders, whole sequence "
               "twice (168 lookups), x 2 forms x 2 time lists x storage units %s" % (htunits,),
               gen_hlong, len(HLISTS) * len(htunits) * len(QFORMS) * len(HLONG_ORDERS), 2))

    hncs = (1, 2, 3) if tier != "thorough" else (1, 2, 3, 4, 6)
    hvariants = (0, 2) if tier != "thorough" else (0, 1, 2)

    def gen_hacc():
        for (ns, nsp, nc) in shapes(hncs):
            for space in arrangements(nc):
                for u in hvariants:
                    yield {"sub": "accessor-history", "ns": ns, "nsp": nsp, "nc": nc, "space": space, "units": u}
    sp.append(("accessor-history: ONE object per (shape, arrangement, unit variant) with ncells in %s, unit variants %s; "
               "every species form x position form x triple through every accessor in increasing order, then all forms "
               "and triples in the opposite order; trajectory unchanged afterwards" % (list(hncs), list(hvariants)),
               gen_hacc, 9 * sum(len(arrangements(nc)) for nc in hncs) * len(hvariants), 4))

    # ---- histories with modifications between the reads
    if tier == "thorough":
        mshapes = [(sh, sp_) for sh in shapes() for sp_ in arrangements(sh[2])]
        mvariants = (0, 2)
    else:
        mshapes = [(sh, sp_) for sh in [(1, 1, 1), (2, 1, 1), (1, 2, 1), (1, 1, 2), (2, 3, 2), (3, 2, 3)]
                   for sp_ in arrangements(sh[2])]
        mvariants = None          # alternate 0 / 2 along the list

    def gen_mod():
        for j, ((ns, nsp, nc), space) in enumerate(mshapes):
            for u in (mvariants if mvariants is not None else ((0, 2)[j % 2],)):
                for kind in DATA_MODS:
                    for pattern in PATTERNS:
                        for first in FIRST_READERS:
                            yield {"sub": "accessor-modify", "ns": ns, "nsp": nsp, "nc": nc, "space": space, "units": u,
                                   "kind": kind, "pattern": pattern, "first": first}
                for first in FIRST_READERS:
                    yield {"sub": "accessor-modify", "ns": ns, "nsp": nsp, "nc": nc, "space": space, "units": u,
                           "kind": "deepcopy", "first": first}
    nvar = len(mvariants) if mvariants is not None else 1
    sp.append(("accessor-modify: ONE object; %d (shape, arrangement) x %d unit variant(s) x [5 ways of changing the data "
               "(value setter, set_value, in-place writes, set_at in another unit, units relabel) x {read-all, modify, "
               "read-all | modify, read-all, modify, read-all} + a deepcopy history] x 6 first readers; reference = direct "
               "indexing of the current data" % (len(mshapes), nvar),
               gen_mod, len(mshapes) * nvar * (len(DATA_MODS) * len(PATTERNS) + 1) * len(FIRST_READERS), 6))

    def gen_tmod():
        for n in (1, 2, 3, 4):
            for tunit in TUNITS:
                for kind in T_MODS:
                    for pattern in PATTERNS:
                        yield {"sub": "lookup-modify", "n": n, "tunit": tunit, "kind": kind, "pattern": pattern}
    sp.append(("lookup-modify: ONE object; nsamples 1..4 x 4 storage units x 3 ways of changing t (value setter, set_at in "
               "another unit, units relabel) x 2 patterns; lookups on every current time / midpoint / outside, 2 units, "
               "3 policies after each step", gen_tmod, 4 * 4 * len(T_MODS) * len(PATTERNS), 4))

    # ---- trajectory provenance
    if tier == "thorough":
        pengines, pgrids, pfirst = ["euler", "gillespie", "tauleap"], [[2, 2, 1], [3, 2, 1], [2, 1, 2]], FIRST_READERS
    else:
        pengines, pgrids, pfirst = ["euler", "gillespie"], [[2, 2, 1], [3, 2, 1]], ["get_state", "get_trajectory_point"]

    def gen_prov():
        for grid in pgrids:
            for producer in PRODUCERS:
                for engine in pengines:
                    for post in POSTS:
                        for first in pfirst:
                            yield {"sub": "provenance", "producer": producer, "engine": engine, "grid": grid,
                                   "post": post, "first": first}
            for producer in CTOR_MISMATCH:
                for post in POSTS:
                    for first in pfirst:
                        yield {"sub": "provenance", "producer": producer, "engine": None, "grid": grid, "post": post,
                               "first": first}
    sp.append(("provenance: trajectories from the real producers - simulate_script plain / cgmap identity / lumping / "
               "lumping with a dropped cell x engines %s, and RDTrajectory built with system != script.system (graph, "
               "transposed grid) - x grids %s x {direct, save+load (data separate / inline), deepcopy} x %d first readers; "
               "every accessor against direct indexing on the caller's grid" % (pengines, pgrids, len(pfirst)),
               gen_prov, len(pgrids) * (len(PRODUCERS) * len(pengines) + len(CTOR_MISMATCH)) * len(POSTS) * len(pfirst), 3))

    # ---- grids with periodical axes
    bncs = (2, 3, 4, 6) if tier != "thorough" else (2, 3, 4, 6, 8, 12)
    bgrids = [[w, h, d] for nc in bncs for (w, h, d) in factorisations(nc)]
    if tier != "thorough":
        bgrids.append([2, 2, 3])

    def gen_bc():
        for (w, h, d) in bgrids:
            for bc in BC_SETS:
                for posform in GRID_POSFORMS:
                    yield {"sub": "boundary-conditions", "ns": 2, "nsp": 2, "nc": w * h * d, "space": ["grid", w, h, d, bc],
                           "spform": "index", "posform": posform}
    sp.append(("boundary-conditions: %d grids (every w x h x d factorisation of %s cells%s) x all 8 sets of periodical axes x 4 "
               "position forms, 2 samples x 2 species; every triple through every accessor"
               % (len(bgrids), list(bncs), "" if tier == "thorough" else " + 2x2x3"),
               gen_bc, len(bgrids) * len(BC_SETS) * len(GRID_POSFORMS), 16))

    def gen_spell():
        for times in SPELL_LISTS:
            for tunit in TUNITS:
                for qunit in (tunit, OTHER_TUNIT[tunit]):
                    yield {"sub": "lookup-spelling", "times": times, "tunit": tunit, "qunit": qunit}
    sp.append(("lookup-spelling: 2 time lists x 4 storage units x {same, another} query unit; 9 query values written as %s "
               "(where float() reads the text back as the value); 3 policies" % SPELLINGS,
               gen_spell, len(SPELL_LISTS) * 4 * 2, 2))

    # ---- network edited through its setters
    if tier == "thorough":
        nshapes = [(sh, sp_) for sh in shapes() for sp_ in arrangements(sh[2])]
    else:
        nshapes = [(sh, sp_) for sh in [(1, 1, 1), (2, 2, 2), (2, 3, 2), (3, 3, 3)] for sp_ in (["grid", sh[2], 1, 1], ["graph", sh[2]])]

    def gen_netedit():
        for ((ns, nsp, nc), space) in nshapes:
            for edit in _net_edits(nsp):
                for when in ("pre", "post"):
                    if when == "post" and edit[0].startswith("extend"):
                        continue           # a longer species list no longer matches the data: not determined
                    yield {"sub": "network-edited", "ns": ns, "nsp": nsp, "nc": nc, "space": space, "edit": edit, "when": when}
    n_net = sum(2 * len(_net_edits(sh[1])) - (2 if sh[1] >= 2 else 0) for (sh, sp_) in nshapes)
    sp.append(("network-edited: %d (shape, arrangement) x [every non-identity permutation of the species list, a species "
               "added at the back / front, reactions setter, environments setter] assigned through the RDNetwork setters "
               "before the system and trajectory are built, and (permutations, reactions, environments) on "
               "trajectory.system.network afterwards; label / index / object forms against direct indexing" % len(nshapes),
               gen_netedit, n_net, 12))

    # ---- argument carriers
    if tier == "thorough":
        cshapes = [(sh, sp_) for sh in shapes() if sh[2] >= 2 for sp_ in arrangements(sh[2])]
    else:
        cshapes = [(sh, sp_) for sh in [(2, 2, 2), (3, 2, 3)] for sp_ in arrangements(sh[2])]

    def gen_flag():
        for ((ns, nsp, nc), space) in cshapes:
            for flag in FLAG_CARRIERS:
                for style in FLAG_STYLES:
                    yield {"sub": "flag-carrier", "ns": ns, "nsp": nsp, "nc": nc, "space": space, "flag": flag, "style": style}
    sp.append(("flag-carrier: merge flag of get_trajectory carried by %s x {keyword, positional} x %d (shape, arrangement) "
               "with ncells >= 2; every species (label, index) x cell; true -> sum over cells, false -> the cell's trajectory"
               % (FLAG_CARRIERS, len(cshapes)), gen_flag, len(cshapes) * len(FLAG_CARRIERS) * len(FLAG_STYLES), 24))

    def gen_index():
        for ((ns, nsp, nc), space) in cshapes:
            for dt in INDEX_DTYPES:
                for role in INDEX_ROLES:
                    yield {"sub": "index-carrier", "ns": ns, "nsp": nsp, "nc": nc, "space": space, "dtype": dt, "role": role}
    sp.append(("index-carrier: species index / sample index / linear cell index given as numpy %s x %d (shape, arrangement); "
               "every triple through every accessor taking that argument" % (INDEX_DTYPES, len(cshapes)),
               gen_index, len(cshapes) * len(INDEX_DTYPES) * len(INDEX_ROLES), 12))

    def gen_coord():
        for grid in COORD_GRIDS:
            for cont in COORD_CONTAINERS:
                for dt in COORD_DTYPES:
                    yield {"sub": "coord-carrier", "grid": grid, "container": cont, "dtype": dt}
    sp.append(("coord-carrier: grids %s (2 samples x 2 species, distinct value per entry); (x,y,z) of EVERY cell carried by "
               "%s of numpy %s; get_trajectory_point / get_trajectory against direct indexing"
               % (COORD_GRIDS, COORD_CONTAINERS, COORD_DTYPES),
               gen_coord, len(COORD_GRIDS) * len(COORD_CONTAINERS) * len(COORD_DTYPES), 1))

    def gen_sim():
        for nsp in (1, 2, 3):
            for nc in (1, 2, 3):
                for space in arrangements(nc):
                    yield {"sub": "simulated", "ns": 3, "nsp": nsp, "nc": nc, "space": space}
    sp.append(("simulated: Euler runs (no reaction, D=0) nspecies {1,2,3} x ncells {1,2,3} x every arrangement, 3 samples; "
               "all species/position forms inside", gen_sim, 3 * sum(len(arrangements(nc)) for nc in (1, 2, 3)), 5))
    return sp


def _nontrivial(case):
    sub = case["sub"]
    if sub == "accessors":
        return case["ns"] * case["nsp"] * case["nc"] > 1
    if sub in ("lookup", "lookup-dup"):
        return len(case["times"]) > 1 or case["tunit"] != case["qunit"]
    if sub in ("lookup-long", "lookup-near", "lookup-spelling"):
        return True
    if sub == "boundary-conditions":
        return case["space"][4] != ""
    if sub == "lookup-history":
        return case.get("v", 1.0) != 0.0          # the number 0 is the same time in every unit
    if sub in ("accessor-history", "accessor-modify"):
        return case["ns"] * case["nsp"] * case["nc"] > 1
    if sub == "lookup-modify":
        return case["n"] > 1
    if sub == "provenance":
        return case["producer"] != "plain"
    if sub == "simulated":
        return case["nsp"] * case["nc"] > 1
    return True


_SPACES = None


def _work(job):
    si_, lo, hi = job
    name, gen, size, _chunk = _SPACES[si_]
    acc = core.Acc()
    stats = _new_stats()
    nt = 0
    for case in itertools.islice(gen(), lo, hi):
        res = check_case(case, stats)
        acc.add(states=1, traces=1)
        if _nontrivial(case):
            nt += 1
        for key, what in res:
            vcase = dict(case)
            acc.violation(key, what, vcase)
        if lo == 0 and acc.states == 2:
            acc.sample(case)
        if case["sub"] == "accessors":
            if case["units"] != 0:
                acc.count("accessor_cases_with_non_default_data_units")
            if case["posform"] != "index":
                acc.count("accessor_cases_with_coordinate_positions")
            if case["space"][0] == "graph":
                acc.count("accessor_cases_on_graphs")
    acc.add(transitions=stats["transitions"], evaluations=stats["evaluations"], nontrivial=nt)
    for k in _STAT_KEYS[2:]:
        if stats[k]:
            acc.count("lookup_" + k if k in ("near_tie", "near_tie_not_lattice_answer", "none_expected",
                                             "exact_ties_closest", "dup_any_of_equal_times") else k, stats[k])

    return acc.pack()


def _minimise(ctx):
    """replace the case of the first violation of each key by the single triple / query that fails."""
    first = {}
    for v in ctx.violations:
        if v.key in first:
            continue
        first[v.key] = v
        case = v.case
        try:
            if case.get("sub") == "accessors" and "triple" not in case:
                done = False
                for k in range(case["ns"]):
                    for s in range(case["nsp"]):
                        for c in range(case["nc"]):
                            c2 = dict(case)
                            c2["triple"] = [k, s, c]
                            hit = [w for (kk, w) in check_case(c2) if kk == v.key]
                            if hit:
                                v.case, v.what, done = c2, hit[0], True
                                break
                        if done:
                            break
                    if done:
                        break
            elif case.get("sub") == "lookup-history" and "upto" not in case:
                for n in range(len(_history_steps(case))):
                    c2 = dict(case)
                    c2["upto"] = n
                    hit = [w for (kk, w) in check_case(c2) if kk == v.key]
                    if hit:
                        v.case, v.what = c2, hit[0]
                        break
            elif case.get("sub") in ("accessor-modify", "lookup-modify") and "upto" not in case and "pattern" in case:
                for n in range(len(case["pattern"].split(","))):
                    c2 = dict(case)
                    c2["upto"] = n
                    hit = [w for (kk, w) in check_case(c2) if kk == v.key]
                    if hit:
                        v.case, v.what = c2, hit[0]
                        break
            elif case.get("sub") == "accessor-history" and "pass" not in case:
                c2 = dict(case)
                c2["pass"] = 0
                hit = [w for (kk, w) in check_case(c2) if kk == v.key]
                if hit:
                    v.case, v.what = c2, hit[0]
            elif case.get("sub") == "boundary-conditions" and "triple" not in case:
                done = False
                for k in range(case["ns"]):
                    for s_ in range(case["nsp"]):
                        for c in range(case["nc"]):
                            c2 = dict(case)
                            c2["triple"] = [k, s_, c]
                            hit = [w for (kk, w) in check_case(c2) if kk == v.key]
                            if hit:
                                v.case, v.what, done = c2, hit[0], True
                                break
                        if done:
                            break
                    if done:
                        break
            elif case.get("sub") == "lookup-spelling" and "only" not in case:
                for st in range(1, len(SPELL_VALUES) * len(SPELLINGS) * 3 + 1):
                    c2 = dict(case)
                    c2["only"] = st
                    hit = [w for (kk, w) in check_case(c2) if kk == v.key]
                    if hit:
                        v.case, v.what = c2, hit[0]
                        break
            elif case.get("sub") == "lookup-near" and "only" not in case:
                c0 = dict(case)
                nsteps = len(case["times"]) * 3 * 2 * 3 * 3
                for st in range(1, nsteps + 1):
                    c2 = dict(c0)
                    c2["only"] = st
                    hit = [w for (kk, w) in check_case(c2) if kk == v.key]
                    if hit:
                        v.case, v.what = c2, hit[0]
                        break
            elif case.get("sub") == "lookup-long" and "only" not in case:
                done = False
                for qi in range(len(_long_queries(_long_times(case["n"], case["kind"])))):
                    for ui in (0, 1):
                        for p_ in POLICIES:
                            c2 = dict(case)
                            c2["only"] = [qi, ui, p_]
                            hit = [w for (kk, w) in check_case(c2) if kk == v.key]
                            if hit:
                                v.case, v.what, done = c2, hit[0], True
                                break
                        if done:
                            break
                    if done:
                        break
            elif case.get("sub") in ("lookup", "lookup-dup") and "only" not in case:
                done = False
                for qi in range(len(QUERIES)):
                    for p in POLICIES:
                        c2 = dict(case)
                        c2["only"] = [qi, p]
                        hit = [w for (kk, w) in check_case(c2) if kk == v.key]
                        if hit:
                            v.case, v.what, done = c2, hit[0], True
                            break
                    if done:
                        break
        except Exception:
            pass


def run(ctx):
    global _SPACES
    _SPACES = _spaces(ctx.tier)
    jobs = []
    for i, (name, gen, size, chunk) in enumerate(_SPACES):
        for lo, hi in pool.chunks(size, chunk):
            jobs.append((i, lo, hi))
    res = pool.pmap(_work, jobs, timeout=300)
    per = {}
    for job, r in zip(jobs, res):
        if isinstance(r, pool.Crash):
            ctx.violation("C17:checker:worker-%s" % r.kind, r.detail, {"job": job})
            continue
        core.merge(ctx, r)
        per[job[0]] = per.get(job[0], 0) + r["n"][0]
    for i, (name, gen, size, chunk) in enumerate(_SPACES):
        ctx.subspace(name, size, per.get(i, 0), exhaustive=(per.get(i, 0) == size))
    _minimise(ctx)
    ctx.note("lattice", {"sample_times": [float(x) for x in LATTICE], "queries": [float(x) for x in QUERIES],
                         "time_units": TUNITS, "unit_variants": [list(map(str, v)) for v in UNIT_VARIANTS]})
    ctx.rule("every case of each sub-space is enumerated in fixed order on real RDTrajectory objects; inside an accessor "
             "case every (sample, species, cell) triple is read through every accessor; inside a lookup case all 17 "
             "queries x 3 policies are evaluated; a history case issues its whole call sequence on ONE trajectory object and "
             "every answer of the sequence is compared with the oracle; an accessor case is non-trivial when the flat array has more than one "
             "entry, a lookup case when it has more than one sample or the query unit differs from the storage unit; "
             "cases are distinct tuples of the product")
    ctx.assume("cell index of grid coordinates i = z*w*h + y*w + x (documentation/indexing.rst); exact SI scales of "
               "mc/ref/si.py; a query given in the storage unit, or equal to 0, needs no rounding; for any other query "
               "the unit conversion may round, so a query whose exact value lies within 1e-9 (relative) of a decision "
               "boundary accepts the answers of both sides (counted as lookup_near_tie); repr(float) is parsed back to "
               "the same float")


def replay(case):
    return check_case(case)
