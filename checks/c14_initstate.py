"""C14 — initial-state processing yields a valid molecular state with the right totals.

E1: all assignments of a dyadic value alphabet to small (species x cells) states x seed window x processing
modes x engines x {grid, graph}; only set-up + the t=0 record are executed (supervised: a set-up that does
not return is a violation).  Poisson mode: the probe build logs every (mean, result) of
std::poisson_distribution, so "entry e was drawn with mean amount(e)" is checked per entry.
"""
import itertools
from collections import Counter
from fractions import Fraction as F
import math

from mc import core, pool, models, eng
from mc import lifecycle as lc

core.setup_paths()

ALPHA = [0.0, 0.25, 0.5, 1.0, 1.75, 2.0, 99.5, 100.0, 150.25, 1000.0]
_PROBE = {}


def probe():
    import os
    p = _PROBE.get(os.getpid())
    if p is None:
        _PROBE.clear()
        try:
            p = eng.Probe()
            if not p.present:
                p = False
        except Exception:
            p = False
        _PROBE[os.getpid()] = p
    return p


def space_for(gtype, nc):
    if gtype == "grid":
        return {"type": "grid", "w": nc, "h": 1, "d": 1, "vol": 1.0}
    return {"type": "graph", "nodes": [{"vol": 1.0 + i, "env": 0} for i in range(nc)],
            "edges": [[i, i + 1, 1.0, 1.0] for i in range(nc - 1)]}


def mk_script(case):
    ns, nc = case["shape"]
    spec = {"species": [{"label": "ABC"[s], "D": 0.0} for s in range(ns)], "reactions": [], "envs": [""],
            "space": space_for(case["gtype"], nc), "state": case["state"]}
    return models.build_script({"system": spec, "t_sample": [0], "time_step": 0.25, "t_max": 0.0,
                                "policy": "on_t_sample", "seed": case["seed"], "isp": case["isp"]})


def t0_record(case, use_probe):
    script = mk_script(case)
    if case.get("route") == "cgmap":
        # the documented coarse-graining route with the identity index map: same system, same processing modes
        from strengths import simulate_script
        ns, nc = case["shape"]
        lc.announce("simulate_script cgmap=identity %s isp=%s seed=%d state=%r" % (case["engine"], case["isp"], case["seed"], case["state"]))
        out = simulate_script(script, eng.make_engine(case["engine"]), cgmap=list(range(nc)))
        t, d = models.traj_arrays(out)
        return t, d, None, None, False
    pr = probe() if use_probe else False
    if pr:
        pr.clear()
        e = pr.engine(case["engine"])
    else:
        e = eng.make_engine(case["engine"])
    lc.announce("setup %s %s isp=%s seed=%d state=%r" % (case["engine"], case["gtype"], case["isp"], case["seed"], case["state"]))
    e.setup(script)
    plog = pr.plog() if pr else None
    nlog = pr.nlog() if pr else None
    out = e.get_output()
    e.finalize()
    t, d = models.traj_arrays(out)
    return t, d, plog, nlog, bool(pr)


def check_case(case):
    out = []
    ns, nc = case["shape"]
    x = case["state"]
    isp, engine = case["isp"], case["engine"]
    stochastic = engine != "euler"
    mode = isp
    if isp == "auto":
        mode = "redist" if stochastic else "none"
    try:
        if case.get("window"):
            return check_window(case, mode)
        t, d, plog, nlog, probed = t0_record(case, use_probe=(mode == "Poisson"))
    except Exception as e:
        return [("C14:%s:unexpected-exception" % mode, "%s: %s" % (type(e).__name__, e))]
    if len(d) < 1 or t[0] != 0.0:
        return [("C14:%s:no-t0-record" % mode, "times %r" % (t,))]
    y = d[0]
    tag = "%s:%s" % (mode, engine)
    if case.get("route") == "cgmap":
        tag += ":cgmap"
    if mode == "none":
        if y != x:
            out.append(("C14:none:%s:not-passed-through" % tag.split(":", 1)[1], "state %r recorded as %r" % (x, y)))
        return out
    # stochastic modes: non-negative integers, zero stays zero
    if any(v < 0 or v != math.floor(v) for v in y):
        out.append(("C14:%s:not-nonnegative-integers" % tag, "state %r -> %r" % (x, y)))
        return out
    for q in range(len(x)):
        if x[q] == 0 and y[q] != 0:
            s, c = divmod(q, nc)
            out.append(("C14:%s:molecule-in-empty-cell" % tag, "state %r -> %r: species %d cell %d had amount 0" % (x, y, s, c)))
            return out
    if mode == "redist":
        for s in range(ns):
            tot = sum(F(v) for v in x[s * nc:(s + 1) * nc])
            exp = tot.numerator // tot.denominator
            got = sum(y[s * nc:(s + 1) * nc])
            if got != exp:
                out.append(("C14:%s:total" % tag, "state %r -> %r: species %d total %s, floor %d, got %d" % (x, y, s, float(tot), exp, got)))
                return out
    if mode == "Poisson" and probed:
        have = Counter((m, r) for m, r in plog)
        if nlog:
            for m, sd, r in nlog:
                have[(m, max(0.0, math.floor(r)))] += 1
        need = Counter((x[q], y[q]) for q in range(len(x)) if x[q] > 0)
        missing = need - have
        if missing:
            (m, r), _ = sorted(missing.items())[0]
            out.append(("C14:Poisson:%s:entry-not-drawn-with-its-own-mean" % engine,
                        "state %r -> %r: an entry with amount %g holds %g molecules but no Poisson draw with mean %g gave %g; "
                        "draws (mean, result): %r" % (x, y, m, r, m, r, sorted(have)[:12])))
            return out
    # reproducible for a given seed
    if case.get("repeat"):
        try:
            t2, d2, _, _, _ = t0_record(case, use_probe=False)
            if mode != "Poisson" or not probed:
                if d2[0] != y:
                    out.append(("C14:%s:not-reproducible" % tag, "seed %d: %r then %r" % (case["seed"], y, d2[0])))
            else:
                # the probe build delegates to the same generator: plain build must give the same draw
                if d2[0] != y:
                    out.append(("C14:%s:not-reproducible" % tag, "seed %d: probe build %r, plain build %r" % (case["seed"], y, d2[0])))
        except Exception as e:
            out.append(("C14:%s:unexpected-exception" % mode, "%s: %s" % (type(e).__name__, e)))
    return out


def check_window(case, mode):
    """Poisson mode, 'every entry is drawn independently': one state whose entries share a few means, set up once per
    seed of a window.  Two entries with the same mean that hold the same count for EVERY seed of the window are not
    independent draws (for mean m the chance of one coincidence is sum_k p_k^2 < 0.3 for m >= 1.75; 16 coincidences in
    a row: < 1e-8 per pair, and the window is fixed, so the verdict is the same on every run)."""
    x = case["state"]
    ns, nc = case["shape"]
    ys = []
    for sd in case["window"]:
        c = dict(case, seed=sd)
        c.pop("window")
        t, d, _, _, _ = t0_record(c, use_probe=False)
        ys.append(d[0])
    out = []
    for a in range(len(x)):
        for b in range(a + 1, len(x)):
            if x[a] == x[b] and x[a] >= 1.75 and all(y[a] == y[b] for y in ys):
                sa, ca = divmod(a, nc)
                sb, cb = divmod(b, nc)
                rel = "same-cell-other-species" if ca == cb else ("same-species-other-cell" if sa == sb else "other")
                out.append(("C14:Poisson:%s:entries-not-independent:%s" % (case["engine"], rel),
                            "state %r: entries (species %d, cell %d) and (species %d, cell %d) have the same mean %g and hold the "
                            "same count for every seed in %r: %r" % (x, sa, ca, sb, cb, x[a], case["window"], [(y[a], y[b]) for y in ys])))
                return out
    return out


def states_for(tier, ns, nc):
    n = ns * nc
    if n <= 2 or (n == 3 and tier == "thorough"):
        al = ALPHA
    elif n == 3:
        al = [0.0, 0.25, 0.5, 1.0, 1.75, 100.0, 1000.0]
    elif n == 4:
        al = [0.0, 0.25, 0.5, 1.0, 1.75, 2.0, 99.5, 100.0] if tier == "thorough" else [0.0, 0.25, 0.5, 1.0, 1.75, 100.0]
    else:
        al = [0.0, 0.25, 1.0, 1.75] if tier == "thorough" else [0.0, 0.5, 1.75]
    out = [list(c) for c in itertools.product(al, repeat=n)]
    if n > 4:
        base = [0.25, 0.0, 0.5, 1.75, 0.0, 1.0][:n]
        for big in (99.5, 100.0, 150.25, 1000.0):
            for q in range(n):
                st = list(base)
                st[q] = big
                out.append(st)
    return out


def gen_cases(tier, seed0):
    seeds = list(range(1000 * seed0, 1000 * seed0 + (2 if tier == "quick" else 4)))
    if 0 not in seeds:
        seeds.append(0)          # the smallest valid seed is always part of the window
    combos = [("tauleap", "auto"), ("gillespie", "redist"), ("gillespie", "Poisson"), ("tauleap", "Poisson"),
              ("euler", "auto"), ("euler", "none"), ("gillespie", "none"), ("euler", "redist"), ("euler", "Poisson")]
    k = 0
    for (ns, nc) in ((1, 1), (1, 3), (2, 2), (2, 3), (3, 2)):
        for sti, st in enumerate(states_for(tier, ns, nc)):
            for gtype in (("grid", "graph") if tier == "thorough" else (("grid", "graph")[sti % 2],)):
                for ci, (engine, isp) in enumerate(combos):
                    if tier == "quick" and ns * nc >= 4 and (sti + ci) % 2:
                        continue     # quick tier: every state of the larger shapes sees every second combination (alternating)
                    if isp == "none" and engine != "euler" and any(v != math.floor(v) for v in st):
                        continue     # not a molecular state: 'none' on a stochastic engine is only meaningful for integers
                    for sd in (seeds if not (engine == "euler" and isp in ("auto", "none")) else seeds[:1]):
                        k += 1
                        yield {"shape": [ns, nc], "state": st, "gtype": gtype, "engine": engine, "isp": isp, "seed": sd,
                               "repeat": (k % 4 == 0) or (ns * nc <= 3 and isp != "none")}
    # the coarse-graining route (simulate_script with the identity index map) must process the state the same way
    cg_states = {(1, 3): [[0.5, 0.0, 1.75], [2.0, 99.5, 0.25], [3.0, 0.0, 4.0]],
                 (2, 2): [[0.5, 1.75, 0.0, 100.0], [1.0, 2.0, 3.0, 0.0], [0.25, 0.25, 0.25, 0.25]]}
    for (ns, nc), sts in cg_states.items():
        for st in sts:
            for engine, isp in combos + [("tauleap", "none"), ("tauleap", "redist")]:
                if isp == "none" and engine != "euler" and any(v != math.floor(v) for v in st):
                    continue
                for sd in seeds:
                    yield {"shape": [ns, nc], "state": st, "gtype": "grid", "engine": engine, "isp": isp, "seed": sd,
                           "route": "cgmap", "repeat": False}
    # independence of the Poisson draws: entries with equal means over a fixed window of 16 seeds
    window = list(range(16))
    for (ns, nc), st in (((2, 2), [2.0, 2.0, 2.0, 2.0]), ((2, 3), [1.75, 100.0, 2.0, 1.75, 100.0, 2.0]),
                         ((3, 2), [150.25, 2.0, 150.25, 2.0, 150.25, 2.0]), ((1, 3), [2.0, 2.0, 2.0])):
        for gtype in ("grid", "graph"):
            for engine in ("gillespie", "tauleap", "euler"):
                yield {"shape": [ns, nc], "state": st, "gtype": gtype, "engine": engine, "isp": "Poisson", "seed": 0,
                       "window": window, "repeat": False}


_CASES = None


def _work(job):
    lo, hi = job
    acc = core.Acc()
    for case in _CASES[lo:hi]:
        res = check_case(case)
        tot = sum(case["state"])
        acc.add(states=1, transitions=2 if case.get("repeat") else 1, traces=1, evaluations=1,
                nontrivial=1 if tot > 0 else 0)
        acc.count("cases:%s" % case["isp"])
        if 0 < tot < 1:
            acc.count("states_with_total_below_one_molecule")
        for key, what in res:
            acc.violation(key, what, case)
    acc.count("probe_blind", 0 if probe() else 1)
    if lo == 0:
        acc.sample(_CASES[min(len(_CASES) - 1, 7)])
    return acc.pack()


def run(ctx):
    global _CASES
    _CASES = list(gen_cases(ctx.tier, ctx.seed))
    eng.so_path("plain")
    so, err = __import__("mc.build", fromlist=["x"]).try_build("probe")
    ctx.note("probe", "on" if so else "blind: " + (err or "")[-300:])
    done = 0
    for job, r in pool.pmap_split(_work, len(_CASES), 400, timeout=60, single_timeout=8, max_failures=16):
        if isinstance(r, pool.Crash) and r.kind == "skipped":
            ctx.exhaustive = False
            if "re-run-of-failed-chunks-capped" not in ctx.caps:
                ctx.caps.append("re-run-of-failed-chunks-capped")
            continue
        if isinstance(r, pool.Crash):
            c = _CASES[job[0]]
            mode = c["isp"] if c["isp"] != "auto" else ("redist" if c["engine"] != "euler" else "none")
            ctx.violation("C14:%s:%s:%s" % (mode, c["engine"], "hang-in-setup" if r.kind == "hang" else r.kind), r.detail[-1500:], c)
            done += 1
            continue
        core.merge(ctx, r)
        done += job[1] - job[0]
    ctx.subspace("all assignments of the dyadic alphabet {0,1/4,1/2,1,7/4,2,99.5,100,150.25,1000} (<= 3 entries; 8 resp. 6 values for 4 "
                 "entries, 4 resp. 3 values for 6 entries, plus every placement of one large value) to (species,cells) in {(1,1),(1,3),(2,2),(2,3),(3,2)} x "
                 "{grid,graph} x 9 (engine, processing mode) combinations x seed window; + 6 states x 11 combinations through "
                 "simulate_script(cgmap=identity); + 4 equal-mean states x {grid,graph} x 3 engines x 16-seed window (independence)", len(_CASES), done,
                 exhaustive=(done == len(_CASES)))
    ctx.rule("one case per (shape, state, space type, engine, mode, seed); non-trivial = state not identically zero; "
             "set-up runs in a supervised worker (60 s limit per chunk, single-case re-run on a hang)")
    ctx.assume("dyadic amounts make floor(total) exact; std::poisson_distribution / normal_distribution themselves are "
               "trusted, the check pins their parameters (probe log); seed window [1000*VERIF_SEED, +2 quick / +4 thorough) plus seed 0")


def replay(case):
    return check_case(case)
