"""C14 — initial-state processing yields a valid molecular state with the right totals.

E1: all assignments of a dyadic value alphabet to small (species x cells) states x seed window x processing
modes x engines x {grid, graph}; only set-up + the t=0 record are executed (supervised: a set-up that does
not return is a violation).  Poisson mode: the probe build logs every (mean, result) of
std::poisson_distribution, so "entry e was drawn with mean amount(e)" is checked per entry.

E2 (units): the same oracles with script / system units systems whose quantity unit is molecule, mol or nmol: the
state is handed over in the system's units such that the amounts in molecules are the dyadic alphabet; the t = 0
record (expressed in the script's units) is converted back to molecules with the exact scales of mc/ref/si.py.
E3 (script-object history): the mode is set through the public setter in sequences of valid and rejected
assignments, then the SAME script object is set up: it must behave as with the last accepted mode.
"""
import itertools
from collections import Counter
from fractions import Fraction as F
import math

from mc import core, pool, models, eng
from mc import lifecycle as lc
from mc.ref import si

core.setup_paths()

ALPHA = [0.0, 0.25, 0.5, 1.0, 1.75, 2.0, 99.5, 100.0, 150.25, 1000.0]
_PROBE = {}


def probe():
    import os
    p = _PROBE.get(os.getpid())
    if p is None:
        _PROBE.clear()
        try:
            p = eng.Probe()
            if not p.present:
                p = False
        except Exception:
            p = False
        _PROBE[os.getpid()] = p
    return p


def space_for(gtype, nc):
    if gtype == "grid":
        return {"type": "grid", "w": nc, "h": 1, "d": 1, "vol": 1.0}
    return {"type": "graph", "nodes": [{"vol": 1.0 + i, "env": 0} for i in range(nc)],
            "edges": [[i, i + 1, 1.0, 1.0] for i in range(nc - 1)]}


VALID_MODES = ["auto", "none", "Poisson", "redist"]          # the four modes of the statement
INVALID = ["floor", "poisson", "Redist", "", None]              # strings/values that are not one of the four modes
TOL = 1e-9                                                       # relative tolerance after an inexact units conversion


def inexact(case):
    """True when the state crosses a quantity-unit conversion that is not the identity (mol/nmol <-> molecule)."""
    u = case.get("units")
    return bool(u) and (u["script"][2] != "molecule" or u["system"][2] != "molecule")


def handed_state(case):
    """The values handed to RDSystem: case['state'] is in MOLECULES; the system takes them in its own quantity unit."""
    u = case.get("units")
    if not u:
        return case["state"]
    return [si.to_float(F(v) / si.QUANTITY[u["system"][2]]) for v in case["state"]]


def mk_script(case):
    ns, nc = case["shape"]
    spec = {"species": [{"label": "ABC"[s], "D": 0.0} for s in range(ns)], "reactions": [], "envs": [""],
            "space": space_for(case["gtype"], nc), "state": handed_state(case)}
    sc = {"system": spec, "t_sample": [0], "time_step": 0.25, "t_max": 0.0,
          "policy": "on_t_sample", "seed": case["seed"], "isp": case["isp"]}
    u = case.get("units")
    if u:
        spec["units"] = list(u["system"])
        sc["units"] = list(u["script"])
    return models.build_script(sc)


def apply_history(script, history):
    """Assign every value of the history through the public setter.  Returns (last accepted value or None,
    [values of INVALID that were accepted without an exception])."""
    last, accepted_invalid = None, []
    for v in history:
        try:
            script.init_state_processing = v
        except Exception:
            continue                 # rejected: the script must be unchanged
        last = v
        if v not in VALID_MODES:
            accepted_invalid.append(v)
    return last, accepted_invalid


def t0_record(case, use_probe, script=None):
    extra = (" units=%r" % (case["units"],) if case.get("units") else "") + (" setter history=%r" % (case["history"],) if script is not None else "")
    if script is None:
        script = mk_script(case)
    if case.get("route") == "cgmap":
        # the documented coarse-graining route with the identity index map: same system, same processing modes
        from strengths import simulate_script
        ns, nc = case["shape"]
        lc.announce("simulate_script cgmap=identity %s isp=%s seed=%d state=%r%s" % (case["engine"], case["isp"], case["seed"], case["state"], extra))
        out = simulate_script(script, eng.make_engine(case["engine"]), cgmap=list(range(nc)))
        t, d = models.traj_arrays(out)
        return t, d, None, None, False
    pr = probe() if use_probe else False
    if pr:
        pr.clear()
        e = pr.engine(case["engine"])
    else:
        e = eng.make_engine(case["engine"])
    lc.announce("setup %s %s isp=%s seed=%d state=%r%s" % (case["engine"], case["gtype"], case["isp"], case["seed"], case["state"], extra))
    e.setup(script)
    plog = pr.plog() if pr else None
    nlog = pr.nlog() if pr else None
    out = e.get_output()
    e.finalize()
    t, d = models.traj_arrays(out)
    return t, d, plog, nlog, bool(pr)


def resolve(isp, engine):
    if isp == "auto":
        return "redist" if engine != "euler" else "none"
    return isp


def to_molecules(case, y):
    """Recorded values (in the script's quantity unit) -> molecules, with the exact scale of the reference table."""
    u = case.get("units")
    if not u:
        return list(y)
    q = si.QUANTITY[u["script"][2]]
    return [si.to_float(F(v) * q) for v in y]


def near_integer_totals(case):
    """Species whose real-valued total (in molecules) is less than 0.2 away from an integer: after an inexact units
    conversion floor(total) is not determined by the statement for them."""
    ns, nc = case["shape"]
    x = case["state"]
    out = []
    for s in range(ns):
        tot = sum(F(v) for v in x[s * nc:(s + 1) * nc])
        fr = tot - (tot.numerator // tot.denominator)
        if fr < F(1, 5) or fr > F(4, 5):
            out.append(s)
    return out


def check_case(case):
    return _check(case)[0]


def _check(case):
    """(violations, info).  info['skip']: the case carries no oracle on this tree; info['rejected']: number of rejected
    setter assignments; info['totals_skipped']: species totals left out of the redistribution-total oracle."""
    info = {}
    out = []
    ns, nc = case["shape"]
    x = case["state"]
    isp, engine = case["isp"], case["engine"]
    hist = case.get("history")
    units = case.get("units")
    sfx = (":units" if units else "") + (":history" if hist is not None else "")
    note = ""
    if units:
        note += " [amounts in molecules; script units %s, system units %s, state handed over as %r]" % (
            "/".join(units["script"]), "/".join(units["system"]), handed_state(case))
    script = None
    if hist is not None:
        note += " [script built with mode %r, then assigned %r through the setter]" % (case["isp"], hist)
        try:
            script = mk_script(case)
            last, accepted_invalid = apply_history(script, hist)
            reported = script.init_state_processing
        except Exception as e:
            return [("C14:history:unexpected-exception", "%s: %s%s" % (type(e).__name__, e, note))], info
        if accepted_invalid:
            info["skip"] = "invalid-string-accepted"      # a valid mode of this tree: no oracle in the statement
            return [], info
        if last is not None:
            isp = last
        info["rejected"] = sum(1 for v in hist if v not in VALID_MODES)
        if reported != isp:
            out.append(("C14:history:getter-does-not-report-the-last-accepted-mode",
                        "init_state_processing reports %r, last accepted mode is %r%s" % (reported, isp, note)))
    mode = resolve(isp, engine)
    try:
        if case.get("window"):
            return check_window(case, mode), info
        t, d, plog, nlog, probed = t0_record(case, use_probe=(mode == "Poisson"), script=script)
    except Exception as e:
        return out + [("C14:%s%s:unexpected-exception" % (mode, sfx), "%s: %s%s" % (type(e).__name__, e, note))], info
    if len(d) < 1 or t[0] != 0.0:
        return out + [("C14:%s%s:no-t0-record" % (mode, sfx), "times %r%s" % (t, note))], info
    y = d[0]
    ym = to_molecules(case, y)
    tol = TOL if inexact(case) else 0.0
    tag = "%s:%s" % (mode, engine)
    if case.get("route") == "cgmap":
        tag += ":cgmap"
    tag += sfx
    if hist is not None:
        # behaves exactly as a fresh script built with the last accepted mode (same seed: reproducible)
        try:
            t2, d2, _, _, _ = t0_record(dict(case, isp=isp), use_probe=False)
            if len(d2) < 1 or d2[0] != y:
                out.append(("C14:%s:differs-from-a-fresh-script-with-that-mode" % tag,
                            "seed %d: state %r -> %r, a new script with mode %r gives %r%s" % (case["seed"], x, y, isp, d2[:1], note)))
        except Exception as e:
            out.append(("C14:%s%s:unexpected-exception" % (mode, sfx), "fresh script: %s: %s%s" % (type(e).__name__, e, note)))
    if mode == "none":
        if len(ym) != len(x) or any(not (abs(ym[q] - x[q]) <= tol * (abs(x[q]) if x[q] else 1.0)) for q in range(len(x))):
            out.append(("C14:none:%s:not-passed-through" % tag.split(":", 1)[1], "state %r recorded as %r%s" % (x, ym, note)))
        return out, info
    # stochastic modes: non-negative integers, zero stays zero
    yi = []
    for v in ym:
        r = round(v) if math.isfinite(v) else None
        if r is None or r < 0 or not (abs(v - r) <= tol * max(1.0, abs(r))):
            out.append(("C14:%s:not-nonnegative-integers" % tag, "state %r -> %r%s" % (x, ym, note)))
            return out, info
        yi.append(float(r))
    if len(yi) != len(x):
        out.append(("C14:%s:not-nonnegative-integers" % tag, "state %r -> %r (wrong length)%s" % (x, ym, note)))
        return out, info
    for q in range(len(x)):
        if x[q] == 0 and yi[q] != 0:
            s, c = divmod(q, nc)
            out.append(("C14:%s:molecule-in-empty-cell" % tag, "state %r -> %r: species %d cell %d had amount 0%s" % (x, ym, s, c, note)))
            return out, info
    if mode == "redist":
        skip = near_integer_totals(case) if tol else []
        info["totals_skipped"] = len(skip)
        for s in range(ns):
            if s in skip:
                continue         # inexact conversion: floor(total) of a total this close to an integer is not pinned
            tot = sum(F(v) for v in x[s * nc:(s + 1) * nc])
            exp = tot.numerator // tot.denominator
            got = sum(yi[s * nc:(s + 1) * nc])
            if got != exp:
                out.append(("C14:%s:total" % tag, "state %r -> %r: species %d total %s, floor %d, got %d%s" % (x, ym, s, float(tot), exp, got, note)))
                return out, info
    if mode == "Poisson" and probed:
        xs = sorted(set(v for v in x if v > 0))

        def canon(m):
            for v in xs:
                if abs(m - v) <= tol * v:
                    return v
            return m
        # Poisson mode: every entry is a POISSON draw with the amount as mean, whatever its size (a normal draw, floored
        # or not, is not one: the mean of its integer part is off by up to 1/2)
        have = Counter((canon(m), r) for m, r in plog)
        need = Counter((x[q], yi[q]) for q in range(len(x)) if x[q] > 0)
        missing = need - have
        if missing:
            (m, r), _ = sorted(missing.items())[0]
            out.append(("C14:Poisson:%s%s:entry-not-drawn-with-its-own-mean" % (engine, sfx),
                        "state %r -> %r: an entry with amount %g holds %g molecules but no Poisson draw with mean %g gave %g; "
                        "draws (mean, result): %r%s" % (x, ym, m, r, m, r, sorted(have)[:12], note)))
            return out, info
    # reproducible for a given seed
    if case.get("repeat"):
        try:
            t2, d2, _, _, _ = t0_record(case, use_probe=False)
            # (Poisson: the probe build delegates to the same generator, the plain build must give the same draw)
            if d2[0] != y:
                out.append(("C14:%s:not-reproducible" % tag, "seed %d: %r then %r%s" % (case["seed"], y, d2[0], note)))
        except Exception as e:
            out.append(("C14:%s%s:unexpected-exception" % (mode, sfx), "%s: %s%s" % (type(e).__name__, e, note)))
    return out, info


def check_window(case, mode):
    """Poisson mode, 'every entry is drawn independently': one state whose entries share a few means, set up once per
    seed of a window.  Two entries with the same mean that hold the same count for EVERY seed of the window are not
    independent draws (for mean m the chance of one coincidence is sum_k p_k^2 < 0.3 for m >= 1.75; 16 coincidences in
    a row: < 1e-8 per pair, and the window is fixed, so the verdict is the same on every run)."""
    x = case["state"]
    ns, nc = case["shape"]
    ys = []
    for sd in case["window"]:
        c = dict(case, seed=sd)
        c.pop("window")
        t, d, _, _, _ = t0_record(c, use_probe=False)
        ys.append(d[0])
    out = []
    for a in range(len(x)):
        for b in range(a + 1, len(x)):
            if x[a] == x[b] and x[a] >= 1.75 and all(y[a] == y[b] for y in ys):
                sa, ca = divmod(a, nc)
                sb, cb = divmod(b, nc)
                rel = "same-cell-other-species" if ca == cb else ("same-species-other-cell" if sa == sb else "other")
                out.append(("C14:Poisson:%s:entries-not-independent:%s" % (case["engine"], rel),
                            "state %r: entries (species %d, cell %d) and (species %d, cell %d) have the same mean %g and hold the "
                            "same count for every seed in %r: %r" % (x, sa, ca, sb, cb, x[a], case["window"], [(y[a], y[b]) for y in ys])))
                return out
    return out


def states_for(tier, ns, nc):
    n = ns * nc
    if n <= 2 or (n == 3 and tier == "thorough"):
        al = ALPHA
    elif n == 3:
        al = [0.0, 0.25, 0.5, 1.0, 1.75, 100.0, 1000.0]
    elif n == 4:
        al = [0.0, 0.25, 0.5, 1.0, 1.75, 2.0, 99.5, 100.0] if tier == "thorough" else [0.0, 0.25, 0.5, 1.0, 1.75, 100.0]
    else:
        al = [0.0, 0.25, 1.0, 1.75] if tier == "thorough" else [0.0, 0.5, 1.75]
    out = [list(c) for c in itertools.product(al, repeat=n)]
    if n > 4:
        base = [0.25, 0.0, 0.5, 1.75, 0.0, 1.0][:n]
        for big in (99.5, 100.0, 150.25, 1000.0):
            for q in range(n):
                st = list(base)
                st[q] = big
                out.append(st)
    return out


def gen_cases(tier, seed0):
    seeds = list(range(1000 * seed0, 1000 * seed0 + (2 if tier == "quick" else 4)))
    if 0 not in seeds:
        seeds.append(0)          # the smallest valid seed is always part of the window
    combos = [("tauleap", "auto"), ("gillespie", "redist"), ("gillespie", "Poisson"), ("tauleap", "Poisson"),
              ("euler", "auto"), ("euler", "none"), ("gillespie", "none"), ("euler", "redist"), ("euler", "Poisson")]
    k = 0
    for (ns, nc) in ((1, 1), (1, 3), (2, 2), (2, 3), (3, 2)):
        for sti, st in enumerate(states_for(tier, ns, nc)):
            for gtype in (("grid", "graph") if tier == "thorough" else (("grid", "graph")[sti % 2],)):
                for ci, (engine, isp) in enumerate(combos):
                    if tier == "quick" and ns * nc >= 4 and (sti + ci) % 2:
                        continue     # quick tier: every state of the larger shapes sees every second combination (alternating)
                    if isp == "none" and engine != "euler" and any(v != math.floor(v) for v in st):
                        continue     # not a molecular state: 'none' on a stochastic engine is only meaningful for integers
                    for sd in (seeds if not (engine == "euler" and isp in ("auto", "none")) else seeds[:1]):
                        k += 1
                        yield {"shape": [ns, nc], "state": st, "gtype": gtype, "engine": engine, "isp": isp, "seed": sd,
                               "repeat": (k % 4 == 0) or (ns * nc <= 3 and isp != "none")}
    # the ends and the middle of the seed range a script accepts (a seed is handed to the native code as a C integer)
    for (ns, nc), st in (((1, 3), [0.5, 0.0, 1.75]), ((2, 2), [0.5, 1.75, 0.0, 100.0]), ((2, 3), [2.0, 99.5, 0.25, 150.25, 0.0, 3.5])):
        for gtype in ("grid", "graph"):
            for engine, isp in (("tauleap", "auto"), ("gillespie", "redist"), ("gillespie", "Poisson"), ("tauleap", "Poisson"),
                                ("euler", "redist"), ("euler", "Poisson")):
                for sd in (2 ** 31 - 1, 2 ** 31, 2 ** 31 + 12345, 2 ** 32 - 1):
                    yield {"shape": [ns, nc], "state": st, "gtype": gtype, "engine": engine, "isp": isp, "seed": sd, "repeat": True}
    # the coarse-graining route (simulate_script with the identity index map) must process the state the same way
    cg_states = {(1, 3): [[0.5, 0.0, 1.75], [2.0, 99.5, 0.25], [3.0, 0.0, 4.0]],
                 (2, 2): [[0.5, 1.75, 0.0, 100.0], [1.0, 2.0, 3.0, 0.0], [0.25, 0.25, 0.25, 0.25]]}
    for (ns, nc), sts in cg_states.items():
        for st in sts:
            for engine, isp in combos + [("tauleap", "none"), ("tauleap", "redist")]:
                if isp == "none" and engine != "euler" and any(v != math.floor(v) for v in st):
                    continue
                for sd in seeds:
                    yield {"shape": [ns, nc], "state": st, "gtype": "grid", "engine": engine, "isp": isp, "seed": sd,
                           "route": "cgmap", "repeat": False}
    # independence of the Poisson draws: entries with equal means over a fixed window of 16 seeds
    window = list(range(16))
    for (ns, nc), st in (((2, 2), [2.0, 2.0, 2.0, 2.0]), ((2, 3), [1.75, 100.0, 2.0, 1.75, 100.0, 2.0]),
                         ((3, 2), [150.25, 2.0, 150.25, 2.0, 150.25, 2.0]), ((1, 3), [2.0, 2.0, 2.0])):
        for gtype in ("grid", "graph"):
            for engine in ("gillespie", "tauleap", "euler"):
                yield {"shape": [ns, nc], "state": st, "gtype": gtype, "engine": engine, "isp": "Poisson", "seed": 0,
                       "window": window, "repeat": False}


UNITS = [{"script": ["nm", "ms", "molecule"], "system": ["nm", "ms", "molecule"]},
         {"script": ["nm", "ms", "molecule"], "system": ["mm", "min", "mol"]},
         {"script": ["nm", "ms", "mol"], "system": ["nm", "ms", "mol"]},
         {"script": ["nm", "ms", "mol"], "system": ["µm", "s", "molecule"]},
         {"script": ["nm", "ms", "nmol"], "system": ["nm", "ms", "nmol"]},
         {"script": ["nm", "ms", "nmol"], "system": ["mm", "min", "mol"]}]
COMBOS = [("tauleap", "auto"), ("gillespie", "redist"), ("gillespie", "Poisson"), ("tauleap", "Poisson"),
          ("euler", "auto"), ("euler", "none"), ("gillespie", "none"), ("euler", "redist"), ("euler", "Poisson"),
          ("tauleap", "none"), ("tauleap", "redist")]
_GEN = {}


def excluded_units_combo(engine, isp, units):
    """Deterministic engine with an explicit stochastic mode and a script quantity unit other than 'molecule': the mode
    then acts on the real-valued amounts in that unit (the statement speaks of molecules for the stochastic engines only)."""
    return engine == "euler" and isp in ("redist", "Poisson") and units["script"][2] != "molecule"


def units_states(tier):
    thorough = tier == "thorough"
    out = [((1, 2), [list(c) for c in itertools.product(ALPHA, repeat=2)])]
    if thorough:
        out.append(((1, 3), [list(c) for c in itertools.product([0.0, 0.25, 1.0, 1.75, 100.0], repeat=3)]))
    al = [0.0, 0.5, 1.0, 1.75] if thorough else [0.0, 0.5, 1.75]
    out.append(((2, 2), [list(c) for c in itertools.product(al, repeat=4)]))
    out.append(((2, 3), [[0.25, 0.0, 0.5, 1.75, 0.0, 1.0], [150.25, 0.0, 1.0, 0.0, 99.5, 2.0],
                         [1.0, 0.0, 2.0, 0.0, 3.0, 100.0], [0.5, 0.75, 0.0, 1000.0, 0.75, 0.5]]))
    return out


def gen_units_cases(tier, seed0):
    """E2: (state in molecules) x units systems x space type x (engine, mode) x seeds, direct set-up; + the cgmap route."""
    seeds = [1000 * seed0] if tier == "quick" else [1000 * seed0, 1000 * seed0 + 1]
    excluded = 0
    for (ns, nc), sts in units_states(tier):
        for sti, st in enumerate(sts):
            for ui, units in enumerate(UNITS):
                for gtype in (("grid", "graph") if tier == "thorough" else (("grid", "graph")[(sti + ui) % 2],)):
                    for ci, (engine, isp) in enumerate(COMBOS):
                        if tier == "quick" and ns * nc >= 4 and (sti // 2 + ui + ci) % 2:
                            continue
                        if isp == "none" and engine != "euler" and any(v != math.floor(v) for v in st):
                            continue
                        if excluded_units_combo(engine, isp, units):
                            excluded += 1
                            continue
                        for sd in seeds:
                            yield {"shape": [ns, nc], "state": st, "gtype": gtype, "engine": engine, "isp": isp, "seed": sd,
                                   "units": units, "repeat": (sti + ui + ci) % 4 == 0}
    cg_states = {(1, 3): [[0.5, 0.0, 1.75], [2.0, 99.5, 0.25], [3.0, 0.0, 4.0]],
                 (2, 2): [[0.5, 1.75, 0.0, 100.0], [1.0, 2.0, 3.0, 0.0], [0.25, 0.25, 0.25, 0.25]]}
    for (ns, nc), sts in cg_states.items():
        for st in sts:
            for units in UNITS:
                for engine, isp in COMBOS:
                    if isp == "none" and engine != "euler" and any(v != math.floor(v) for v in st):
                        continue
                    if excluded_units_combo(engine, isp, units):
                        excluded += 1
                        continue
                    for sd in seeds:
                        yield {"shape": [ns, nc], "state": st, "gtype": "grid", "engine": engine, "isp": isp, "seed": sd,
                               "units": units, "route": "cgmap", "repeat": False}
    _GEN["units_excluded"] = excluded


def histories(tier):
    """(start mode, [assigned values]): every sequence over the 4 valid modes + INVALID that holds at least one invalid value."""
    al = VALID_MODES + INVALID
    out = []
    for L in ((1, 2, 3) if tier == "thorough" else (1, 2)):
        if L == 1 or (L == 2 and tier == "thorough"):
            starts = VALID_MODES
        elif L == 2:
            starts = ["auto"]
        else:
            starts = ["auto", "Poisson"]
        for h in itertools.product(al, repeat=L):
            if all(v in VALID_MODES for v in h):
                continue
            for st in starts:
                out.append((st, list(h)))
    return out


HIST_STATES = [[0.5, 0.75, 0.0, 1.75, 0.75, 0.5], [1.0, 0.0, 2.0, 0.0, 3.0, 100.0]]      # 2 species x 3 cells


def gen_history_cases(tier, seed0):
    """E3: a script whose mode went through accepted and rejected setter assignments, then set up (same object)."""
    seeds = [1000 * seed0] if tier == "quick" else [1000 * seed0, 1000 * seed0 + 1]
    for start, h in histories(tier):
        final = start
        for v in h:
            if v in VALID_MODES:
                final = v
        for st in HIST_STATES:
            for engine in ("gillespie", "tauleap", "euler"):
                if final == "none" and engine != "euler" and any(v != math.floor(v) for v in st):
                    continue
                for gtype, route, sds in (("grid", None, seeds), ("graph", None, seeds), ("grid", "cgmap", seeds[:1])):
                    for sd in sds:
                        c = {"shape": [2, 3], "state": st, "gtype": gtype, "engine": engine, "isp": start, "seed": sd,
                             "history": h, "repeat": False}
                        if route:
                            c["route"] = route
                        yield c


_CASES = None


def _work(job):
    lo, hi = job
    acc = core.Acc()
    for case in _CASES[lo:hi]:
        res, info = _check(case)
        tot = sum(case["state"])
        hist = case.get("history")
        if info.get("skip"):
            acc.add(states=1, transitions=len(hist or []), traces=0, evaluations=0, nontrivial=0)
            acc.count("history_cases_skipped:invalid_value_accepted_by_the_setter_of_this_tree")
            continue
        acc.add(states=1, transitions=(len(hist) + 2) if hist is not None else (2 if case.get("repeat") else 1),
                traces=1, evaluations=1, nontrivial=1 if tot > 0 else 0)
        if hist is not None:
            acc.count("cases:history")
            acc.count("history_rejected_assignments", info.get("rejected", 0))
        elif case.get("units"):
            acc.count("cases:units:script_quantity_%s" % case["units"]["script"][2])
            if case["gtype"] == "graph" and case["engine"] != "euler" and case["units"]["script"][2] != "molecule":
                acc.count("units_cases_graph_stochastic_engine_nonmolecule_script_quantity")
            acc.count("units_redist_species_totals_skipped_within_0.2_of_an_integer", info.get("totals_skipped", 0))
        acc.count("cases:%s" % case["isp"])
        if 0 < tot < 1:
            acc.count("states_with_total_below_one_molecule")
        for key, what in res:
            acc.violation(key, what, case)
    acc.count("probe_blind", 0 if probe() else 1)
    if lo == 0:
        acc.sample(_CASES[min(len(_CASES) - 1, 7)])
    return acc.pack()


def run(ctx):
    global _CASES
    base = list(gen_cases(ctx.tier, ctx.seed))
    ucases = list(gen_units_cases(ctx.tier, ctx.seed))
    hcases = list(gen_history_cases(ctx.tier, ctx.seed))
    _CASES = base + ucases + hcases
    bounds = [0, len(base), len(base) + len(ucases), len(_CASES)]
    eng.so_path("plain")
    so, err = __import__("mc.build", fromlist=["x"]).try_build("probe")
    ctx.note("probe", "on" if so else "blind: " + (err or "")[-300:])
    done = [0, 0, 0]

    def credit(job):
        for k in range(3):
            done[k] += max(0, min(job[1], bounds[k + 1]) - max(job[0], bounds[k]))
    for job, r in pool.pmap_split(_work, len(_CASES), 400, timeout=60, single_timeout=8, max_failures=16):
        if isinstance(r, pool.Crash) and r.kind == "skipped":
            ctx.exhaustive = False
            if "re-run-of-failed-chunks-capped" not in ctx.caps:
                ctx.caps.append("re-run-of-failed-chunks-capped")
            continue
        if isinstance(r, pool.Crash):
            c = _CASES[job[0]]
            mode = resolve(c["isp"], c["engine"])
            sfx = (":units" if c.get("units") else "") + (":history" if c.get("history") is not None else "")
            ctx.violation("C14:%s:%s%s:%s" % (mode, c["engine"], sfx, "hang-in-setup" if r.kind == "hang" else r.kind), r.detail[-1500:], c)
            credit(job)
            continue
        core.merge(ctx, r)
        credit(job)
    ctx.subspace("all assignments of the dyadic alphabet {0,1/4,1/2,1,7/4,2,99.5,100,150.25,1000} (<= 3 entries; 8 resp. 6 values for 4 "
                 "entries, 4 resp. 3 values for 6 entries, plus every placement of one large value) to (species,cells) in {(1,1),(1,3),(2,2),(2,3),(3,2)} x "
                 "{grid,graph} x 9 (engine, processing mode) combinations x seed window; + 6 states x 11 combinations through "
                 "simulate_script(cgmap=identity); + 3 states x {grid,graph} x 6 combinations x the seeds 2^31-1, 2^31, 2^31+12345, 2^32-1; + 4 equal-mean states x {grid,graph} x 3 engines x 16-seed window (independence)", len(base), done[0],
                 exhaustive=(done[0] == len(base)))
    ctx.subspace("units: states whose amounts IN MOLECULES are dyadic (all pairs of the 10-value alphabet for 1x2; {0,1/2,[1,]7/4}^4 for 2x2; "
                 "[{0,1/4,1,7/4,100}^3 for 1x3, thorough;] 4 states 2x3), handed over in the system's units x 6 (script units, system units) "
                 "pairs (script quantity molecule / mol / nmol, space nm, time ms; system units equal or mm/min/mol resp. um/s/molecule) x "
                 "{grid,graph} x 11 (engine, mode) combinations x seeds, direct set-up; + 6 states x 6 pairs x 11 combinations through "
                 "simulate_script(cgmap=identity).  EXCLUDED (declared, %d combinations): euler with an explicit 'redist'/'Poisson' mode and a "
                 "script quantity unit other than molecule" % _GEN.get("units_excluded", 0), len(ucases), done[1],
                 exhaustive=(done[1] == len(ucases)))
    ctx.subspace("script-object history: every sequence of length 1..2 (thorough: ..3) over {auto,none,Poisson,redist} + the invalid values "
                 "{'floor','poisson','Redist','',None} with at least one invalid value, assigned through the public setter of a script built "
                 "with each start mode (all 4 for length 1 [and 2, thorough]; auto [and Poisson] otherwise), then set up on the SAME object: "
                 "x 2 states (2 species x 3 cells) x 3 engines x {grid, graph, grid through simulate_script(cgmap=identity)} x seeds",
                 len(hcases), done[2], exhaustive=(done[2] == len(hcases)))
    ctx.count("units_combinations_excluded:euler_explicit_stochastic_mode_nonmolecule_script_quantity", _GEN.get("units_excluded", 0))
    ctx.rule("one case per (shape, state, space type, engine, mode, seed[, units pair][, setter history]); non-trivial = state not "
             "identically zero; set-up runs in a supervised worker (60 s limit per chunk, single-case re-run on a hang)")
    ctx.assume("dyadic amounts make floor(total) exact; std::poisson_distribution / normal_distribution themselves are "
               "trusted, the check pins their parameters (probe log); seed window [1000*VERIF_SEED, +2 quick / +4 thorough) plus seed 0")
    ctx.assume("units: the statement speaks of MOLECULES for the stochastic engines; the recorded state (script's quantity unit) is converted "
               "to molecules with the exact scale and compared with a 1e-9 relative tolerance when a mol/nmol <-> molecule conversion is "
               "involved; species totals within 0.2 of an integer are then left out of the floor(total) oracle (counted).  For the "
               "deterministic engine an explicit 'redist'/'Poisson' mode acts on the amounts in the script's own quantity unit, so "
               "(euler, explicit redist/Poisson, script quantity other than molecule) is excluded from the units dimension (counted)")
    ctx.assume("history: a value of the invalid list that the setter of the tree under test accepts without an exception is a valid mode "
               "of that tree: the case is skipped and counted, not judged")


def replay(case):
    return check_case(case)
