"""C18 - unit and quantity text: print-parse round trip, SI meaning, rejection.

E1 bounded-exhaustive enumeration on the real parse_units / Units(str) / UnitValue(v, str) /
parse_unitvalue / UnitValue(str) and on str(Units) / str(UnitValue):

  valid side   every 1-, 2- and (over a 12-symbol cover) 3-factor units text; the expected verdict
               (dimension vector, exact SI scale, or "rejected: two units of one base kind") comes
               from the independent recogniser mc/ref/grammar.py;
  print-parse  every Units of 36 systems x {-2..2}^3 and quantities over a list of awkward doubles;
  malformed    a family derived mechanically from a ~200-text valid cover; every member is first
               confirmed by the reference recogniser to lie outside the grammar and must raise.
"""
import struct

from mc import core, pool, uq
from mc.ref import si
from mc.ref import grammar as G

core.setup_paths()
from strengths.units import Units, UnitValue, parse_units, parse_unitvalue  # noqa: E402

VAL = 2.5
VALTXT = "2.5"
KINDS = G.KINDS

# ---- alphabets (fixed order, simplest first) ---------------------------------------------------------

SYMS47 = list(G.SYMBOL_ORDER)
SYMS52 = list(G.ALL_SPELLINGS)
EXPS1 = [None] + [s * e for e in range(1, 10) for s in (1, -1)]          # none, 1, -1, ... 9, -9  (19)
EXPS2_T = [None, -1, 2, -2, 3]
EXPS2_Q = [None, -1, 2]
EXPS3 = [None, -1, 2]
SEPS = list(G.SEPARATORS)
COVER12 = ["m", "µm", "dmm", "s", "h", "mol", "molecule", "L", "nL", "M", "uM", "us"]
PRINT_VALUES = [1.0, 0.1, 1e-05, 1e22, 123456789.12345678, 5e-324, 1.7976931348623157e308, -0.0, -2.5, 3,
                1 / 3, 1e16, 9999999999999998.0, 0.0001, 2.2250738585072014e-308]
BIG_EXPS = [-100, -12, -10, 10, 12, 100]
NUMBER_FORMS = ["1", "1.5", "+1.3e-10", "-1.3e-10", "1e3", ".5", "5.", "1E+2"]
QSEPS = [" ", "  ", "\t", " \t "]

UNIT_SITES = ("parse_units", "Units", "UnitValue-units")
QUANT_SITES = ("parse_unitvalue", "UnitValue-str")


def _enc(v):
    return v if isinstance(v, int) else float(v).hex()


def _bits(x):
    return struct.pack("<d", float(x))


def _call(site, text):
    """The object returned by one entry point for a units text (UNIT_SITES) or a quantity text."""
    if site == "parse_units":
        return parse_units(text)
    if site == "Units":
        return Units(text)
    if site == "UnitValue-units":
        return UnitValue(VAL, text)
    if site == "parse_unitvalue":
        return parse_unitvalue(text)
    if site == "UnitValue-str":
        return UnitValue(text)
    raise ValueError(site)


def _units_of(site, obj):
    return obj if site in ("parse_units", "Units") else obj.units


def _describe(obj):
    try:
        if isinstance(obj, UnitValue):
            return "%r %s%s" % (obj.value, uq.sys_of(obj.units), uq.dim_of(obj.units))
        return "%s%s" % (uq.sys_of(obj), uq.dim_of(obj))
    except Exception:
        return repr(obj)


def _sci(fr):
    """Readable magnitude of an exact scale, also beyond the range of a float."""
    try:
        x = float(fr)
        if x != 0.0 or fr == 0:
            return "%.6e" % x
    except OverflowError:
        pass
    return "about 1e%d" % (len(str(abs(fr.numerator))) - len(str(fr.denominator)))


def _check_meaning(site, obj, want, value, out, tag=None, note=""):
    """obj (result of `site`) must carry dimension want.dim and exact SI scale want.scale.  Returns True if so."""
    tag = tag or site
    exp_type = Units if site in ("parse_units", "Units") else UnitValue
    if type(obj) is not exp_type:
        out.append(("C18:%s:result-type" % tag, "returned %s%s" % (type(obj).__name__, note)))
        return False
    u = _units_of(site, obj)
    dim = uq.dim_of(u)
    if dim != want.dim:
        out.append(("C18:%s:dimension" % tag, "read with dimension %s, the symbols define %s%s" % (dim, want.dim, note)))
        return False
    sc = si.si_scale(uq.sys_of(u), dim)
    if sc != want.scale:
        out.append(("C18:%s:si-scale" % tag, "read as %s (SI scale %s), the symbols define SI scale %s%s"
                    % (si.units_string(uq.sys_of(u), dim), _sci(sc), _sci(want.scale), note)))
        return False
    if value is not None and _bits(obj.value) != _bits(value):
        out.append(("C18:%s:value" % tag, "value read as %r, written %r%s" % (obj.value, value, note)))
        return False
    return True


# ---- histories: results, inputs and earlier parses must not be aliased ----------------------------

ALL_SITES = UNIT_SITES + QUANT_SITES
MUTATIONS = ("dim-attr", "dim-item", "sys-attr", "sys-item")
# (pattern, first mutation, second mutation)
#   P1  r = s1(T); mutate r;                    s2(T) must still mean T
#   P2  r = s1(T); mutate r twice (dim + sys);  s2(T) must still mean T
#   P3  r = s1(T); r' = s1(T); mutate r';       r and s2(T) must still mean T
HISTORY_VARIANTS = ([("P1", m, None) for m in MUTATIONS] + [("P2", "dim-attr", "sys-item")]
                    + [("P3", m, None) for m in MUTATIONS])
FRESH_EXP0 = 101          # exponents 101..325 mark texts that no other sub-space ever parses
PRINT_FRESH_EXP0 = 401    # same for printed texts


def _other(kind, cur):
    col = [s for s in SYMS47 if G.TABLE[s][0] == kind]
    return col[0] if cur != col[0] else col[1]


def _mut_parts(sysobj, dimobj, kind):
    """In-place modification through the public setters of UnitsSystem / UnitsDimensions."""
    if kind == "dim-attr":
        dimobj.space = dimobj.space + 1
        dimobj.time = dimobj.time + 1
        dimobj.quantity = dimobj.quantity + 1
    elif kind == "dim-item":
        for k in KINDS:
            dimobj[k] = dimobj[k] - 2
    elif kind == "sys-attr":
        sysobj.space = _other("space", sysobj.space)
        sysobj.time = _other("time", sysobj.time)
        sysobj.quantity = _other("quantity", sysobj.quantity)
    elif kind == "sys-item":
        for k in KINDS:
            sysobj[k] = _other(k, sysobj[k])
    else:
        raise ValueError(kind)


def _mutate(obj, kind):
    """The caller re-uses ITS object: units modified in place, and the value of a quantity."""
    if isinstance(obj, UnitValue):
        _mut_parts(obj.units.sys, obj.units.dim, kind)
        obj.value = obj.value * 3.0 + 7.0
    else:
        _mut_parts(obj.sys, obj.dim, kind)


def _snapshot(x):
    if isinstance(x, UnitValue):
        return (uq.sys_of(x.units), uq.dim_of(x.units), _bits(x.value).hex(), str(x))
    return (uq.sys_of(x), uq.dim_of(x), None, str(x))


def history_cover():
    """Cover texts that stay pairwise different once their first exponent is overwritten."""
    out, seen = [], set()
    for w in valid_cover():
        f = G.classify_units(w).factors[0]
        skel = w[:f.expstart] + ("-" if f.exponent < 0 else "") + "#" + w[f.end:]
        if skel not in seen:
            seen.add(skel)
            out.append(w)
    return out


def _fresh_text(w, idx, base=FRESH_EXP0):
    """w with the exponent of its first factor replaced by +-(base+idx): a text unique to one case."""
    f = G.classify_units(w).factors[0]
    return w[:f.expstart] + str((base + idx) * (-1 if f.exponent < 0 else 1)) + w[f.end:]


def _parse_checked(site, text, want, out, n, tag, note):
    n[0] += 1
    try:
        obj = _call(site, _qtext(site, text))
    except Exception as e:
        out.append(("C18:%s:valid-text-rejected" % tag, "%s: %s%s" % (type(e).__name__, str(e)[:200], note)))
        return None
    return obj if _check_meaning(site, obj, want, _qval(site), out, tag=tag, note=note) else None


def _history(case, out, n):
    text, s1, s2, pattern = case["text"], case["s1"], case["s2"], case["pattern"]
    want = G.classify_units(text)
    if not want.valid:
        return
    r1 = _parse_checked(s1, text, want, out, n, "history:first-parse:" + s1, " [text %r]" % text)
    if r1 is None:
        return
    target = r1
    if pattern == "P3":
        target = _parse_checked(s1, text, want, out, n, "history:re-parse:" + s1, " [second %s of %r]" % (s1, text))
        if target is None:
            return
    _mutate(target, case["mut"])
    if case.get("mut2"):
        _mutate(target, case["mut2"])
    how = " [%r: %s, %s%s of that result, then %s]" % (text, s1 if pattern != "P3" else s1 + " twice", case["mut"],
                                                     "+" + case["mut2"] if case.get("mut2") else "", s2)
    if pattern == "P3":
        _check_meaning(s1, r1, want, _qval(s1), out, tag="history:results-aliased:" + s1,
                       note=" [%r: two results of %s; modifying the second changed the first]" % (text, s1))
    _parse_checked(s2, text, want, out, n, "history:after-modified-%s-result:%s" % (s1, s2), how)


def _history_print(case, out, n):
    sys3, dim, form, s1, s2 = tuple(case["sys"]), tuple(case["dim"]), case["form"], case["s1"], case["s2"]
    x = uq.mk_units(sys3, dim) if form == "units" else UnitValue(0.1, uq.mk_units(sys3, dim))
    before = _snapshot(x)
    text = before[3]
    for step, site in (("first", s1), ("second", s2)):
        n[0] += 1
        tag = "history-print:%s-parse:%s" % (step, site)
        try:
            p = _call(site, text)
        except Exception as e:
            out.append(("C18:%s:printed-text-rejected" % tag, "%r: %s: %s" % (text, type(e).__name__, str(e)[:200])))
            return
        pu = p.units if isinstance(p, UnitValue) else p
        k = len(out)
        _same_units(tag, text, pu, sys3, dim, out)
        if form == "quantity" and isinstance(p, UnitValue) and _bits(p.value) != _bits(0.1):
            out.append(("C18:%s:value" % tag, "0.1 printed as %r parsed back as %r" % (text, p.value)))
        if len(out) > k:
            return
        if step == "first":
            _mutate(p, case["mut"])
            after = _snapshot(x)
            if after != before:
                out.append(("C18:history-print:printed-object-changed", "%r changed to %r when the object parsed from its "
                            "text was modified (%s)" % (before[3], after[3], case["mut"])))
                return
    # the printed object itself is now edited in place (exponent or base unit, and the value of a quantity) and printed
    # again: the new text must mean the object as it is now, not as it was when first printed
    try:
        _mutate(x, case["mut"])
        xu = x.units if isinstance(x, UnitValue) else x
        sys_b, dim_b = tuple(uq.sys_of(xu)), tuple(uq.dim_of(xu))
        text2 = str(x)
        n[0] += 1
        p2 = _call(s1, text2)
    except Exception as e:
        out.append(("C18:history-print:after-in-place-edit:%s:printed-text-rejected" % s1, "%s: %s" % (type(e).__name__, str(e)[:200])))
        return
    pu2 = p2.units if isinstance(p2, UnitValue) else p2
    _same_units("history-print:after-in-place-edit:%s" % s1, text2, pu2, sys_b, dim_b, out)
    if form == "quantity" and isinstance(p2, UnitValue) and _bits(p2.value) != _bits(x.value):
        out.append(("C18:history-print:after-in-place-edit:%s:value" % s1, "%r printed as %r parsed back as %r" % (x.value, text2, p2.value)))


def _input_alias(case, out, n):
    sys3, dim, form = tuple(case["sys"]), tuple(case["dim"]), case["form"]
    so, do = uq.mk_sys(sys3), uq.mk_dim(dim)
    if form == "units":
        x = Units(so, do)
        before = _snapshot(x)
        _mut_parts(so, do, case["mut"])
    else:
        uo = Units(so, do)
        x = UnitValue(0.1, uo)
        before = _snapshot(x)
        _mut_parts(so, do, case["mut"])
        _mut_parts(uo.sys, uo.dim, case["mut"])
    n[0] += 1
    after = _snapshot(x)
    if after != before:
        out.append(("C18:input-alias:%s:changed-with-its-constructor-arguments" % form,
                    "%r became %r when the objects it was built from were modified (%s)" % (before[3], after[3], case["mut"])))
        return
    site = "parse_units" if form == "units" else "parse_unitvalue"
    n[0] += 1
    p = _call(site, after[3])
    _same_units("input-alias:%s:%s" % (form, site), after[3], p.units if form == "quantity" else p, sys3, dim, out)


def _signature(text, n):
    sig = []
    for site in ALL_SITES:
        n[0] += 1
        try:
            sig.append(_describe(_call(site, _qtext(site, text))))
        except Exception as e:
            sig.append("raised " + type(e).__name__)
    return sig


def _two_pass(case, out, n):
    texts = [G.factor_text(s, e) for s in SYMS52 for e in EXPS1]
    seen = {}
    for pss, order in ((1, texts), (2, texts[::-1])):
        for tx in order:
            res = check_case({"sub": "valid", "text": tx}, n)
            for key, what in res:
                out.append((key.replace("C18:", "C18:two-pass:", 1), "pass %d, %r: %s" % (pss, tx, what)))
            sig = (_signature(tx, n), sorted(k for k, w in res))
            if pss == 1:
                seen[tx] = sig
            elif seen[tx] != sig:
                out.append(("C18:two-pass:verdict-depends-on-history",
                            "%r: first pass %s, second pass (reverse order) %s" % (tx, seen[tx], sig)))
    return out


# ---- spelling invariance: u for µ in any subset of the µ-symbols, same reading or same rejection ------

def _micro_positions(text):
    """Indices of the 'µ' that start a whole µ-symbol (a maximal letter run equal to µm µs µmol µL µM)."""
    pos = []
    i, n = 0, len(text)
    while i < n:
        if G._is_letter(text[i]):
            j = i
            while j < n and G._is_letter(text[j]):
                j += 1
            if text[i:j] in MICRO_SYMS:
                pos.append(i)
            i = j
        else:
            i += 1
    return pos


def _outcome(site, text):
    try:
        obj = _call(site, _qtext(site, text))
    except Exception as e:
        return ("raised",), "raised %s" % type(e).__name__
    u = obj.units if isinstance(obj, UnitValue) else obj
    val = _bits(obj.value).hex() if isinstance(obj, UnitValue) else None
    return (type(obj).__name__, uq.sys_of(u), uq.dim_of(u), val), _describe(obj)


def _spelling(case, out, n):
    text, mask, (pre, post) = case["text"], case["mask"], case["wrap"]
    pos = _micro_positions(text)
    chars = list(text)
    for k, p_ in enumerate(pos):
        if mask >> k & 1:
            chars[p_] = "u"
    a, b = pre + text + post, pre + "".join(chars) + post
    if a == b:
        return
    for site in ALL_SITES:
        n[0] += 2
        oa, da = _outcome(site, a)
        ob, db = _outcome(site, b)
        if oa[0] == "raised" and ob[0] == "raised":
            n[1] += 2
        if oa != ob:
            cls = "u-spelling-read-differently" + (":outer-blank" if pre or post else "")
            out.append(("C18:%s:%s" % (site, cls), "%r -> %s, but %r -> %s" % (a, da, b, db)))


def spelling_bases(tier):
    """µ-spelled texts (valid and malformed), distinct, fixed order."""
    out, seen = [], set()

    def add(t_):
        if t_ not in seen and _micro_positions(t_):
            seen.add(t_)
            out.append(t_)
    for m in MICRO_SYMS:
        for e in (None, 2, -1, -3):
            add(G.factor_text(m, e))
    e2 = [None, -1, 2] if tier == "thorough" else [None, -1]
    for m in MICRO_SYMS:
        for o in SYMS47:
            for sp_ in SEPS:
                for ea in e2:
                    for eb in e2:
                        add(G.factor_text(m, ea) + sp_ + G.factor_text(o, eb))
                        add(G.factor_text(o, ea) + sp_ + G.factor_text(m, eb))
    comp = {"µm": ("h", "molecule"), "µs": ("km", "mol"), "µmol": ("dmm", "min"), "µL": ("s", "nmol"), "µM": ("s", "L")}
    for m in MICRO_SYMS:
        o1, o2 = comp[m]
        for s1 in SEPS:
            for s2 in SEPS:
                for e in (None, 2):
                    mt = G.factor_text(m, e)
                    add(mt + s1 + o1 + s2 + o2)
                    add(o1 + s1 + mt + s2 + o2)
                    add(o1 + s1 + o2 + s2 + mt)
    import itertools
    for tri in (("µm", "µs", "µmol"), ("µL", "µs", "µM")):
        for perm in itertools.permutations(tri):
            for s1 in SEPS:
                for s2 in SEPS:
                    add(perm[0] + s1 + perm[1] + s2 + perm[2])
    tails = _strings(EXP_ALPHABET, 2)
    for m, (o1, o2) in (("µm", ("s", "mol")), ("µM", ("s", "L"))):
        for x in tails:
            add(m + x)
            for s1 in SEPS:
                add(m + x + s1 + o1)
                add(o1 + s1 + m + x)
                add(o1 + s1 + m + x + s1 + o2)
    return out


def _expect_valid(sites, text_of, want, value_of, out, n):
    for site in sites:
        n[0] += 1
        try:
            obj = _call(site, text_of(site))
        except Exception as e:
            out.append(("C18:%s:valid-text-rejected" % site, "%s: %s" % (type(e).__name__, str(e)[:200])))
            continue
        _check_meaning(site, obj, want, value_of(site), out)


def _expect_raise(sites, text_of, cls, out, n):
    for site in sites:
        n[0] += 1
        try:
            obj = _call(site, text_of(site))
        except Exception:
            n[1] += 1
            continue
        out.append(("C18:%s:%s" % (site, cls), "%r was read as %s instead of raising" % (text_of(site), _describe(obj))))


def _qtext(site, text):
    return text if site in UNIT_SITES else VALTXT + " " + text


def _qval(site):
    return None if site in ("parse_units", "Units") else VAL


def check_case(case, stats=None):
    """One case -> [(key, what)].  stats (optional list [calls, raised]) is filled for the evidence."""
    out = []
    n = stats if stats is not None else [0, 0]
    sub = case["sub"]
    try:
        if sub == "valid":
            text = case["text"]
            v = G.classify_units(text)
            sites = UNIT_SITES + QUANT_SITES
            if v.valid:
                _expect_valid(sites, lambda s: _qtext(s, text), v, _qval, out, n)
            elif v.invalid:
                _expect_raise(sites, lambda s: _qtext(s, text), "same-kind-conflict-accepted", out, n)
        elif sub == "valid-quantity":
            text = case["text"]
            v = G.classify_quantity(text)
            if v.valid:
                val = float(v.number)
                _expect_valid(QUANT_SITES, lambda s: text, v, lambda s: val, out, n)
        elif sub == "malformed":
            text, cls, form = case["text"], case["cls"], case["form"]
            if form == "units":
                if G.classify_units(text).invalid:
                    _expect_raise(UNIT_SITES, lambda s: text, cls, out, n)
            else:
                if G.classify_quantity(text).invalid:
                    _expect_raise(QUANT_SITES, lambda s: text, cls, out, n)
        elif sub == "print-units":
            sys3, dim = tuple(case["sys"]), tuple(case["dim"])
            u = uq.mk_units(sys3, dim)
            text = str(u)
            n[0] += 1
            _check_printed_units("print-units", text, sys3, dim, out)
            for site in ("parse_units", "Units"):
                n[0] += 1
                try:
                    p = _call(site, text)
                except Exception as e:
                    out.append(("C18:print-units:%s:printed-text-rejected" % site,
                                "str(Units) = %r: %s: %s" % (text, type(e).__name__, str(e)[:200])))
                    continue
                _same_units("print-units:" + site, text, p, sys3, dim, out)
                if not (u == p) or not (p == u):
                    out.append(("C18:print-units:%s:not-equal" % site, "Units.__eq__ is False for %r parsed back" % text))
        elif sub == "print-quantity":
            sys3, dim = tuple(case["sys"]), tuple(case["dim"])
            val = float.fromhex(case["value"]) if isinstance(case["value"], str) else case["value"]
            q = UnitValue(val, uq.mk_units(sys3, dim))
            text = str(q)
            n[0] += 1
            v = G.classify_quantity(text)
            if v.invalid:
                out.append(("C18:print-quantity:printed-text-outside-grammar", "str(UnitValue) = %r: %s" % (text, v.reason)))
            for site in QUANT_SITES:
                n[0] += 1
                try:
                    p = _call(site, text)
                except Exception as e:
                    out.append(("C18:print-quantity:%s:printed-text-rejected" % site,
                                "str(UnitValue) = %r: %s: %s" % (text, type(e).__name__, str(e)[:200])))
                    continue
                if type(p) is not UnitValue:
                    out.append(("C18:print-quantity:%s:result-type" % site, type(p).__name__))
                    continue
                if _bits(p.value) != _bits(val):
                    out.append(("C18:print-quantity:%s:value" % site,
                                "%r printed as %r parsed back as %r" % (float(val), text, p.value)))
                _same_units("print-quantity:" + site, text, p.units, sys3, dim, out)
        elif sub == "alphabet":
            text = case["text"]
            if text == text.strip():                  # white space around the whole text is not part of the question
                v = G.classify_units(text)
                sites = UNIT_SITES + QUANT_SITES
                if v.valid:
                    _expect_valid(sites, lambda s: _qtext(s, text), v, _qval, out, n)
                elif v.invalid:
                    _expect_raise(sites, lambda s: _qtext(s, text), "outside-grammar-accepted:" + case["family"], out, n)
        elif sub == "spelling":
            _spelling(case, out, n)
        elif sub == "history":
            _history(case, out, n)
        elif sub == "history-print":
            _history_print(case, out, n)
        elif sub == "input-alias":
            _input_alias(case, out, n)
        elif sub == "two-pass":
            _two_pass(case, out, n)
        else:
            raise ValueError(sub)
    except Exception as e:
        out.append(("C18:%s:unexpected-exception" % sub, "%s: %s" % (type(e).__name__, str(e)[:300])))
    return out


def _same_units(tag, text, p, sys3, dim, out):
    if type(p) is not Units:
        out.append(("C18:%s:result-type" % tag, type(p).__name__))
        return
    pd, ps = uq.dim_of(p), uq.sys_of(p)
    if pd != dim:
        out.append(("C18:%s:exponents" % tag, "%s%s printed as %r parsed back with exponents %s" % (sys3, dim, text, pd)))
        return
    for i in range(3):
        if dim[i] != 0 and ps[i] != sys3[i]:
            out.append(("C18:%s:base-unit" % tag, "%s%s printed as %r parsed back in %s" % (sys3, dim, text, ps)))
            return


def _check_printed_units(tag, text, sys3, dim, out):
    """The printed text, read by the reference, must itself mean the unit that was printed."""
    v = G.classify_units(text)
    if v.invalid:
        out.append(("C18:%s:printed-text-outside-grammar" % tag, "str(Units) = %r: %s" % (text, v.reason)))
    elif v.valid and (v.dim != dim or v.scale != si.si_scale(sys3, dim)):
        out.append(("C18:%s:printed-text-means-something-else" % tag,
                    "%s%s printed as %r, which the grammar reads with dimension %s" % (sys3, dim, text, v.dim)))


# ---- the valid cover and the malformed family -------------------------------------------------------

def valid_cover():
    """~200 valid units texts: every spelling, exponents, both separators, 1-3 factors, doc examples."""
    out = []

    def add(t):
        if t not in out and G.classify_units(t).valid:
            out.append(t)
            return True
        return False

    for s in SYMS52:
        add(s)
    for s in COVER12:
        for e in (2, -1, -3):
            add(G.factor_text(s, e))
    for t in G.DOC_UNITS_OK + ["µm/s", "µmol/L.s-1", "um2.s-1", "µm2/s", "M-1.s-1", "molecule/µm3"]:
        add(t)
    ex = [None, 2, -1, 1, -2, 10]
    k = 0
    n2 = 0
    for i, a in enumerate(COVER12):
        for j in (1, 3, 5, 7, 9, 11, 2, 6):
            b = COVER12[(i + j) % 12]
            t = G.factor_text(a, ex[k % 6]) + SEPS[k % 2] + G.factor_text(b, ex[(k // 2 + 1) % 6])
            k += 1
            if n2 < 60 and add(t):
                n2 += 1
    n3 = 0
    sp_ = ["m", "µm", "dmm", "L", "nL", "dm", "km", "uL"]
    ti_ = ["s", "h", "us", "min", "ms"]
    am_ = ["mol", "molecule", "M", "uM", "nmol", "fM"]
    perms = [(0, 1, 2), (0, 2, 1), (1, 0, 2), (1, 2, 0), (2, 0, 1), (2, 1, 0)]
    for q in range(120):
        tri = (sp_[q % 8], ti_[q % 5], am_[(q + q // 8) % 6])
        a, b, c = (tri[i] for i in perms[q % 6])
        t = (G.factor_text(a, ex[k % 5]) + SEPS[k % 2] + G.factor_text(b, ex[(k + 2) % 5])
             + SEPS[(k // 2) % 2] + G.factor_text(c, ex[(k + 1) % 5]))
        k += 1
        if n3 < 45 and add(t):
            n3 += 1
    return out


def _blank_class(w, p):
    """Where a blank inserted before w[p] lands (0 < p < len(w))."""
    b, a = w[p - 1], w[p]
    dig = "0123456789"
    if b in SEPS:
        return "after-separator"
    if b in dig and a in SEPS:
        return "after-exponent"
    if (b in dig or b == "-") and a in dig:
        return "inside-exponent"
    if a in dig or a == "-":
        return "before-exponent"
    if a in SEPS:
        return "after-symbol"
    return "inside-symbol"


def _flips(sym):
    c = []
    for i, ch in enumerate(sym):
        if ch.isascii() and ch.isalpha():
            c.append(sym[:i] + ch.swapcase() + sym[i + 1:])
    c.append("".join(ch.swapcase() if ch.isascii() else ch for ch in sym))
    c.append(sym[:-1])
    c.append(sym[1:])
    out = []
    for x in c:
        if x and x != sym and x not in out and G.lookup(x) is None:
            out.append(x)
    return out


def _conflicting(kind, base):
    """Symbols that bring a different base unit of `kind` than `base` (direct, litre, molar)."""
    col = [s for s in SYMS47 if G.TABLE[s][0] == kind]
    i = col.index(base)
    alts = [col[(i + 1) % len(col)], col[(i + len(col) // 2) % len(col)]]
    if kind == "space":
        alts += [s for s in ("L", "nL", "uL") if G.lookup(s)[3]["space"] != base][:2]
        if base != "dm":
            alts.append("mM")
    if kind == "quantity":
        alts += [s for s in ("M", "µM") if G.lookup(s)[3]["quantity"] != base][:1]
    out = []
    for x in alts:
        if x not in out and G.lookup(x)[3].get(kind) != base:
            out.append(x)
    return out


DOC_WRONG_UNITS = [("mol/µm. s", "blank-accepted:after-separator"), ("mol//µm.s", "doubled-separator-accepted"),
                   ("mol.µm-1.5.s-2", "fractional-exponent-accepted"), ("mol.µm+1.s-2", "signed-positive-exponent-accepted"),
                   ("mol.µm 1.s-2", "blank-accepted:before-exponent")]
DOC_WRONG_QUANTITIES = [("1µm/s", "glued-value-accepted"), ("2m", "glued-value-accepted"),
                        ("a µm/s", "non-numeric-value-accepted"), ("[1, 2] µm/s", "non-numeric-value-accepted"),
                        ("{'v', 1} µm/s", "non-numeric-value-accepted"), ("a", "non-numeric-value-accepted")]
assert sorted(t for t, c in DOC_WRONG_UNITS) == sorted(G.DOC_UNITS_WRONG)
assert sorted(t for t, c in DOC_WRONG_QUANTITIES) == sorted(G.DOC_QUANTITY_WRONG)


def malformed_family(tier):
    """[(cls, form, text, origin)] in fixed order; every text is INVALID for the reference recogniser."""
    blanks = WS_QUICK if tier == "quick" else WS_ALL
    cand = []   # (cls, units-text or None, quantity-text or None, origin)

    def both(cls, t, w):
        cand.append((cls, t, VALTXT + " " + t, w))

    # the documentation's own "wrong" examples first, each in the class it illustrates
    for t, cls in DOC_WRONG_UNITS:
        both(cls, t, "documentation")
    for t, cls in DOC_WRONG_QUANTITIES:
        cand.append((cls, None, t, "documentation"))
    for w in valid_cover():
        fs = G.classify_units(w).factors
        # embedded blanks, every interior position
        for p in range(1, len(w)):
            for bl in blanks:
                both("blank-accepted:" + _blank_class(w, p), w[:p] + bl + w[p:], w)
        # separators doubled (same and the other one, either side)
        for f in fs[1:]:
            p = f.start - 1
            other = SEPS[1 - SEPS.index(w[p])]
            for t in (w[:p] + w[p] + w[p:], w[:p] + other + w[p:], w[:p + 1] + other + w[p + 1:]):
                both("doubled-separator-accepted", t, w)
        # dangling separators
        for sp in SEPS:
            both("dangling-separator-accepted:leading", sp + w, w)
            both("dangling-separator-accepted:trailing", w + sp, w)
        for f in fs:
            e = f.exptext
            # signed positive exponent
            both("signed-positive-exponent-accepted", w[:f.expstart] + "+" + (e or "1") + w[f.end:], w)
            # fractional exponents
            for frac in (".5", ",5", ".0", "e0"):
                both("fractional-exponent-accepted", w[:f.expstart] + (e or "1") + frac + w[f.end:], w)
            # exponent before its symbol
            if e:
                both("misplaced-exponent-accepted", w[:f.start] + e + f.symbol + w[f.end:], w)
            # unknown symbols
            for x in _flips(f.symbol):
                both("unknown-symbol-accepted", w[:f.start] + x + w[f.expstart:], w)
        # a second, different unit of a base kind already used
        bases = G.classify_units(w).bases
        for kind in KINDS:
            if kind in bases:
                for x in _conflicting(kind, bases[kind]):
                    both("same-kind-conflict-accepted", w + "." + x, w)
                    both("same-kind-conflict-accepted", w + "/" + x, w)
                    both("same-kind-conflict-accepted", x + "." + w, w)
        # value glued to the unit
        for num in ("2", "2.5", "1e3", "-1.3e-10"):
            cand.append(("glued-value-accepted", None, num + w, w))
        # non-numeric value
        for bad in ("a", "abc", "[1, 2]", "{'v', 1}", "1,5", "--1", "1e", "0x10", "1.2.3", "e5", "2.5x"):
            cand.append(("non-numeric-value-accepted", None, bad + " " + w, w))
    for bad in ("a", "abc", "[1, 2]", "{'v', 1}", "1,5", "--1", "1e", "0x10", "1.2.3", "e5"):
        cand.append(("non-numeric-value-accepted", None, bad, ""))

    out = []
    seen = set()
    dropped = 0
    for cls, ut, qt, origin in cand:
        if ut is not None and ("u", ut) not in seen:
            seen.add(("u", ut))
            if G.classify_units(ut).invalid:
                out.append((cls, "units", ut, origin))
            else:
                dropped += 1
        if qt is not None and ("q", qt) not in seen:
            seen.add(("q", qt))
            if G.classify_quantity(qt).invalid:
                out.append((cls, "quantity", qt, origin))
            else:
                dropped += 1
    return out, dropped


# ---- sub-spaces -----------------------------------------------------------------------------------

# every character Python's str.isspace / str.split / str.strip / int() / re treat as white space (29)
WS_ALL = ([" ", "\n", "\t", "\r", "\xa0", "\x0b", "\x0c", "\x1c", "\x1d", "\x1e", "\x1f", "\x85", "\u1680"]
          + [chr(c) for c in range(0x2000, 0x200b)] + ["\u2028", "\u2029", "\u202f", "\u205f", "\u3000"])
WS_QUICK = WS_ALL[:5]
assert len(WS_ALL) == 29 and all(c.isspace() for c in WS_ALL)
MICRO_SYMS = [s for s in SYMS47 if s.startswith(G.MICRO)]          # µm µs µmol µL µM
WRAPS = [("", ""), (" ", ""), ("", " "), (" ", " "), ("\t", ""), ("", "\n"), ("  ", "\r\n")]
PT_PREFIXES = ["", "k", "h", "da", "d", "c", "m", "µ", "u", "n", "p", "f", "a", "M", "G", "T", "kk", "mµ", "uu", "µµ"]
PT_BASES = ["m", "s", "mol", "molecule", "L", "M", "min", "h", "g", "mm"]
EXP_ALPHABET = ["-", "+", ".", " ", "0", "1", "2", "3"]
SEP_ALPHABET = [".", "/", " ", "-", "+", "2"]
# target symbol and two companions of other kinds (no base-unit conflict with the target)
EXP_TARGETS = [("m", ("s", "mol")), ("uM", ("s", "L")), ("µm", ("h", "molecule")), ("L", ("min", "nmol")),
               ("s", ("km", "mol")), ("mol", ("dmm", "us"))]


def _strings(alphabet, maxlen):
    """All strings over the alphabet with length 0..maxlen, shortest first, alphabet order."""
    out = [""]
    layer = [""]
    for _ in range(maxlen):
        layer = [x + a for x in layer for a in alphabet]
        out += layer
    return out


def _mixed(idx, radices):
    """Digits of idx in the mixed radix system (most significant first)."""
    ds = []
    for r in reversed(radices):
        ds.append(idx % r)
        idx //= r
    return ds[::-1]


_FAMILY = None


def _spaces(tier):
    global _FAMILY
    sp = []
    # 1 factor
    sp.append(("valid-1: 52 spellings (47 symbols + 5 u-spellings) x exponents {none, +-1..+-9}",
               len(SYMS52) * len(EXPS1),
               lambda i: {"sub": "valid", "text": G.factor_text(SYMS52[i // len(EXPS1)], EXPS1[i % len(EXPS1)])}))
    # 2 factors
    e2 = EXPS2_T if tier == "thorough" else EXPS2_Q
    r2 = [len(SYMS52), len(SYMS52), len(e2), len(e2), 2]

    def c2(i):
        a, b, ea, eb, s = _mixed(i, r2)
        return {"sub": "valid", "text": G.factor_text(SYMS52[a], e2[ea]) + SEPS[s] + G.factor_text(SYMS52[b], e2[eb])}
    sp.append(("valid-2: 52^2 ordered spelling pairs x exponents %s^2 x {'.','/'}" % (["none" if e is None else e for e in e2],),
               52 * 52 * len(e2) ** 2 * 2, c2))
    # 3 factors
    e3 = EXPS3 if tier == "thorough" else EXPS3[:2]
    r3 = [12, 12, 12, len(e3), len(e3), len(e3), 2, 2]

    def c3(i):
        a, b, c, ea, eb, ec, s1, s2 = _mixed(i, r3)
        return {"sub": "valid", "text": G.factor_text(COVER12[a], e3[ea]) + SEPS[s1] + G.factor_text(COVER12[b], e3[eb])
                + SEPS[s2] + G.factor_text(COVER12[c], e3[ec])}
    sp.append(("valid-3: 12-symbol cover %s ^3 x exponents %s^3 x separators^2"
               % (COVER12, ["none" if e is None else e for e in e3]), 12 ** 3 * len(e3) ** 3 * 4, c3))
    # quantity texts: number forms x blank runs
    cover = valid_cover()
    rq = [len(cover), len(NUMBER_FORMS), len(QSEPS)]
    nq = rq[0] * rq[1] * rq[2]

    def cq(i):
        if i >= nq:
            return {"sub": "valid-quantity", "text": NUMBER_FORMS[i - nq]}
        w, nf, qs = _mixed(i, rq)
        return {"sub": "valid-quantity", "text": NUMBER_FORMS[nf] + QSEPS[qs] + cover[w]}
    sp.append(("valid-quantity: %d cover texts x %d number forms x %d blank runs + the %d bare numbers"
               % (len(cover), len(NUMBER_FORMS), len(QSEPS), len(NUMBER_FORMS)), nq + len(NUMBER_FORMS), cq))
    # print-parse
    S36 = si.systems36()
    cube = si.cube(-2, 2)
    sp.append(("print-units: 36 systems x exponent cube {-2..2}^3", 36 * 125,
               lambda i: {"sub": "print-units", "sys": S36[i // 125], "dim": cube[i % 125]}))
    nv = len(PRINT_VALUES)
    sp.append(("print-quantity: 36 systems x {-2..2}^3 x %d values" % nv, 36 * 125 * nv,
               lambda i: {"sub": "print-quantity", "sys": S36[i // (125 * nv)], "dim": cube[(i // nv) % 125],
                          "value": _enc(PRINT_VALUES[i % nv])}))
    def cbig(i):
        s, ax, e = _mixed(i, [36, 3, len(BIG_EXPS)])
        dim = [1, -1, 2]
        dim[ax] = BIG_EXPS[e]
        return {"sub": "print-quantity", "sys": S36[s], "dim": dim, "value": _enc(0.1)}
    sp.append(("print-quantity-large-exponents: 36 systems x 3 axes x exponents %s (other axes 1,-1,2)" % BIG_EXPS,
               36 * 3 * len(BIG_EXPS), cbig))
    ALL = si.ALL_SYSTEMS
    gd = [(1, -2, 3), (-3, 1, -1)]
    gv = [0.1, 1.7976931348623157e308]
    sp.append(("print-quantity-all-systems: 1100 systems x 2 generic dimensions x 2 values", 1100 * 4,
               lambda i: {"sub": "print-quantity", "sys": ALL[i // 4], "dim": gd[(i // 2) % 2], "value": gv[i % 2].hex()}))
    # malformed
    fam, dropped = malformed_family(tier)
    _FAMILY = fam
    sp.append(("malformed: family derived from the %d-text valid cover (%d candidates the reference finds legal or "
               "unspecified were dropped)" % (len(cover), dropped), len(fam),
               lambda i: {"sub": "malformed", "cls": fam[i][0], "form": fam[i][1], "text": fam[i][2], "origin": fam[i][3]}))
    # every string over a small alphabet where an exponent / a separator may stand
    maxlen = 4 if tier == "thorough" else 3
    xs = _strings(EXP_ALPHABET, maxlen)
    targets = EXP_TARGETS if tier == "thorough" else EXP_TARGETS[:2]
    slots = []
    for sym, (o1, o2) in targets:
        slots.append((sym, ""))
        for s1 in SEPS:
            slots.append((sym, s1 + o1))
            slots.append((o1 + s1 + sym, ""))
            for s2 in SEPS:
                slots.append((sym, s1 + o1 + s2 + o2))
                slots.append((o1 + s1 + sym, s2 + o2))
                slots.append((o1 + s1 + o2 + s2 + sym, ""))
    sp.append(("exponent-alphabet: ALL strings of length 0..%d over %s appended to a symbol (%s) in every factor position "
               "of 1-, 2-, 3-factor texts x separators = %d slots x %d strings; the reference decides valid / malformed"
               % (maxlen, EXP_ALPHABET, [s for s, o in targets], len(slots), len(xs)), len(slots) * len(xs),
               lambda i: {"sub": "alphabet", "family": "exponent-alphabet",
                          "text": slots[i // len(xs)][0] + xs[i % len(xs)] + slots[i // len(xs)][1]}))
    ys = _strings(SEP_ALPHABET, maxlen)
    sslots = [("m", "s"), ("uM2", "L"), ("mol/m", "s"), ("m", "s.mol"), ("mol-1.m", "s2/L")]
    sp.append(("separator-alphabet: ALL strings of length 0..%d over %s between two factors, %d contexts x %d strings"
               % (maxlen, SEP_ALPHABET, len(sslots), len(ys)), len(sslots) * len(ys),
               lambda i: {"sub": "alphabet", "family": "separator-alphabet",
                          "text": sslots[i // len(ys)][0] + ys[i % len(ys)] + sslots[i // len(ys)][1]}))
    # every SI-style prefix x base combination: in the documented table -> exact meaning, otherwise rejected
    psyms = []
    for b_ in PT_BASES:
        for p_ in PT_PREFIXES:
            if p_ + b_ not in psyms:
                psyms.append(p_ + b_)
    pslots = [("", ""), ("", "2"), ("", "-1")]
    for o in ("s", "m"):
        for s1 in SEPS:
            pslots += [("", s1 + o), (o + s1, ""), ("", "-2" + s1 + o + "3")]
    sp.append(("prefix-table: %d prefixes %s x %d bases %s = %d distinct candidate symbols (%d of them documented) x %d slots "
               "(alone, with exponent, first / last factor of a 2-factor text with s and m, both separators)"
               % (len(PT_PREFIXES), PT_PREFIXES, len(PT_BASES), PT_BASES, len(psyms),
                  sum(1 for s in psyms if G.lookup(s) is not None), len(pslots)), len(psyms) * len(pslots),
               lambda i: {"sub": "alphabet", "family": "prefix-table",
                          "text": pslots[i % len(pslots)][0] + psyms[i // len(pslots)] + pslots[i % len(pslots)][1]}))
    # the same two families with every other white-space character in place of the blank
    extra = (WS_QUICK if tier == "quick" else WS_ALL)[1:]
    long_ws = [] if tier == "quick" else ["\n", "\t"]
    xw = [x.replace(" ", c) for c in extra for x in _strings(EXP_ALPHABET, 3) if " " in x]
    xw += [x.replace(" ", c) for c in long_ws for x in _strings(EXP_ALPHABET, 4) if " " in x and len(x) == 4]
    wslots = slots[:34]
    sp.append(("exponent-alphabet-whitespace: every string of exponent-alphabet (length <= 3%s) that contains a blank, the blank "
               "replaced by each of %d other white-space characters %s, x the %d slots of targets m and uM"
               % ("; length 4 for LF and TAB" if long_ws else "", len(extra), [hex(ord(c)) for c in extra], len(wslots)),
               len(wslots) * len(xw),
               lambda i: {"sub": "alphabet", "family": "exponent-alphabet-whitespace",
                          "text": wslots[i // len(xw)][0] + xw[i % len(xw)] + wslots[i // len(xw)][1]}))
    yw = [y.replace(" ", c) for c in extra for y in _strings(SEP_ALPHABET, 3) if " " in y]
    yw += [y.replace(" ", c) for c in long_ws for y in _strings(SEP_ALPHABET, 4) if " " in y and len(y) == 4]
    sp.append(("separator-alphabet-whitespace: same for separator-alphabet, %d contexts x %d strings" % (len(sslots), len(yw)),
               len(sslots) * len(yw),
               lambda i: {"sub": "alphabet", "family": "separator-alphabet-whitespace",
                          "text": sslots[i // len(yw)][0] + yw[i % len(yw)] + sslots[i // len(yw)][1]}))
    # spelling invariance
    sb = spelling_bases(tier)
    scases = []
    for tx in sb:
        k = len(_micro_positions(tx))
        for w in range(len(WRAPS)):
            for mask in range(1, 2 ** k):
                scases.append((tx, mask, w))
    sp.append(("spelling: %d µ-spelled texts (1-3 factors, valid, conflicting and malformed) x every non-empty subset of their "
               "µ-symbols written with u x %d outer-blank wraps; differential: same reading or same rejection at the 5 sites"
               % (len(sb), len(WRAPS)), len(scases),
               lambda i: {"sub": "spelling", "text": scases[i][0], "mask": scases[i][1], "wrap": list(WRAPS[scases[i][2]])}))
    # histories
    hc = history_cover()
    nvar = len(HISTORY_VARIANTS)
    rh = [len(hc), 5, 5, nvar]

    def ch(i):
        w, a, b, v = _mixed(i, rh)
        pat, m1, m2 = HISTORY_VARIANTS[v]
        return {"sub": "history", "text": _fresh_text(hc[w], (a * 5 + b) * nvar + v), "origin": hc[w],
                "s1": ALL_SITES[a], "s2": ALL_SITES[b], "pattern": pat, "mut": m1, "mut2": m2}
    sp.append(("history-fresh: %d cover texts (each case on a text no other case parses: first exponent %d..%d) x 25 "
               "ordered site pairs x %d variants (P1 x 4 mutations, P2 two mutations, P3 re-parse then 4 mutations)"
               % (len(hc), FRESH_EXP0, FRESH_EXP0 + 25 * nvar - 1, nvar), len(hc) * 25 * nvar, ch))
    rp = [len(cover), 5, 5, len(MUTATIONS)]

    def chp(i):
        w, a, b, m = _mixed(i, rp)
        return {"sub": "history", "text": cover[w], "origin": cover[w], "s1": ALL_SITES[a], "s2": ALL_SITES[b],
                "pattern": "P1", "mut": MUTATIONS[m], "mut2": None}
    sp.append(("history-plain: the %d cover texts as they are (parsed many times before) x 25 site pairs x 4 mutations, P1"
               % len(cover), len(cover) * 25 * 4, chp))
    usites, qsites = ("parse_units", "Units"), QUANT_SITES
    rhp = [36, 2, 2, 2, len(MUTATIONS)]

    def chpr(i):
        s, f, a, b, m = _mixed(i, rhp)
        sites = usites if f == 0 else qsites
        dim = [1, -1, 2]
        dim[i % 3] = (PRINT_FRESH_EXP0 + i // 3) * (1 if i % 2 else -1)
        return {"sub": "history-print", "sys": S36[s], "dim": dim, "form": ("units", "quantity")[f],
                "s1": sites[a], "s2": sites[b], "mut": MUTATIONS[m]}
    sp.append(("history-print: 36 systems x {Units, UnitValue} x 2x2 parser pairs x 4 mutations of the parsed-back object "
               "(the printed object must not change, a second parse must be right), then the printed object edited in place and printed again (the new text means the object as it is now); one exponent unique per case",
               36 * 2 * 2 * 2 * 4, chpr))
    ria = [36, 2, len(MUTATIONS)]

    def cia(i):
        s, f, m = _mixed(i, ria)
        dim = [2, -1, 1]
        dim[i % 3] = (PRINT_FRESH_EXP0 + 400 + i // 3) * (1 if i % 2 else -1)
        return {"sub": "input-alias", "sys": S36[s], "dim": dim, "form": ("units", "quantity")[f], "mut": MUTATIONS[m]}
    sp.append(("input-alias: 36 systems x {Units(sys, dim), UnitValue(v, units)} x 4 mutations of the constructor "
               "arguments afterwards", 36 * 2 * 4, cia))
    n1 = len(SYMS52) * len(EXPS1)
    sp.append(("two-pass: valid-1 run twice inside one process, forward then reverse (verdicts and results identical)",
               2 * n1, lambda i: {"sub": "two-pass", "n": n1}))
    return sp


_SPACES = None
_DEFAULT_BARE = ("µm", "s", "molecule", "")


def _nontrivial(case):
    sub = case["sub"]
    if sub == "valid":
        return case["text"] not in _DEFAULT_BARE
    if sub.startswith("print"):
        return tuple(case["dim"]) != (0, 0, 0)
    if sub == "history":
        v = G.classify_units(case["text"])
        return v.valid and v.dim != (0, 0, 0)
    return True


def _work(job):
    k, lo, hi = job
    name, size, at = _SPACES[k]
    acc = core.Acc()
    stats = [0, 0]
    if name.startswith("two-pass"):
        case = at(0)
        for key, what in check_case(case, stats):
            acc.violation(key, what, case)
        acc.add(states=size, traces=size, nontrivial=size, transitions=stats[0], evaluations=stats[0])
        acc.count("calls_that_raised", stats[1])
        return acc.pack()
    for i in range(lo, hi):
        case = at(i)
        res = check_case(case, stats)
        acc.add(states=1, traces=1, nontrivial=1 if _nontrivial(case) else 0)
        sub = case["sub"]
        if sub == "valid":
            v = G.classify_units(case["text"])
            acc.count("valid_side_texts_" + v.status + ("_same_kind_conflict" if v.invalid else ""))
        elif sub == "malformed":
            acc.count("malformed_" + case["cls"].split(":")[0].replace("-accepted", ""))
        elif sub == "history":
            acc.count("history_cases_first_site_" + case["s1"])
        elif sub == "alphabet":
            tx = case["text"]
            acc.count(case["family"] + "_texts_" + ("outer_blank_not_judged" if tx != tx.strip()
                                                   else G.classify_units(tx).status))
        for key, what in res:
            acc.violation(key, what, case)
        if i in (0, size // 2):
            acc.sample(case)
    acc.add(transitions=stats[0], evaluations=stats[0])
    acc.count("calls_that_raised", stats[1])
    return acc.pack()


def run(ctx):
    global _SPACES
    _SPACES = _spaces(ctx.tier)
    jobs = []
    for k, (name, size, at) in enumerate(_SPACES):
        for lo, hi in pool.chunks(size, 3000):
            jobs.append((k, lo, hi))
    res = pool.pmap(_work, jobs, timeout=600)
    per = {}
    for job, r in zip(jobs, res):
        if isinstance(r, pool.Crash):
            ctx.violation("C18:checker:worker-%s" % r.kind, r.detail, {"job": list(job)})
            continue
        core.merge(ctx, r)
        per[job[0]] = per.get(job[0], 0) + r["n"][0]
    for k, (name, size, at) in enumerate(_SPACES):
        ctx.subspace(name, size, per.get(k, 0), exhaustive=(per.get(k, 0) == size))
    ctx.rule("every text / unit / quantity of each listed sub-space is enumerated in fixed order through "
             "parse_units, Units(str), UnitValue(v, str), parse_unitvalue and UnitValue(str) (print-parse: str() "
             "then the parsers); texts are distinct by construction; a valid-side text is non-trivial unless it is "
             "a bare default base symbol, a print case unless it is dimensionless; every malformed text counted was "
             "first confirmed by the reference recogniser to be outside the documented grammar; history cases: "
             "parse, modify the returned object in place through the public setters, parse again (all ordered pairs of "
             "the five entry points), non-trivial when the text has a non-zero dimension; alphabet sub-spaces: every string over the stated alphabet up to the stated "
             "length in every slot, judged by the reference (texts with white space at either end of the whole text and "
             "zero / zero-padded exponents are enumerated but not judged, and are counted); spelling cases compare the "
             "u-spelled text with the µ-spelled one, whatever the reading is")
    ctx.assume("the documented grammar and symbol table as coded in mc/ref/grammar.py (self-tested against the "
               "OK / wrong examples and the table of documentation/using_quantities_with_units.rst); texts the "
               "documentation leaves open (zero exponents, nan/inf, underscores, non-ASCII digits, outer blanks) are "
               "not in any sub-space")


def replay(case):
    return check_case(case)
