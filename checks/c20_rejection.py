"""C20 — invalid input is rejected, never silently accepted.

E1 over invalidity classes x sites: every CLASS of invalid input named by the statement is instantiated over all
sites of small valid base models, ONE defect at a time, on the real constructors / setters / dictionary readers /
accessors.  Oracle (from the statement): the call raises an exception (type irrelevant) AND, where a system is
involved, its raw state / chemostat arrays are unchanged afterwards ("never a value read from or written to a
different entry").  Every (site, route) is first exercised with the corresponding VALID input, which must be
accepted (otherwise every rejection below it would be vacuous).

Sub-spaces (`sub` of a case):
  keys      dictionary readers: unknown key at every nesting level, every pair of aliases of one key together, every
            mandatory key removed; every site through every enclosing reader
  dim       dimensioned fields x wrong dimensions (26 cube offsets + the other reaction orders) x forms x routes
  usym      unsupported unit symbols per slot of a units system x routes (UnitsSystem, item/attribute setters,
            dictionary, units_system=dict of every constructor, "units" of every dictionary reader)
  gridsize  every grid size whose integer value is <= 0 (0, -1, -0.0, 0.5, 0.999, 1e-300, -0.5, ...) per axis
            (constructor, dictionaries with canonical keys and width/height/depth, JSON files)
  cgperiodic coarse-graining a grid that has a periodical axis, through all 4 entry points
  rxspecies  a reaction of a network naming an undeclared species on either side, through every construction route
  mandatory  every key without a documented default removed from minimal and complete dictionaries, nested and file routes
  dictvalue  unknown values of the enumerated / typed dictionary fields through direct, nested and file routes
  overridelen per-species state / chemostat override dictionaries whose arrays have the wrong length
  (dim also presents malformed unit TEXT of the right dimension at every text form of every field)
  envlen    cell_env of length n-1, n+1, 0 (constructor, setter, dictionaries; list / tuple / ndarray)
  envidx    an environment index >= number of environments at each cell, at every point of use (system
            construction with default state / chemostats, set_default_*, generate_*, kinetics, engine set-up)
  enum      unknown boundary condition / axis / sampling policy / init_state_processing, empty environment list,
            environment named 'default'
  species   unknown species (label, out-of-range index, foreign object) in every accessor that takes a species;
            unknown reaction in compute_reaction_rates / apply_reaction
  pos       every out-of-range linear index and coordinate triple through every position-taking API other than
            RDGridSpace's own methods (those are C15's)
  cgmap     every invalid coarse-graining map of {-2..2}^n (1-D n <= 4, 2x2) + non-integer entries + wrong length,
            through coarsegrain_system and simulate_script(cgmap=)

Process history (verdicts must not depend on what the process did before): the `keys` sub-space also presents, to
every reader dictionary at every nesting level, EVERY key that is legal for another kind of dictionary, after valid
dictionaries of every kind have been parsed inside the case (forward order with a second pass, reverse order, and
right after a dictionary of the kind that owns the key); every other class replays the valid counterpart on the
same objects between the invalid inputs (valid - invalid - valid - invalid ..., class `Interleave`) and first uses
"what is invalid here" where it is valid (positions on a larger space, labels / indices in a larger network,
dimensions on the fields they belong to, unit symbols in their own slot, environment indices with a longer list,
mixed-environment maps on a one-environment grid).

Alias tables and mandatory keys are written out below from documentation/json_and_dict_doc.rst and the readers' own
declared synonym lists; names on which documentation and code disagree (reaction "stoechiometry"/"stoichiometry",
reaction "environments", system "chstt_map"/"chemostats") are never used, neither as valid nor as invalid keys.
"""
import copy
import json
import os
import tempfile

from mc import core, pool, uq, eng
from mc.ref import si, grammar
from mc.ref import cg as CG
from mc.ref import layout as L

core.setup_paths()
import numpy as np  # noqa: E402
from strengths import RDGridSpace, RDGraphSpace, RDNetwork, RDSystem, Species, Reaction  # noqa: E402
from strengths.rdgraphspace import (RDGraphSpaceNode, RDGraphSpaceEdge, rdgraphspace_from_dict,  # noqa: E402
                                    rdgraphspacenode_from_dict, rdgraphspaceedge_from_dict)
from strengths.rdgridspace import rdgridspace_from_dict  # noqa: E402
from strengths.rdspace import rdspace_from_dict  # noqa: E402
from strengths.rdnetwork import species_from_dict, reaction_from_dict, rdnetwork_from_dict  # noqa: E402
from strengths.rdsystem import (rdsystem_from_dict, generate_species_state, generate_system_state,  # noqa: E402
                                generate_species_chemostats, generate_system_chemostats)
from strengths.rdscript import RDScript, rdscript_from_dict  # noqa: E402
from strengths.rdoutput import RDTrajectory  # noqa: E402
from strengths.units import (UnitsSystem, UnitValue, UnitArray, Units, unitarray_from_dict,  # noqa: E402
                             unitssystem_from_dict)
from strengths.coarsegrain import coarsegrain_system, coarsegrain_grid  # noqa: E402
from strengths.simulate import simulate_script, simulate  # noqa: E402
from strengths.rdspace import load_rdspace  # noqa: E402
from strengths.rdsystem import load_rdsystem  # noqa: E402
from strengths.rdnetwork import load_rdnetwork  # noqa: E402
from strengths.rdscript import load_rdscript  # noqa: E402
from strengths import kinetics  # noqa: E402

P = "C20"
S0 = ("µm", "s", "molecule")
S1 = ("nm", "ms", "mol")


# =====================================================================================================
# plumbing
# =====================================================================================================

class Coord:
    """'Coord like' object of the docstrings."""

    def __init__(self, x=0, y=0, z=0):
        self.x = x
        self.y = y
        self.z = z


class Out:
    """Violations of one case, de-duplicated by key (first occurrence kept with its narrowing `only`)."""

    def __init__(self):
        self.first = {}
        self.n = {}
        self.order = []
        self.ops = 0
        self.evals = 0
        self.items = 0
        self.counts = {}

    def add(self, key, what, only=None):
        if key not in self.first:
            self.first[key] = (what, only)
            self.n[key] = 0
            self.order.append(key)
        self.n[key] += 1

    def count(self, k, n=1):
        self.counts[k] = self.counts.get(k, 0) + n

    def result(self):
        out = []
        for k in self.order:
            what, only = self.first[k]
            if self.n[k] > 1:
                what += " [%d occurrence(s) in this case]" % self.n[k]
            out.append((k, what, only))
        return out


def _exc(e):
    return "%s: %s" % (type(e).__name__, str(e)[:160])


def _short(r):
    try:
        s = str(r)
    except Exception:
        s = object.__repr__(r)
    s = s.replace("\n", " ")
    return s if len(s) <= 120 else s[:117] + "..."


def _show(a):
    if isinstance(a, Coord):
        return "Coord(%r,%r,%r)" % (a.x, a.y, a.z)
    if isinstance(a, np.ndarray):
        return "np.array(%r)" % (a.tolist(),)
    if isinstance(a, np.generic):
        return "np.%s(%r)" % (type(a).__name__, a.item())
    if isinstance(a, UnitValue):
        return "UnitValue(%r)" % str(a)
    if isinstance(a, UnitArray):
        return "UnitArray(%r, %r)" % (a.value.tolist(), str(a.units))
    if isinstance(a, Species):
        return "Species(%r)" % a.label
    if isinstance(a, dict):
        return "{" + ", ".join("%r: %s" % (k, _show(v)) for k, v in a.items()) + "}"
    if isinstance(a, list):
        return "[" + ", ".join(_show(v) for v in a) + "]"
    if isinstance(a, tuple):
        return "(" + ", ".join(_show(v) for v in a) + ("," if len(a) == 1 else "") + ")"
    return repr(a)


def _snap(s):
    """Raw arrays of a system."""
    st = s.state
    vals = [float(x) for x in (st.value if isinstance(st, UnitArray) else st)]
    units = str(st.units) if isinstance(st, UnitArray) else None
    return (vals, units, [int(x) for x in s.chemostats])


def _selected(only, item):
    return only is None or core.jsonable(only) == core.jsonable(item)


def reject(out, cls, key, desc, f, item=None, system=None):
    """f() must raise; `system` (if given) must be unchanged afterwards."""
    before = _snap(system) if system is not None else None
    out.ops += 1
    out.evals += 1
    out.items += 1
    try:
        r = f()
    except Exception:
        out.count("rejected:" + cls)
    else:
        out.add(key + ":accepted", "%s returned %s instead of raising" % (desc, _short(r)), item)
    if system is not None:
        out.evals += 1
        after = _snap(system)
        if after != before:
            out.add(key + ":state-changed",
                    "%s left the system changed: state %s %s -> %s %s, chemostats %s -> %s"
                    % (desc, before[0], before[1], after[0], after[1], before[2], after[2]), item)
        else:
            out.count("snapshots_equal:" + cls)


def accept(out, cls, key, desc, f):
    """The valid counterpart of a site must be accepted (vacuity guard); returns the result or None."""
    out.ops += 1
    try:
        r = f()
    except Exception as e:
        out.add(key + ":valid-input-rejected", "%s (valid input) raised %s" % (desc, _exc(e)))
        return None
    out.count("valid_accepted:" + cls)
    return r


class Interleave:
    """Process history, same objects: valid - invalid - valid - invalid ...  The valid counterpart `f` is replayed
    on the SAME objects right before the 1st and 2nd invalid input and then before every `every`-th one (and right
    before the single input of a narrowed replay); it must keep being accepted, and the invalid inputs that follow
    it must keep being rejected (that part is the ordinary `reject`)."""

    def __init__(self, out, cls, key, desc, f, every=16, after=None):
        self.out, self.cls, self.key, self.desc, self.f, self.every, self.after = out, cls, key, desc, f, every, after
        self.i = 0

    def tick(self):
        i = self.i
        self.i += 1
        if self.f is None or not (i < 2 or i % self.every == 0):
            return
        r = accept(self.out, self.cls, self.key, self.desc + " (valid call replayed between invalid inputs)", self.f)
        self.out.count("valid_interleaved:" + self.cls)
        if self.after is not None:
            self.after(r)


# =====================================================================================================
# class 1: dictionary readers
# =====================================================================================================

def USD():
    return {"space": "µm", "time": "s", "quantity": "molecule"}


UNITS_G = ["units", "units_system", "units system", "u"]
# alias groups per reader: first name = the name used in the base dictionaries
GROUPS = {
    "script": [["system"], ["t_sample"], ["time_step", "time step", "dt"], ["t_max", "tmax"],
               ["sampling_policy", "sampling policy"], ["sampling_interval", "sampling interval"],
               ["rng_seed", "rng seed", "seed"], ["init_state_processing"], UNITS_G],
    "system": [["network", "rdnetwork"], ["space", "rdspace"], ["state"], UNITS_G],
    "network": [["species"], ["reactions"], ["environments", "env"], UNITS_G],
    "species": [["label", "l"],
                ["D", "diff_coef", "diffusion_coefficient", "diff coef", "diffusion coefficient"],
                ["density", "concentration", "dens", "conc", "C"], ["chstt", "chemostat"], UNITS_G],
    "reaction": [["eq", "sto", "equation"], ["label", "l"], ["k+", "kf"], ["k-", "kr"], UNITS_G],
    "grid": [["w", "width"], ["h", "height"], ["d", "depth"],
             ["cell_env", "cell_environments", "cell environments", "environments", "env"],
             ["cell_volume", "cell_vol"], ["boundary_conditions"], UNITS_G],
    "graph": [["type"], ["nodes"], ["edges"], UNITS_G],
    "node": [["volume", "vol"], ["environment", "env"], UNITS_G],
    "edge": [["nodes"], ["surface"], ["distance"], UNITS_G],
    "unitarray": [["value"], ["units"]],
    "unitssystem": [["space"], ["time"], ["quantity"]],
}
# names on which documentation and code disagree, or that only one of them knows: never used
DISPUTED = {"system": ["chemostats", "chstt_map"],
            "reaction": ["stoichiometry", "stoechiometry", "environments", "env"],
            "grid": ["type"]}
# keys without a documented default (documentation/json_and_dict_doc.rst; the script's other keys have their defaults
# in the RDScript documentation, "environments" in RDNetwork's).  graph / node / edge / trajectory dictionaries are not
# documented: nothing is claimed for them.
MANDATORY = {"species": ["label"], "reaction": ["eq"], "network": ["species"], "system": ["network"],
             "script": ["system", "t_sample"], "unitarray": ["value", "units"]}
UNKNOWN_KEYS = ["foo", "labell", "Units", "unit"]
CHILDREN = {
    "script": [("system", "system"), ("t_sample", "unitarray"), ("units", "unitssystem")],
    "system": [("network", "network"), ("space", "space"), ("state", "unitarray"), ("units", "unitssystem")],
    "network": [("species", "[species]"), ("reactions", "[reaction]"), ("units", "unitssystem")],
    "species": [("units", "unitssystem")],
    "reaction": [("units", "unitssystem")],
    "grid": [("units", "unitssystem")],
    "graph": [("nodes", "[node]"), ("edges", "[edge]"), ("units", "unitssystem")],
    "node": [("units", "unitssystem")],
    "edge": [("units", "unitssystem")],
}
READERS = {
    "script": rdscript_from_dict, "system": rdsystem_from_dict, "network": rdnetwork_from_dict,
    "species": species_from_dict, "reaction": reaction_from_dict, "grid": rdgridspace_from_dict,
    "graph": rdgraphspace_from_dict, "space": rdspace_from_dict, "node": rdgraphspacenode_from_dict,
    "edge": rdgraphspaceedge_from_dict, "unitarray": unitarray_from_dict, "unitssystem": unitssystem_from_dict,
}


def d_species(i):
    if i == 0:
        return {"label": "A", "D": 1, "density": {"e0": 2, "default": "1 molecule/µm3"}, "chstt": False,
                "units": USD()}
    return {"label": "B", "D": "3 µm2/s", "density": 5, "chstt": {"e1": True}, "units": "inherit"}


def d_reaction(i):
    if i == 0:
        return {"eq": "A -> B", "label": "r0", "k+": 7, "k-": "11 s-1", "units": USD()}
    return {"eq": "A + B -> ", "label": "r1", "k+": {"e0": 2}, "k-": 0, "units": "default"}


def d_network():
    return {"species": [d_species(0), d_species(1)], "reactions": [d_reaction(0), d_reaction(1)],
            "environments": ["e0", "e1"], "units": USD()}


def d_grid():
    return {"w": 2, "h": 1, "d": 1, "cell_env": [0, 1], "cell_volume": "8 µm3",
            "boundary_conditions": {"x": "periodical"}, "units": USD()}


def d_node(i):
    if i == 0:
        return {"volume": 2, "environment": 0, "units": USD()}
    return {"volume": "3 µm3", "environment": 1, "units": "inherit"}


def d_edge():
    return {"nodes": [0, 1], "surface": 1, "distance": "1 µm", "units": USD()}


def d_graph():
    return {"type": "graph", "nodes": [d_node(0), d_node(1)], "edges": [d_edge()], "units": USD()}


def d_state():
    return {"value": [2.0, 3.0, 5.0, 7.0], "units": "molecule"}


def d_tsample():
    return {"value": [0.0, 0.5, 1.0], "units": "s"}


def d_system(space):
    return {"network": d_network(), "space": d_grid() if space == "grid" else d_graph(), "state": d_state(),
            "units": USD()}


def d_script(space):
    return {"system": d_system(space), "t_sample": d_tsample(), "time_step": 0.25, "t_max": "1 s",
            "sampling_policy": "on_t_sample", "sampling_interval": 1, "rng_seed": 3,
            "init_state_processing": "none", "units": USD()}


TOPS = [
    ("script/grid", "script", lambda: d_script("grid")), ("script/graph", "script", lambda: d_script("graph")),
    ("system/grid", "system", lambda: d_system("grid")), ("system/graph", "system", lambda: d_system("graph")),
    ("network", "network", d_network),
    ("species/0", "species", lambda: d_species(0)), ("species/1", "species", lambda: d_species(1)),
    ("reaction/0", "reaction", lambda: d_reaction(0)), ("reaction/1", "reaction", lambda: d_reaction(1)),
    ("grid", "grid", d_grid), ("graph", "graph", d_graph),
    ("space/grid", "space", d_grid), ("space/graph", "space", d_graph),
    ("node/0", "node", lambda: d_node(0)), ("node/1", "node", lambda: d_node(1)), ("edge", "edge", d_edge),
    ("unitarray/state", "unitarray", d_state), ("unitarray/t_sample", "unitarray", d_tsample),
    ("unitssystem", "unitssystem", USD),
]
TOP = {name: (reader, mk) for name, reader, mk in TOPS}


def _sites(reader, d, path=()):
    """[(path, reader of the dictionary at that path)] of every reader dictionary inside d."""
    if reader == "space":
        reader = "graph" if d.get("type") == "graph" else "grid"
    out = [(list(path), reader)]
    for key, child in CHILDREN.get(reader, []):
        if key not in d:
            continue
        v = d[key]
        if child.startswith("["):
            for i, x in enumerate(v):
                if isinstance(x, dict):
                    out.extend(_sites(child[1:-1], x, path + (key, i)))
        elif isinstance(v, dict):
            out.extend(_sites(child, v, path + (key,)))
    return out


def _node(d, path):
    for k in path:
        d = d[k]
    return d


def _known(reader):
    names = [n for g in GROUPS[reader] for n in g] + DISPUTED.get(reader, [])
    return names


def _key_defects(reader, node):
    """All single defects applicable to a dictionary `node` read by `reader`."""
    out = []
    known = _known(reader)
    for k in UNKNOWN_KEYS:
        if k not in known:
            out.append({"kind": "unknown", "key": k})
    for g in GROUPS[reader]:
        for i in range(len(g)):
            for j in range(i + 1, len(g)):
                out.append({"kind": "alias", "group": g[0], "pair": [g[i], g[j]]})
    for k in MANDATORY.get(reader, []):
        out.append({"kind": "missing", "key": k})
    return out


def _apply_key_defect(reader, node, defect):
    kind = defect["kind"]
    if kind == "unknown":
        node[defect["key"]] = 1
    elif kind == "missing":
        del node[defect["key"]]
    elif kind == "alias":
        group = [g for g in GROUPS[reader] if g[0] == defect["group"]][0]
        present = [k for k in group if k in node]
        val = node[present[0]]
        for k in present:
            del node[k]
        a, b = defect["pair"]
        node[a] = copy.deepcopy(val)
        node[b] = copy.deepcopy(val)
    else:
        raise ValueError(kind)


# names that only the code knows for a reader (legal there, so they can be MISPLACED elsewhere)
CODE_ONLY = {"system": ["chemostats"], "reaction": ["stoichiometry"], "grid": ["type"]}
OWNER_BASE = {"script": "script/grid", "system": "system/grid", "network": "network", "species": "species/0",
              "reaction": "reaction/0", "grid": "grid", "graph": "graph", "node": "node/0", "edge": "edge",
              "unitarray": "unitarray/state", "unitssystem": "unitssystem"}
HEAVY_TOPS = ("script/grid", "script/graph", "system/graph")     # quick: these run "plain" and "misplaced-after-all" only
KEY_MODES = ("plain", "misplaced-after-all", "misplaced-after-all-reverse", "misplaced-right-after-owner")


def _legal(reader):
    return [n for g in GROUPS[reader] for n in g] + CODE_ONLY.get(reader, [])


def _all_names():
    out = []
    for r in GROUPS:
        for n in _legal(r) + DISPUTED.get(r, []):
            if n not in out:
                out.append(n)
    return out


def _owners(name):
    return [r for r in GROUPS if name in _legal(r)]


def _misplaced(reader):
    """Every key (canonical or alias) that is legal for some OTHER reader and known neither to the documentation nor
    to the code for `reader`."""
    known = _known(reader)
    return [n for n in _all_names() if n not in known and _owners(n)]


def _parse_valid(out, name, why):
    reader, mk = TOP[name]
    return accept(out, "keys-history", "%s:keys:%s" % (P, name),
                  "%s_from_dict(base dictionary %s) %s" % (reader, name, why), lambda: READERS[reader](mk()))


def _keys_misplaced(case, out):
    """Process history: a key that is legal for ANOTHER kind of dictionary must be rejected whatever was parsed
    before in this process.  The history is produced explicitly inside the case."""
    top, mode = case["top"], case["mode"]
    reader, mk = TOP[top]
    fn = READERS[reader]
    base = mk()
    only = case.get("only")
    if mode == "misplaced-after-all":
        for name, _r, _m in TOPS:
            _parse_valid(out, name, "as history")
    elif mode == "misplaced-after-all-reverse":
        for name, _r, _m in reversed(TOPS):
            _parse_valid(out, name, "as history (reverse order)")
    if _parse_valid(out, top, "before the misplaced keys") is None:
        return False
    sites = _sites(reader, base)
    passes = (1, 2) if mode == "misplaced-after-all" else (1,)
    for npass in passes:
        for path, site in sites:
            where = "/".join(str(p) for p in path) or "(top level)"
            for k in _misplaced(site):
                item = {"path": path, "key": k, "pass": npass}
                if not _selected(only, item):
                    continue
                owners = _owners(k)
                if mode == "misplaced-right-after-owner":
                    for o in owners:
                        _parse_valid(out, OWNER_BASE[o], "right before the misplaced key %r" % k)
                d = copy.deepcopy(base)
                _node(d, path)[k] = 1
                reject(out, "misplaced-key", "%s:misplaced-key:%s:legal-for-%s" % (P, site, owners[0]),
                       "[%s, pass %d] %s_from_dict with key %r (legal for %s dictionaries only) in the %s dictionary at %s"
                       % (mode, npass, reader, k, "/".join(owners), site, where), lambda: fn(d), item)
        _parse_valid(out, top, "after the misplaced keys of pass %d" % npass)
    return True


def _keys(case, out):
    if case.get("mode", "plain") != "plain":
        return _keys_misplaced(case, out)
    top = case["top"]
    reader, mk = TOP[top]
    fn = READERS[reader]
    base = mk()
    r = accept(out, "keys", "%s:keys:%s" % (P, top), "%s_from_dict(base dictionary %s)" % (reader, top),
               lambda: fn(copy.deepcopy(base)))
    if r is None:
        return False
    only = case.get("only")
    inter = Interleave(out, "keys", "%s:keys:%s" % (P, top), "%s_from_dict(base dictionary %s)" % (reader, top),
                       lambda: fn(copy.deepcopy(base)), every=16)
    for path, site in _sites(reader, base):
        node0 = _node(base, path)
        for defect in _key_defects(site, node0):
            item = {"path": path, "defect": defect}
            if not _selected(only, item):
                continue
            inter.tick()
            d = copy.deepcopy(base)
            _apply_key_defect(site, _node(d, path), defect)
            where = "/".join(str(p) for p in path) or "(top level)"
            if defect["kind"] == "unknown":
                key = "%s:unknown-key:%s" % (P, site)
                desc = "%s_from_dict with unknown key %r in the %s dictionary at %s" % (reader, defect["key"], site, where)
                cls = "unknown-key"
            elif defect["kind"] == "alias":
                key = "%s:alias-pair:%s:%s" % (P, site, defect["group"])
                desc = ("%s_from_dict with both aliases %r and %r in the %s dictionary at %s"
                        % (reader, defect["pair"][0], defect["pair"][1], site, where))
                cls = "alias-pair"
            else:
                key = "%s:missing-key:%s:%s" % (P, site, defect["key"])
                desc = "%s_from_dict without mandatory key %r in the %s dictionary at %s" % (reader, defect["key"], site, where)
                cls = "missing-key"
            reject(out, cls, key, desc, lambda: fn(d), item)
    return True


# =====================================================================================================
# class 2: dimensioned fields
# =====================================================================================================

def _order_dim(n):
    return (-3 + 3 * n, -1, 1 - n)


KF_EQ = [" -> A", "A -> B", "A + B -> C", "2 A + B -> C"]
KR_EQ = ["A -> ", "A -> B", "C -> A + B", "C -> 2 A + B"]
ENVFORMS = ("envdict-str", "envdict-UnitValue")
SCALAR_FORMS = ("str", "UnitValue")
ARRAY_FORMS = ("UnitArray", "list-UnitValue", "list-last-UnitValue")

# field -> (right dimension, kind, routes, forms)
FIELDS = {}
FIELDS["species.density"] = ((-3, 0, 1), "scalar", ("ctor", "setter", "dict"), SCALAR_FORMS + ENVFORMS)
FIELDS["species.D"] = ((2, -1, 0), "scalar", ("ctor", "setter", "dict"), SCALAR_FORMS + ENVFORMS)
for _n in range(4):
    FIELDS["reaction.kf.order%d" % _n] = (_order_dim(_n), "scalar", ("ctor", "setter", "set_k", "dict"),
                                          SCALAR_FORMS + ENVFORMS)
    FIELDS["reaction.kr.order%d" % _n] = (_order_dim(_n), "scalar", ("ctor", "setter", "set_k", "dict"),
                                          SCALAR_FORMS + ENVFORMS)
FIELDS["grid.cell_vol"] = ((3, 0, 0), "scalar", ("ctor", "setter", "dict"), SCALAR_FORMS)
FIELDS["node.volume"] = ((3, 0, 0), "scalar", ("ctor", "setter", "dict"), SCALAR_FORMS)
FIELDS["edge.surface"] = ((2, 0, 0), "scalar", ("ctor", "setter", "dict"), SCALAR_FORMS)
FIELDS["edge.distance"] = ((1, 0, 0), "scalar", ("ctor", "setter", "dict"), SCALAR_FORMS)
FIELDS["script.time_step"] = ((0, 1, 0), "scalar", ("ctor", "setter", "dict"), SCALAR_FORMS)
FIELDS["script.t_max"] = ((0, 1, 0), "scalar", ("ctor", "setter", "dict"), SCALAR_FORMS)
FIELDS["script.sampling_interval"] = ((0, 1, 0), "scalar", ("ctor", "setter", "dict"), SCALAR_FORMS)
FIELDS["script.t_sample"] = ((0, 1, 0), "array", ("ctor", "setter", "dict"), ARRAY_FORMS + ("unitarray-dict",))
FIELDS["system.state"] = ((0, 0, 1), "array", ("ctor", "setter", "dict"), ARRAY_FORMS + ("unitarray-dict",))
FIELDS["system.state_dict"] = ((0, 0, 1), "array", ("ctor", "set_default_state"), ("UnitArray",))
FIELDS["system.set_state.value"] = ((0, 0, 1), "scalar", ("call",), SCALAR_FORMS)
FIELDS["system.apply_reaction.state"] = ((0, 0, 1), "array", ("call", "call-update"), ARRAY_FORMS)


SOFT_FIELDS = ("system.state_dict",)


def _wrong_dims(field):
    right = FIELDS[field][0]
    out = []
    for o in si.cube(-1, 1):
        if o != (0, 0, 0):
            out.append(tuple(r + x for r, x in zip(right, o)))
    if field.startswith("reaction."):
        for m in range(4):
            dm = _order_dim(m)
            if dm != right and dm not in out:
                out.append(dm)
    return out


def _dim_cases(field):
    right, kind, routes, forms = FIELDS[field]
    out = []
    for route in routes:
        for form in forms:
            if form == "unitarray-dict" and route != "dict":
                continue
            out.append({"sub": "dim", "field": field, "route": route, "form": form})
    return out


def _small_net():
    return RDNetwork([Species("A", D=1, density=2), Species("B", D=3, density=5)],
                     [Reaction("A -> B", kf=7, kr=11, label="r0")], environments=["e0", "e1"])


def _small_system():
    return RDSystem(_small_net(), RDGridSpace(w=2, h=1, d=1, cell_env=[0, 1], cell_vol=8),
                    state=[2.0, 3.0, 5.0, 7.0], chemostats=[0, 0, 0, 0])


def _small_system_dict():
    return {"network": {"species": [{"label": "A", "D": 1, "density": 2}, {"label": "B", "D": 3, "density": 5}],
                        "reactions": [{"eq": "A -> B", "label": "r0", "k+": 7, "k-": 11}],
                        "environments": ["e0", "e1"]},
            "space": {"w": 2, "h": 1, "d": 1, "cell_env": [0, 1], "cell_volume": 8}}


def _value(form, sys3, dim, n):
    """The value object of one form for a quantity of dimension `dim` in unit system sys3; None when the text
    form is not a specified quantity text of that dimension (dimensionless text: not claimed)."""
    text = None
    if form in ("str", "envdict-str", "unitarray-dict"):
        if tuple(dim) == (0, 0, 0):
            return None
        ut = si.units_string(sys3, dim)
        text = "1.5 " + ut
        v = grammar.classify_quantity(text)
        if v.status != grammar.VALID or tuple(v.dim) != tuple(dim):
            return None
    if form == "str":
        return text
    if form == "UnitValue":
        return uq.mk_uv(1.5, sys3, dim)
    if form == "envdict-str":
        return {"e0": text}
    if form == "envdict-UnitValue":
        return {"e0": uq.mk_uv(1.5, sys3, dim)}
    if form == "UnitArray":
        return uq.mk_ua([1.5] * n, sys3, dim)
    if form == "list-UnitValue":
        return [uq.mk_uv(1.5, sys3, dim) for _ in range(n)]
    if form == "list-last-UnitValue":
        return [1.5] * (n - 1) + [uq.mk_uv(1.5, sys3, dim)]
    if form == "unitarray-dict":
        return {"value": [1.5] * n, "units": si.units_string(sys3, dim)}
    raise ValueError(form)


def _dim_attempt(field, route, v, ctx):
    """Returns (callable performing the attempt with value v, system to snapshot or None)."""
    if field in ("species.density", "species.D"):
        attr = field.split(".")[1]
        if route == "ctor":
            return (lambda: Species("A", **{attr: v})), None
        if route == "setter":
            sp = ctx.setdefault("obj", Species("A"))
            return (lambda: setattr(sp, attr, v)), None
        return (lambda: species_from_dict({"label": "A", attr: v})), None
    if field.startswith("reaction."):
        _, which, order = field.split(".")
        n = int(order[-1])
        eq = KF_EQ[n] if which == "kf" else KR_EQ[n]
        if route == "ctor":
            return (lambda: Reaction(eq, **{which: v})), None
        if route == "setter":
            r = ctx.setdefault("obj", Reaction(eq))
            return (lambda: setattr(r, which, v)), None
        if route == "set_k":
            r = ctx.setdefault("obj", Reaction(eq))
            return ((lambda: r.set_k(v, 0)) if which == "kf" else (lambda: r.set_k(0, v))), None
        return (lambda: reaction_from_dict({"eq": eq, ("k+" if which == "kf" else "k-"): v})), None
    if field == "grid.cell_vol":
        if route == "ctor":
            return (lambda: RDGridSpace(cell_vol=v)), None
        if route == "setter":
            g = ctx.setdefault("obj", RDGridSpace())
            return (lambda: setattr(g, "cell_vol", v)), None
        return (lambda: rdgridspace_from_dict({"cell_volume": v})), None
    if field == "node.volume":
        if route == "ctor":
            return (lambda: RDGraphSpaceNode(volume=v)), None
        if route == "setter":
            nd = ctx.setdefault("obj", RDGraphSpaceNode())
            return (lambda: setattr(nd, "volume", v)), None
        return (lambda: rdgraphspacenode_from_dict({"volume": v})), None
    if field in ("edge.surface", "edge.distance"):
        attr = field.split(".")[1]
        if route == "ctor":
            return (lambda: RDGraphSpaceEdge(0, 1, **{attr: v})), None
        if route == "setter":
            ed = ctx.setdefault("obj", RDGraphSpaceEdge(0, 1))
            return (lambda: setattr(ed, attr, v)), None
        return (lambda: rdgraphspaceedge_from_dict({"nodes": [0, 1], attr: v})), None
    if field.startswith("script."):
        attr = field.split(".")[1]
        if attr == "t_sample":
            if route == "ctor":
                return (lambda: RDScript(ctx["system"], v)), None
            if route == "setter":
                sc = ctx.setdefault("obj", RDScript(ctx["system"], [0, 1]))
                return (lambda: setattr(sc, "t_sample", v)), None
            return (lambda: rdscript_from_dict({"system": _small_system_dict(), "t_sample": v})), None
        if route == "ctor":
            return (lambda: RDScript(ctx["system"], [0, 1], **{attr: v})), None
        if route == "setter":
            sc = ctx.setdefault("obj", RDScript(ctx["system"], [0, 1]))
            return (lambda: setattr(sc, attr, v)), None
        return (lambda: rdscript_from_dict({"system": _small_system_dict(), "t_sample": [0, 1], attr: v})), None
    if field == "system.state":
        if route == "ctor":
            return (lambda: RDSystem(_small_net(), RDGridSpace(w=2, cell_env=[0, 1], cell_vol=8), state=v)), None
        if route == "setter":
            s = ctx["system"]
            return (lambda: setattr(s, "state", v)), s
        return (lambda: rdsystem_from_dict(dict(_small_system_dict(), state=v))), None
    if field == "system.state_dict":
        if route == "ctor":
            return (lambda: RDSystem(_small_net(), RDGridSpace(w=2, cell_env=[0, 1], cell_vol=8), state={"B": v})), None
        s = ctx["system"]
        return (lambda: s.set_default_state({"B": v})), s
    if field == "system.set_state.value":
        s = ctx["system"]
        return (lambda: s.set_state("B", 1, v)), s
    if field == "system.apply_reaction.state":
        s = ctx["system"]
        return (lambda: s.apply_reaction("r0", position=1, state=v, update=(route == "call-update"))), s
    raise ValueError(field)


def _dim_n(field):
    if field == "script.t_sample":
        return 3
    if field == "system.state_dict":
        return 2
    return 4


def _malformed_units(sys3, dim):
    """Unit texts that the documented grammar (mc/ref/grammar, written from using_quantities_with_units.rst: no
    successive / leading / trailing separators, integer exponents only) calls INVALID and that would have exactly the
    field's dimension if the offending block were simply skipped."""
    T = si.units_string(sys3, dim)
    if T == "":
        return []
    parts = T.split(".")
    cands = [T + ".", T + "/", "." + T, T + "//", T + "..", T + ".5", T + ".2", T + "/1",
             parts[0] + ".5" + "".join("." + x for x in parts[1:]),
             ".".join(parts[:-1] + [parts[-1] + ".5"])]
    if len(parts) > 1:
        cands += [T.replace(".", "..", 1), ".".join(parts[:-1]) + ".." + parts[-1]]
    out = []
    for c in cands:
        if c not in out and grammar.classify_quantity("1.5 " + c).status == grammar.INVALID:
            out.append(c)
    return out


def _malformed_value(form, text, n):
    if form == "str":
        return "1.5 " + text
    if form == "envdict-str":
        return {"e0": "1.5 " + text}
    if form == "unitarray-dict":
        return {"value": [1.5] * n, "units": text}
    return None


def _dim_history():
    """Process history: every dimension that is WRONG for one field is RIGHT for another one; all fields are used
    validly (text and UnitValue, both unit systems) before the wrong dimensions are presented."""
    for sys3 in (S0, S1):
        for form in ("str", "UnitValue"):
            for field, (right, kind, routes, forms) in FIELDS.items():
                if kind != "scalar" or field in SOFT_FIELDS:
                    continue
                v = _value(form, sys3, right, 1)
                if v is None:
                    continue
                try:
                    _dim_attempt(field, routes[0], v, {"system": _small_system()})[0]()
                except Exception:
                    pass        # not an oracle: the valid counterparts are checked case by case


def _dim(case, out):
    field, route, form = case["field"], case["route"], case["form"]
    right = FIELDS[field][0]
    n = _dim_n(field)
    only = case.get("only")
    site = "%s:dimension:%s:%s:%s" % (P, field, route, form)
    _dim_history()
    ctx = {"system": _small_system()}      # shared by all attempts of the case: setters act on the SAME objects
    # the valid counterpart (right dimension, both unit systems) must be accepted
    valids = []
    for sys3 in (S0, S1):
        v = _value(form, sys3, right, n)
        if v is None:
            continue
        f, _s = _dim_attempt(field, route, v, ctx)
        if field in SOFT_FIELDS:
            # the valid route itself is the subject of another property (C13: override dictionaries); when it
            # does not work nothing is claimed here
            try:
                f()
            except Exception:
                out.count("route_unavailable_not_claimed:" + field)
                return False
            out.count("valid_accepted:dimension")
            continue
        accept(out, "dimension", site, "%s via %s with %s" % (field, route, _show(v)), f)
        valids.append((sys3, v))
    state = {"k": 0}

    def replay_valid():
        sys3, v = valids[state["k"] % len(valids)]
        state["k"] += 1
        return _dim_attempt(field, route, _value(form, sys3, right, n), ctx)[0]()
    inter = Interleave(out, "dimension", site, "%s via %s with the right dimension %s" % (field, route, right),
                       replay_valid if valids else None, every=8)
    for k, wrong in enumerate(_wrong_dims(field)):
        for sys3 in (S0, S1):
            item = {"dim": list(wrong), "sys": list(sys3)}
            if not _selected(only, item):
                continue
            v = _value(form, sys3, wrong, n)
            if v is None:
                out.count("dimensionless_text_not_claimed")
                continue
            inter.tick()
            f, s = _dim_attempt(field, route, v, ctx)
            reject(out, "dimension", site,
                   "%s via %s with %s (dimension %s, field dimension %s)" % (field, route, _show(v), wrong, right),
                   f, item, s)
    # malformed unit TEXT of the right dimension (documented as wrong): must be refused, not read without the bad block
    if form in ("str", "envdict-str", "unitarray-dict"):
        for sys3 in (S0, S1):
            for text in _malformed_units(sys3, right):
                item = {"malformed": text}
                if not _selected(only, item):
                    continue
                inter.tick()
                v = _malformed_value(form, text, n)
                f, s = _dim_attempt(field, route, v, ctx)
                reject(out, "malformed-units", "%s:malformed-units:%s:%s:%s" % (P, field, route, form),
                       "%s via %s with %s (malformed unit text; without the offending block it would have the field's "
                       "dimension %s)" % (field, route, _show(v), right), f, item, s)
    return True


# =====================================================================================================
# class 3: unsupported unit symbols
# =====================================================================================================

SLOTS = ("space", "time", "quantity")


def _bad_symbols(slot):
    valid = si.BASES[slot]
    cands = []
    for other in SLOTS:
        if other != slot:
            cands += list(si.BASES[other])
    cands += list(si.LITRE) + list(si.MOLAR)
    cands += ["inch", "", "sec", "meter", "mole", "molecules", "m2", "s-1", "µ", "1", "foo", "ft", "Å", "d"]
    for s in valid:
        cands += [s.upper(), s.capitalize(), s.swapcase(), s + "s"]
    out = []
    for c in cands:
        if c in out or c in valid:
            continue
        ent = grammar.lookup(c)
        if ent is not None and ent[0] == slot:       # e.g. "um": a documented spelling of a supported unit
            continue
        out.append(c)
    return out


def _ctor_with_units(name, us):
    if name == "Species":
        return Species("A", units_system=us)
    if name == "Reaction":
        return Reaction("A -> B", units_system=us)
    if name == "RDNetwork":
        return RDNetwork([Species("A")], [], units_system=us)
    if name == "RDGridSpace":
        return RDGridSpace(units_system=us)
    if name == "RDGraphSpaceNode":
        return RDGraphSpaceNode(units_system=us)
    if name == "RDGraphSpaceEdge":
        return RDGraphSpaceEdge(0, 1, units_system=us)
    if name == "RDGraphSpace":
        return RDGraphSpace(nodes=[RDGraphSpaceNode()], edges=[], units_system=us)
    if name == "RDSystem":
        return RDSystem(RDNetwork([Species("A")], []), RDGridSpace(), units_system=us)
    if name == "RDScript":
        return RDScript(RDSystem(RDNetwork([Species("A")], []), RDGridSpace()), [0, 1], units_system=us)
    raise ValueError(name)


CTORS_WITH_UNITS = ("Species", "Reaction", "RDNetwork", "RDGridSpace", "RDGraphSpaceNode", "RDGraphSpaceEdge",
                    "RDGraphSpace", "RDSystem", "RDScript")
USYM_DIRECT = ("UnitsSystem", "attribute-setter", "item-setter", "unitssystem_from_dict", "Units")


def _usym_routes():
    routes = [{"route": r} for r in USYM_DIRECT]
    routes += [{"route": "ctor-units_system-dict", "ctor": c} for c in CTORS_WITH_UNITS]
    for top, reader, mk in TOPS:
        if reader in ("unitarray", "unitssystem"):
            continue
        for path, site in _sites(reader, mk()):
            if site == "unitssystem":
                routes.append({"route": "reader-units", "top": top, "path": path})
    return routes


def _usym_do(route, slot, sym, shared=None):
    """Callable performing the attempt to use `sym` as the unit of `slot` (setters: on the shared object)."""
    r = route["route"]
    good = USD()
    d = dict(good)
    d[slot] = sym
    if r == "UnitsSystem":
        return lambda: UnitsSystem(**{slot: sym})
    if r == "attribute-setter":
        us = shared if shared is not None else UnitsSystem()
        return lambda: setattr(us, slot, sym)
    if r == "item-setter":
        us = shared if shared is not None else UnitsSystem()
        return lambda: us.__setitem__(slot, sym)
    if r == "unitssystem_from_dict":
        return lambda: unitssystem_from_dict({slot: sym})
    if r == "Units":
        return lambda: Units(d, {"space": 1, "time": 1, "quantity": 1})
    if r == "ctor-units_system-dict":
        return lambda: _ctor_with_units(route["ctor"], d)
    if r == "reader-units":
        reader, mk = TOP[route["top"]]
        base = mk()
        _node(base, route["path"])[slot] = sym
        return lambda: READERS[reader](base)
    raise ValueError(r)


def _usym(case, out):
    route, slot = case["route"], case["slot"]
    only = case.get("only")
    rname = route["route"] + (":" + route["ctor"] if "ctor" in route else "") + \
        (":" + route["top"] if "top" in route else "")
    key = "%s:unit-symbol:%s:%s" % (P, slot, rname)
    accept(out, "unit-symbol", key, "%s with the valid %s unit" % (rname, slot), _usym_do(route, slot, USD()[slot]))
    alt = {"space": "nm", "time": "min", "quantity": "µmol"}[slot]
    accept(out, "unit-symbol", key, "%s with the valid %s unit %r" % (rname, slot, alt), _usym_do(route, slot, alt))
    syms = _bad_symbols(slot)
    if case.get("cap"):
        syms = syms[:case["cap"]]
    # process history: every symbol that is wrong for this slot but right for another one is used validly first
    for a in si.SPACE:
        for b, c in zip(list(si.TIME) + ["s"], list(si.QUANTITY) + ["molecule"]):
            UnitsSystem(space=a, time=b, quantity=c)
    shared = UnitsSystem()
    valid_syms = list(si.BASES[slot])
    st = {"k": 0}

    def replay_valid():
        v = valid_syms[st["k"] % len(valid_syms)]
        st["k"] += 1
        return _usym_do(route, slot, v, shared)()
    inter = Interleave(out, "unit-symbol", key, "%s with a valid %s unit" % (rname, slot), replay_valid, every=8)
    for sym in syms:
        if not _selected(only, sym):
            continue
        inter.tick()
        where = (" at " + "/".join(str(p) for p in route["path"])) if "path" in route else ""
        reject(out, "unit-symbol", key, "%s%s with %r as the %s unit" % (rname, where, sym, slot),
               _usym_do(route, slot, sym, shared), sym)
        if route["route"] in ("attribute-setter", "item-setter"):
            out.evals += 1
            if getattr(shared, slot) not in valid_syms:
                out.add(key + ":object-changed", "after the rejected assignment of %r the units system holds %s = %r"
                        % (sym, slot, getattr(shared, slot)), sym)
    return True


# =====================================================================================================
# class 4 + 5a: grid sizes, environment maps of the wrong length
# =====================================================================================================

AXES = ("w", "h", "d")
AXIS_ALIAS = {"w": "width", "h": "height", "d": "depth"}


def _sys_dict_with_space(space):
    return {"network": {"species": [{"label": "A"}], "environments": ["e0", "e1", "e2"]}, "space": space}


# every value whose integer size is <= 0 (int() truncates towards zero); nan / inf are left out (no integer value:
# neither the documentation nor the code's checks say anything about them)
BAD_SIZES = (0, -1, -2, 0.0, -0.0, 0.5, 0.999, 1e-300, -0.5, -0.999, -1e-300, -1.0, -1.5)


def _via_json(loader, d):
    """d written as a JSON file and read back with load_rdspace / load_rdsystem."""
    fd, path = tempfile.mkstemp(suffix=".json", prefix="c20_")
    try:
        with os.fdopen(fd, "w", encoding="utf-8") as f:
            json.dump(d, f)
        return loader(path)
    finally:
        try:
            os.unlink(path)
        except OSError:
            pass


def _grid_of(r):
    if isinstance(r, RDGridSpace):
        return r
    if isinstance(r, RDSystem):
        return r.space
    if isinstance(r, RDScript):
        return r.system.space
    return None


def _gridsize(case, out):
    only = case.get("only")

    def script_dict(kw):
        return {"system": _sys_dict_with_space(dict(kw)), "t_sample": [0, 1]}
    routes = {
        "ctor": lambda kw: RDGridSpace(**kw),
        "rdgridspace_from_dict": lambda kw: rdgridspace_from_dict(dict(kw)),
        "rdgridspace_from_dict-alias": lambda kw: rdgridspace_from_dict({AXIS_ALIAS[k]: v for k, v in kw.items()}),
        "rdspace_from_dict": lambda kw: rdspace_from_dict(dict(kw)),
        "rdsystem_from_dict": lambda kw: rdsystem_from_dict(_sys_dict_with_space(dict(kw))),
        "rdsystem_from_dict-alias": lambda kw: rdsystem_from_dict(
            _sys_dict_with_space({AXIS_ALIAS[k]: v for k, v in kw.items()})),
        "rdscript_from_dict": lambda kw: rdscript_from_dict(script_dict(kw)),
        "load_rdspace(json)": lambda kw: _via_json(load_rdspace, dict(kw)),
        "load_rdspace(json)-alias": lambda kw: _via_json(load_rdspace, {AXIS_ALIAS[k]: v for k, v in kw.items()}),
        "load_rdsystem(json)": lambda kw: _via_json(load_rdsystem, _sys_dict_with_space(dict(kw))),
    }
    route = case["route"]
    f = routes[route]

    def shown(kw):
        """The call, reporting the geometry when a grid comes back (for the violation text)."""
        r = f(kw)
        g = _grid_of(r)
        if g is None:
            return r
        return "a grid with (w, h, d) = (%r, %r, %r), size() = %r, cell_env = %r" % (
            g.w, g.h, g.d, g.size(), [int(x) for x in g.cell_env])
    for others in ((1, 1), (2, 1), (1, 2), (2, 2)):
        for a in AXES:
            rest = [x for x in AXES if x != a]
            good = {a: 2, rest[0]: others[0], rest[1]: others[1]}
            r = accept(out, "grid-size", "%s:grid-size:%s:%s" % (P, a, route), "%s %r" % (route, good),
                       lambda: f(good))
            g = _grid_of(r)
            if g is not None:
                out.evals += 1
                if g.w * g.h * g.d != 2 * others[0] * others[1]:
                    out.add("%s:grid-size:%s:%s:valid-size-wrong" % (P, a, route),
                            "%s %r built a grid %dx%dx%d" % (route, good, g.w, g.h, g.d))
            for bad in BAD_SIZES:
                kw = dict(good)
                kw[a] = bad
                item = dict(kw)
                if not _selected(only, item):
                    continue
                reject(out, "grid-size", "%s:grid-size:%s:%s" % (P, a, route),
                       "%s with %r (integer size %d)" % (route, kw, int(bad)), lambda: shown(kw), item)
    return True


def _container(kind, vals):
    if kind == "list":
        return list(vals)
    if kind == "tuple":
        return tuple(vals)
    if kind == "ndarray":
        return np.array(vals, dtype=int)
    raise ValueError(kind)


def _envlen(case, out):
    w, h, d = case["shape"]
    n = w * h * d
    route = case["route"]
    only = case.get("only")
    kinds = ("list", "tuple", "ndarray") if route in ("ctor", "setter") else ("list",)
    good = [i % 2 for i in range(n)]

    def attempt(vals):
        """(callable, grid to inspect afterwards or None)"""
        if route == "ctor":
            return (lambda: RDGridSpace(w=w, h=h, d=d, cell_env=vals)), None
        if route == "setter":
            g = RDGridSpace(w=w, h=h, d=d, cell_env=list(good))
            return (lambda: setattr(g, "cell_env", vals)), g
        dd = {"w": w, "h": h, "d": d, "cell_env": vals}
        if route == "rdgridspace_from_dict":
            return (lambda: rdgridspace_from_dict(dd)), None
        if route == "rdspace_from_dict":
            return (lambda: rdspace_from_dict(dd)), None
        if route == "rdsystem_from_dict":
            return (lambda: rdsystem_from_dict(_sys_dict_with_space(dd))), None
        raise ValueError(route)

    key = "%s:env-map-length:%s" % (P, route)
    for kind in kinds:
        accept(out, "env-map-length", key, "%s %dx%dx%d cell_env=%s(%r)" % (route, w, h, d, kind, good),
               attempt(_container(kind, good))[0])
        lengths = []
        for ln, tag in ((n - 1, "n-1"), (n + 1, "n+1"), (0, "0"), (2 * n, "2n")):
            if ln not in [x for x, _ in lengths] and ln != n:
                lengths.append((ln, tag))
        for ln, tag in lengths:
            item = {"kind": kind, "len": ln}
            if not _selected(only, item):
                continue
            vals = _container(kind, [i % 2 for i in range(ln)])
            accept(out, "env-map-length", key, "%s %dx%dx%d cell_env=%s(%r) (replayed between invalid maps)"
                   % (route, w, h, d, kind, good), attempt(_container(kind, good))[0])
            f, g = attempt(vals)
            reject(out, "env-map-length", key + ":" + tag,
                   "%s on a %dx%dx%d grid (%d cells) with a cell_env %s of length %d" % (route, w, h, d, n, kind, ln),
                   f, item)
            if g is not None:
                out.evals += 1
                if [int(x) for x in g.cell_env] != good:
                    out.add(key + ":" + tag + ":map-changed",
                            "after the rejected assignment the grid's cell_env is %r (was %r)"
                            % ([int(x) for x in g.cell_env], good), item)
    return True


# =====================================================================================================
# class 5b: environment index beyond the environment list, at every point of use
# =====================================================================================================

def _primes(n):
    out, k = [], 2
    while len(out) < n:
        if all(k % p for p in out if p * p <= k):
            out.append(k)
        k += 1
    return out


def _net(nsp, nenv, reactions=True):
    labels = ["A", "B", "C"][:nsp]
    envs = ["e%d" % i for i in range(nenv)]
    species = []
    for i, lab in enumerate(labels):
        D = {e: float(_primes(12)[3 * i + j]) for j, e in enumerate(envs)}
        dens = {e: float(_primes(24)[12 + 3 * i + j]) for j, e in enumerate(envs)}
        species.append(Species(lab, D=D, density=dens, chstt={envs[-1]: False}))
    rs = []
    if reactions:
        if nsp >= 2:
            rs.append(Reaction("A -> B", kf={e: 7.0 + j for j, e in enumerate(envs)}, kr=11, label="r0"))
        else:
            rs.append(Reaction("A -> ", kf=7, kr=11, label="r0"))
        if nsp >= 3:
            rs.append(Reaction("A + B -> C", kf=13, kr=17, label="r1"))
    return RDNetwork(species, rs, environments=envs)


def _space(spec, env=None):
    """spec = {"type": "grid", "w","h","d","per"} | {"type": "graph", "n"}; env: list of environment indices."""
    if spec["type"] == "grid":
        w, h, d = spec["w"], spec["h"], spec["d"]
        n = w * h * d
        if env is None:
            env = [i % 2 for i in range(n)]
        bc = {a: ("periodical" if spec.get("per") else "reflecting") for a in "xyz"}
        return RDGridSpace(w=w, h=h, d=d, cell_env=list(env), cell_vol=8, boundary_conditions=bc)
    n = spec["n"]
    if env is None:
        env = [i % 2 for i in range(n)]
    vols = _primes(n)
    nodes = [RDGraphSpaceNode(volume=vols[i], environment=env[i]) for i in range(n)]
    edges = [RDGraphSpaceEdge(i, i + 1, surface=1 + i, distance=2 + i) for i in range(n - 1)]
    return RDGraphSpace(nodes=nodes, edges=edges)


def _space_size(spec):
    return spec["w"] * spec["h"] * spec["d"] if spec["type"] == "grid" else spec["n"]


def _space_tag(spec):
    if spec["type"] == "grid":
        return "grid %dx%dx%d%s" % (spec["w"], spec["h"], spec["d"], " periodic" if spec.get("per") else "")
    return "graph of %d node(s)" % spec["n"]


def _explicit_system(net, space):
    n = space.size() * net.nspecies()
    return RDSystem(net, space, state=[float(p) for p in _primes(n)], chemostats=[0] * n)


ENVIDX_APIS = ("RDSystem()", "RDSystem(chemostats=explicit)", "RDSystem(state=explicit)", "set_default_state",
               "set_default_chemostats", "generate_species_state", "generate_system_state",
               "generate_species_chemostats", "generate_system_chemostats",
               "kinetics.compute_reaction_rates", "kinetics.compute_diffusion_rates:src",
               "kinetics.compute_diffusion_rates:dst", "kinetics.compute_dspeciesdt", "kinetics.compute_dstatedt",
               "LibRDEngine.setup")


def _neighbor(space, c):
    nb = [j for j in space.get_neighbors(c) if j != c]
    return nb[0] if nb else None


def _envidx_call(api, net, space, c):
    """Callable that USES the environment of cell c; None when the API cannot address it on this space."""
    nst = space.size() * net.nspecies()
    st = [float(p) for p in _primes(nst)]
    if api == "RDSystem()":
        return lambda: RDSystem(net, space)
    if api == "RDSystem(chemostats=explicit)":
        return lambda: RDSystem(net, space, chemostats=[0] * nst)
    if api == "RDSystem(state=explicit)":
        return lambda: RDSystem(net, space, state=st)
    if api == "generate_species_state":
        return lambda: generate_species_state(net.species[0], net, space, UnitsSystem())
    if api == "generate_system_state":
        return lambda: generate_system_state(net, space, UnitsSystem())
    if api == "generate_species_chemostats":
        return lambda: generate_species_chemostats(net.species[0], net, space)
    if api == "generate_system_chemostats":
        return lambda: generate_system_chemostats(net, space)
    s = _explicit_system(net, space)
    if api == "set_default_state":
        return lambda: s.set_default_state()
    if api == "set_default_chemostats":
        return lambda: s.set_default_chemostats()
    if api == "kinetics.compute_reaction_rates":
        return lambda: kinetics.compute_reaction_rates(s, 0, c)
    if api in ("kinetics.compute_diffusion_rates:src", "kinetics.compute_diffusion_rates:dst"):
        j = _neighbor(space, c)
        if j is None:
            return None
        if api.endswith("src"):
            return lambda: kinetics.compute_diffusion_rates(s, 0, c, j)
        return lambda: kinetics.compute_diffusion_rates(s, 0, j, c)
    if api == "kinetics.compute_dspeciesdt":
        return lambda: kinetics.compute_dspeciesdt(s, 0, c)
    if api == "kinetics.compute_dstatedt":
        return lambda: kinetics.compute_dstatedt(s)
    if api == "LibRDEngine.setup":
        def do():
            sc = RDScript(s, [0, 0.001], time_step=0.001, rng_seed=1)
            e = eng.make_engine("euler")
            try:
                e.setup(sc)
            except Exception:
                raise
            else:
                try:
                    e.finalize()
                except Exception:
                    pass
                return "None (set-up done, nothing raised)"
        return do
    raise ValueError(api)


def _envidx(case, out):
    spec, nenv, api = case["space"], case["nenv"], case["api"]
    n = _space_size(spec)
    only = case.get("only")
    kind = spec["type"]
    key = "%s:env-index:%s:%s" % (P, api, kind)
    net = _net(2, nenv)
    good = [i % nenv for i in range(n)]
    f = _envidx_call(api, net, _space(spec, good), 0)
    if f is not None:
        accept(out, "env-index", key, "%s on a %s with valid environment map %r (%d environments)"
               % (api, _space_tag(spec), good, nenv), f)
    # process history: the index that is beyond THIS list is a valid index of a longer list, used first
    big = _net(2, nenv + 2)
    for c in range(n):
        env = list(good)
        env[c] = nenv + 1
        try:
            fb = _envidx_call(api, big, _space(spec, env), c)
            if fb is not None and api != "LibRDEngine.setup":
                fb()
        except Exception:
            pass
    inter = Interleave(out, "env-index", key, "%s on a %s with the valid environment map %r" % (api, _space_tag(spec), good),
                       _envidx_call(api, net, _space(spec, good), 0), every=4)
    for c in range(n):
        for bad in (nenv, nenv + 1):
            item = {"cell": c, "env": bad}
            if not _selected(only, item):
                continue
            env = list(good)
            env[c] = bad
            f = _envidx_call(api, net, _space(spec, env), c)
            if f is None:
                out.count("env_index_api_not_applicable")
                continue
            inter.tick()
            reject(out, "env-index", key,
                   "%s on a %s whose cell %d has environment index %d with %d environment(s) %r"
                   % (api, _space_tag(spec), c, bad, nenv, list(net.environments)), f, item)
    return True


def _edgeidx(case, out):
    """RDGraphSpace.check(): an edge naming a node outside the graph is declared invalid by the code's own check."""
    n = case["n"]
    only = case.get("only")
    key = "%s:edge-node-index:RDGraphSpace.check" % P

    def graph(edges):
        return RDGraphSpace(nodes=[RDGraphSpaceNode(volume=v) for v in _primes(n)],
                            edges=[RDGraphSpaceEdge(i, j) for i, j in edges])
    good = [(i, i + 1) for i in range(n - 1)]
    accept(out, "edge-node-index", key, "check() of a path graph of %d node(s)" % n, lambda: graph(good).check())
    for slot in range(len(good) + 1):
        for end in (0, 1):
            for bad in (-1, -n, n, n + 1):
                item = {"slot": slot, "end": end, "v": bad}
                if not _selected(only, item):
                    continue
                edges = list(good)
                e = [0, 0]
                e[end] = bad
                if slot < len(good):
                    e[1 - end] = good[slot][1 - end]
                    edges[slot] = tuple(e)
                else:
                    edges.append(tuple(e))
                reject(out, "edge-node-index", key + (":negative" if bad < 0 else ":too-large"),
                       "RDGraphSpace.check() on %d node(s) with edges %r" % (n, edges), lambda: graph(edges).check(), item)
    return True


# =====================================================================================================
# class 6: enumerated strings, environment lists
# =====================================================================================================

BAD_BC = ["periodic", "Reflecting", "PERIODICAL", "", "foo", "absorbing"]
BAD_AXIS = ["w", "X", "xy", "", "t"]
BAD_POLICY = ["on_tsample", "On_iteration", "ON_INTERVAL", "", "foo", "interval", "on t sample", "no sampling"]
BAD_ISP = ["poisson", "AUTO", "None", "redistribution", "", "foo"]      # "floor": documentation and code disagree


def _enum(case, out):
    which, route = case["which"], case["route"]
    only = case.get("only")
    key = "%s:enum:%s:%s" % (P, which, route)

    def run(valid_items, bad_items, mk, desc):
        for it in valid_items:
            accept(out, "enum:" + which, key, desc(it), mk(it))
        for i, it in enumerate(bad_items):
            if not _selected(only, it):
                continue
            if i % 4 == 0:
                v = valid_items[(i // 4) % len(valid_items)]
                accept(out, "enum:" + which, key, desc(v) + " (replayed between invalid inputs)", mk(v))
                out.count("valid_interleaved:enum:" + which)
            reject(out, "enum:" + which, key, desc(it), mk(it), it)

    if which in ("boundary-condition", "axis"):
        def mk(bc):
            if route == "ctor":
                return lambda: RDGridSpace(w=2, boundary_conditions=dict(bc))
            if route == "set_boundary_conditions":
                g = RDGridSpace(w=2, boundary_conditions={"y": "periodical"})
                return lambda: g.set_boundary_conditions(dict(bc))
            dd = {"w": 2, "boundary_conditions": dict(bc)}
            if route == "rdgridspace_from_dict":
                return lambda: rdgridspace_from_dict(dd)
            if route == "rdspace_from_dict":
                return lambda: rdspace_from_dict(dd)
            return lambda: rdsystem_from_dict(_sys_dict_with_space(dd))
        valid = [{"x": "periodical"}, {"x": "reflecting", "y": "periodical", "z": "periodical"}, {}]
        bad = []
        if which == "boundary-condition":
            for a in "xyz":
                for b in BAD_BC:
                    bad.append({a: b})
                    bad.append(dict({o: "periodical" for o in "xyz" if o != a}, **{a: b}))
        else:
            for a in BAD_AXIS:
                bad.append({a: "reflecting"})
                bad.append({"x": "periodical", a: "periodical"})
        run(valid, bad, mk, lambda bc: "%s with boundary_conditions=%r" % (route, bc))
    elif which in ("sampling-policy", "init-state-processing"):
        attr = "sampling_policy" if which == "sampling-policy" else "init_state_processing"
        s = _small_system()

        def mk(v):
            if route == "ctor":
                return lambda: RDScript(s, [0, 1], **{attr: v})
            if route == "setter":
                sc = RDScript(s, [0, 1])
                return lambda: setattr(sc, attr, v)
            k = attr
            if route == "rdscript_from_dict-alias":
                k = "sampling policy"
            return lambda: rdscript_from_dict({"system": _small_system_dict(), "t_sample": [0, 1], k: v})
        if which == "sampling-policy":
            valid, bad = ["on_t_sample", "on_iteration", "on_interval", "no_sampling"], BAD_POLICY
        else:
            valid, bad = ["auto", "none", "Poisson", "redist"], BAD_ISP
        run(valid, bad, mk, lambda v: "%s with %s=%r" % (route, attr, v))
    elif which in ("empty-environments", "default-environment"):
        def mk(envs):
            if route == "ctor":
                return lambda: RDNetwork([Species("A")], [], environments=envs)
            if route == "setter":
                net = RDNetwork([Species("A")], [], environments=["e0"])
                return lambda: setattr(net, "environments", envs)
            k = "env" if route.endswith("alias") else "environments"
            dd = {"species": [{"label": "A"}], k: list(envs)}
            if route.startswith("rdsystem_from_dict"):
                return lambda: rdsystem_from_dict({"network": dd})
            return lambda: rdnetwork_from_dict(dd)
        valid = [["e0"], ["e0", "e1", "e2"]]
        if which == "empty-environments":
            bad = [[]] if route not in ("ctor", "setter") else [[], ()]
        else:
            bad = []
            for ln in (1, 2, 3):
                for pos in range(ln):
                    e = ["e%d" % i for i in range(ln)]
                    e[pos] = "default"
                    bad.append(e)
            if route in ("ctor", "setter"):
                bad.append(("e0", "default"))
        run(valid, bad, mk, lambda e: "%s with environments=%r" % (route, e))
    else:
        raise ValueError(which)
    return True


ENUM_ROUTES = {
    "boundary-condition": ("ctor", "set_boundary_conditions", "rdgridspace_from_dict", "rdspace_from_dict",
                           "rdsystem_from_dict"),
    "axis": ("ctor", "set_boundary_conditions", "rdgridspace_from_dict", "rdspace_from_dict", "rdsystem_from_dict"),
    "sampling-policy": ("ctor", "setter", "rdscript_from_dict", "rdscript_from_dict-alias"),
    "init-state-processing": ("ctor", "setter", "rdscript_from_dict"),
    "empty-environments": ("ctor", "setter", "rdnetwork_from_dict", "rdnetwork_from_dict-alias", "rdsystem_from_dict"),
    "default-environment": ("ctor", "setter", "rdnetwork_from_dict", "rdnetwork_from_dict-alias",
                            "rdsystem_from_dict"),
}


# =====================================================================================================
# class 7 + 8: species and positions through every accessor
# =====================================================================================================

NSAMPLES = 3
WRITE_VALUE = 12345.0


def _model(spec, nsp):
    """System (explicit prime state, all chemostat flags 0) + trajectory over it."""
    net = _net(nsp, 2)
    space = _space(spec)
    s = _explicit_system(net, space)
    nst = s.state_size()
    data = UnitArray([float(p) for p in _primes(NSAMPLES * nst)], "molecule")
    tr = RDTrajectory(data=data, t_sample=UnitArray([0.0, 1.0, 2.0], "s"), system=s)
    return s, tr


def _valid_pair(space):
    """(c, neighbour of c) or None."""
    for c in range(space.size()):
        j = _neighbor(space, c)
        if j is not None:
            return c, j
    return None


# name -> (takes species, takes position, mutates)
ACCESSORS = {
    "RDSystem.get_cell_index": (False, True, False),
    "RDSystem.get_state_index": (True, True, False),
    "RDSystem.get_state": (True, True, False),
    "RDSystem.set_state": (True, True, True),
    "RDSystem.get_chemostat": (True, True, False),
    "RDSystem.set_chemostat": (True, True, True),
    "RDSystem.apply_reaction": (False, True, False),
    "RDSystem.apply_reaction(update=True)": (False, True, True),
    "RDGridSpace.get_cell_vol": (False, True, False),
    "RDGraphSpace.get_cell_index": (False, True, False),
    "RDGraphSpace.get_cell_vol": (False, True, False),
    "RDGraphSpace.get_cell_env": (False, True, False),
    "RDGraphSpace.are_neighbors:position1": (False, True, False),
    "RDGraphSpace.are_neighbors:position2": (False, True, False),
    "RDGraphSpace.get_neighbors": (False, True, False),
    "kinetics.compute_reaction_rates": (False, True, False),
    "kinetics.compute_diffusion_rates:src_position": (True, True, False),
    "kinetics.compute_diffusion_rates:dst_position": (True, True, False),
    "kinetics.compute_dspeciesdt": (True, True, False),
    "RDTrajectory.get_trajectory": (True, True, False),
    "RDTrajectory.get_trajectory_point": (True, True, False),
    "RDTrajectory.get_state": (True, False, False),
    "RDNetwork.get_species_index": (True, False, False),
}
GRID_ONLY = ("RDGridSpace.get_cell_vol",)
GRAPH_ONLY = tuple(k for k in ACCESSORS if k.startswith("RDGraphSpace."))


def _accessor(api, s, tr, other):
    """f(species, position) performing the call; `other` = a valid cell used as the second cell where needed."""
    sp_ = s.space
    if api == "RDSystem.get_cell_index":
        return lambda sp, p: s.get_cell_index(p)
    if api == "RDSystem.get_state_index":
        return lambda sp, p: s.get_state_index(sp, p)
    if api == "RDSystem.get_state":
        return lambda sp, p: s.get_state(sp, p)
    if api == "RDSystem.set_state":
        return lambda sp, p: s.set_state(sp, p, WRITE_VALUE)
    if api == "RDSystem.get_chemostat":
        return lambda sp, p: s.get_chemostat(sp, p)
    if api == "RDSystem.set_chemostat":
        return lambda sp, p: s.set_chemostat(sp, p, 1)
    if api == "RDSystem.apply_reaction":
        return lambda sp, p: s.apply_reaction("r0", position=p, n=3)
    if api == "RDSystem.apply_reaction(update=True)":
        return lambda sp, p: s.apply_reaction("r0", position=p, n=3, update=True)
    if api in ("RDGridSpace.get_cell_vol", "RDGraphSpace.get_cell_vol"):
        return lambda sp, p: sp_.get_cell_vol(p)
    if api == "RDGraphSpace.get_cell_index":
        return lambda sp, p: sp_.get_cell_index(p)
    if api == "RDGraphSpace.get_cell_env":
        return lambda sp, p: sp_.get_cell_env(p)
    if api == "RDGraphSpace.are_neighbors:position1":
        return lambda sp, p: sp_.are_neighbors(p, other)
    if api == "RDGraphSpace.are_neighbors:position2":
        return lambda sp, p: sp_.are_neighbors(other, p)
    if api == "RDGraphSpace.get_neighbors":
        return lambda sp, p: sp_.get_neighbors(p)
    if api == "kinetics.compute_reaction_rates":
        return lambda sp, p: kinetics.compute_reaction_rates(s, "r0", p)
    if api == "kinetics.compute_diffusion_rates:src_position":
        return lambda sp, p: kinetics.compute_diffusion_rates(s, sp, p, other)
    if api == "kinetics.compute_diffusion_rates:dst_position":
        return lambda sp, p: kinetics.compute_diffusion_rates(s, sp, other, p)
    if api == "kinetics.compute_dspeciesdt":
        return lambda sp, p: kinetics.compute_dspeciesdt(s, sp, p)
    if api == "RDTrajectory.get_trajectory":
        return lambda sp, p: tr.get_trajectory(sp, p)
    if api == "RDTrajectory.get_trajectory_point":
        return lambda sp, p: tr.get_trajectory_point(sp, 1, p)
    if api == "RDTrajectory.get_state":
        return lambda sp, p: tr.get_state(sp, 1)
    if api == "RDNetwork.get_species_index":
        def f(sp, p):
            r = s.network.get_species_index(sp)
            if r is None:        # documented answer for "no index can be found"
                raise LookupError("None returned (documented)")
            return r
        return f
    raise ValueError(api)


def _mk_pos(pj):
    form, v = pj["form"], pj["v"]
    if form == "linear":
        return int(v)
    if form == "float":
        return float(v)
    if form == "npint":
        return np.int64(v)
    if form == "tuple":
        return tuple(v)
    if form == "list":
        return list(v)
    if form == "ndarray":
        return np.array(v, dtype=int)
    if form == "object":
        return Coord(*v)
    raise ValueError(form)


def _bad_positions(spec, nsp, tier):
    """[(detail, position json)] of every out-of-range position of the stated window."""
    n = _space_size(spec)
    hi = 2 * n * nsp if tier == "thorough" else 2 * n
    out = []
    for i in range(-n, 0):
        out.append(("linear-negative", {"form": "linear", "v": i}))
    for i in range(n, hi + 1):
        out.append(("linear-too-large", {"form": "linear", "v": i}))
    for i in (-1, -n):
        out.append(("linear-negative", {"form": "float", "v": i}))
        out.append(("linear-negative", {"form": "npint", "v": i}))
    for i in (n, n * nsp):
        out.append(("linear-too-large", {"form": "float", "v": i}))
        out.append(("linear-too-large", {"form": "npint", "v": i}))
    if spec["type"] == "grid":
        w, h, d = spec["w"], spec["h"], spec["d"]
        dims = (w, h, d)
        for z in range(d):
            for y in range(h):
                for x in range(w):
                    for k in range(3):
                        for bad in (-1, dims[k]):
                            q = [x, y, z]
                            q[k] = bad
                            for form in ("tuple", "list", "object", "ndarray"):
                                out.append(("coordinates", {"form": form, "v": list(q)}))
    seen, uniq = [], []
    for det, pj in out:
        k = (pj["form"], tuple(pj["v"]) if isinstance(pj["v"], list) else pj["v"])
        if k in seen:
            continue
        seen.append(k)
        uniq.append((det, pj))
    return uniq


def _applicable(api, spec):
    if api in GRID_ONLY:
        return spec["type"] == "grid"
    if api in GRAPH_ONLY:
        return spec["type"] == "graph"
    return True


def _restore(s, snap):
    """Puts the raw arrays back through the public setters (after a VALID mutating call)."""
    s.state = UnitArray(list(snap[0]), snap[1])
    s.chemostats = list(snap[2])


def _pos_history(spec, nsp, api, bads, out):
    """Process history across objects: every non-negative position that is outside THIS space is a valid position
    of a larger space of the same kind, and is used there first (same API where that is cheap, else
    get_cell_index / get_state).  Not an oracle - only history."""
    hi = 0
    for _det, pj in bads:
        if not isinstance(pj["v"], list):
            hi = max(hi, int(pj["v"]))
    if spec["type"] == "grid":
        big_l = {"type": "grid", "w": hi + 1, "h": 1, "d": 1, "per": spec.get("per", 0)}
        big_c = {"type": "grid", "w": spec["w"] + 1, "h": spec["h"] + 1, "d": spec["d"] + 1, "per": spec.get("per", 0)}
    else:
        big_l = {"type": "graph", "n": hi + 1}
        big_c = None
    models = {}
    cheap = not api.startswith("kinetics.")
    for _det, pj in bads:
        v = pj["v"]
        if (min(v) if isinstance(v, list) else v) < 0:
            continue
        bspec = big_c if isinstance(v, list) else big_l
        if bspec is None:
            continue
        k = "c" if isinstance(v, list) else "l"
        if k not in models:
            bs, btr = _model(bspec, nsp)
            models[k] = (bs, _accessor(api, bs, btr, 0) if cheap else None)
        bs, bf = models[k]
        p = _mk_pos(pj)
        try:
            bs.space.get_cell_index(p)
            bs.get_state(0, p)
            if bf is not None:
                bf(0, p)
        except Exception:
            out.count("history_calls_raised:position")
        out.count("history_calls:position")


def _pos(case, out):
    spec, api, nsp = case["space"], case["api"], case["nsp"]
    tier = case.get("tier", "quick")
    only = case.get("only")
    takes_sp, _tp, mutates = ACCESSORS[api]
    s, tr = _model(spec, nsp)
    n = s.space.size()
    kind = spec["type"]
    pair = _valid_pair(s.space)
    # valid counterpart
    species_list = list(range(nsp)) if takes_sp else [None]
    if "diffusion" in api:
        if pair is not None:
            f0 = _accessor(api, s, tr, pair[1])
            accept(out, "position", "%s:position:%s:%s" % (P, api, kind),
                   "%s(species 0, cell %d, neighbour %d) on a %s" % (api, pair[0], pair[1], _space_tag(spec)),
                   lambda: f0(0, pair[0]))
    else:
        s0, tr0 = _model(spec, nsp)
        f0 = _accessor(api, s0, tr0, 0)
        for p in sorted(set([0, n - 1])):
            accept(out, "position", "%s:position:%s:%s" % (P, api, kind),
                   "%s(position %d) on a %s" % (api, p, _space_tag(spec)),
                   lambda: f0(species_list[-1], p))
    other = 0
    f = _accessor(api, s, tr, other)
    start = _snap(s)
    bads = _bad_positions(spec, nsp, tier)
    _pos_history(spec, nsp, api, bads, out)
    if "diffusion" in api:
        fp = _accessor(api, s, tr, pair[1]) if pair is not None else None
        valid = (lambda: fp(0, pair[0])) if pair is not None else None
    else:
        st = {"k": 0}

        def valid():
            c = st["k"] % n
            st["k"] += 1
            return f(species_list[c % len(species_list)], c)
    inter = Interleave(out, "position", "%s:position:%s:%s" % (P, api, kind),
                       "%s at a valid position of the same %s" % (api, _space_tag(spec)), valid, every=32,
                       after=(lambda r: _restore(s, start)) if mutates else None)
    for det, pj in bads:
        for sp in species_list:
            item = {"p": pj, "sp": sp}
            if not _selected(only, item):
                continue
            inter.tick()
            p = _mk_pos(pj)
            desc = "%s(%sposition=%s) on a %s with %d species" % (
                api, ("species=%r, " % sp) if takes_sp else "", _show(p), _space_tag(spec), nsp)
            reject(out, "position", "%s:position:%s:%s:%s" % (P, api, kind, det), desc,
                   lambda: f(sp, p), item, s if (mutates or only is not None) else None)
    # one final snapshot comparison for the read-only accessors (all their calls share the system)
    out.evals += 1
    if not mutates and _snap(s) != start:
        out.add("%s:position:%s:%s:state-changed" % (P, api, kind),
                "the system's state / chemostats changed during the rejected calls of a read-only accessor")
    return n >= 2


BAD_LABELS = ["Z", "", "a", "A ", "AB"]


def _bad_species(nsp):
    out = []
    for lab in BAD_LABELS:
        out.append(("unknown-label", {"kind": "label", "v": lab}))
    for i in (nsp, nsp + 1, 2 * nsp):
        out.append(("index-too-large", {"kind": "index", "v": i}))
    for i in (-1, -nsp, -nsp - 1):
        out.append(("index-negative", {"kind": "index", "v": i}))
    out.append(("index-too-large", {"kind": "float", "v": nsp}))
    out.append(("index-negative", {"kind": "float", "v": -1}))
    out.append(("index-too-large", {"kind": "npint", "v": nsp}))
    out.append(("index-negative", {"kind": "npint", "v": -1}))
    for lab in ("Z", "a"):
        out.append(("foreign-object", {"kind": "object", "v": lab}))
    seen, uniq = [], []
    for det, sj in out:
        k = (sj["kind"], sj["v"])
        if k not in seen:
            seen.append(k)
            uniq.append((det, sj))
    return uniq


def _mk_species(sj):
    kind, v = sj["kind"], sj["v"]
    if kind == "label":
        return v
    if kind == "index":
        return int(v)
    if kind == "float":
        return float(v)
    if kind == "npint":
        return np.int64(v)
    if kind == "object":
        return Species(v, D=1, density=1)
    raise ValueError(kind)


def _species(case, out):
    spec, api, nsp = case["space"], case["api"], case["nsp"]
    only = case.get("only")
    _ts, takes_pos, mutates = ACCESSORS[api]
    s, tr = _model(spec, nsp)
    n = s.space.size()
    kind = spec["type"]
    pair = _valid_pair(s.space)
    key0 = "%s:species:%s" % (P, api)
    if "diffusion" in api:
        if pair is None:
            out.count("species_api_not_applicable")
            return False
        cells = [pair[0]]
        f = _accessor(api, s, tr, pair[1])
    else:
        cells = list(range(n)) if takes_pos else [0]
        f = _accessor(api, s, tr, 0)
    # valid counterparts: every species by index, label and own object
    s0, tr0 = _model(spec, nsp)
    f0 = _accessor(api, s0, tr0, pair[1] if ("diffusion" in api and pair) else 0)
    for i in range(nsp):
        lab = s0.network.species[i].label
        for val in (i, lab, s0.network.species[i]):
            accept(out, "species", key0, "%s(species=%s) on a %s" % (api, _show(val), _space_tag(spec)),
                   lambda: f0(val, cells[0]))
    # process history across objects: the labels / indices unknown HERE are known in a larger network, used first
    try:
        other = RDNetwork([Species(lab) for lab in ["A", "B", "C", "Z", "a", "AB", "X6", "X7", "X8", "X9"]], [],
                          environments=["e0", "e1"])
        osys = RDSystem(other, _space(spec))
        for _det, sj in _bad_species(nsp):
            try:
                v = _mk_species(sj)
                other.get_species_index(v)
                osys.get_state(v, 0)
                osys.get_chemostat(v, 0)
            except Exception:
                pass
            out.count("history_calls:species")
    except Exception:
        out.count("history_unavailable:species")
    start = _snap(s)
    st = {"k": 0}

    def valid():
        k = st["k"]
        st["k"] += 1
        i = k % nsp
        val = (i, s.network.species[i].label, s.network.species[i])[(k // nsp) % 3]
        return f(val, cells[k % len(cells)])
    inter = Interleave(out, "species", key0, "%s with a valid species of the same system" % api, valid, every=16,
                       after=(lambda r: _restore(s, start)) if mutates else None)
    for det, sj in _bad_species(nsp):
        for c in cells:
            item = {"sp": sj, "cell": c}
            if not _selected(only, item):
                continue
            inter.tick()
            sp = _mk_species(sj)
            desc = "%s(species=%s%s) on a %s with species %r" % (
                api, _show(sp), (", position=%d" % c) if takes_pos else "", _space_tag(spec),
                s.network.species_labels())
            reject(out, "species", "%s:%s" % (key0, det), desc, lambda: f(sp, c), item, s)
    return True


def _bad_reactions(nr):
    return [("unknown-label", "nope"), ("unknown-label", ""), ("unknown-label", "R0"), ("unknown-label", "r0 "),
            ("index-too-large", nr), ("index-too-large", nr + 1), ("index-negative", -1), ("index-negative", -nr),
            ("index-too-large", float(nr)), ("index-negative", -1.0)]


REACTION_APIS = ("kinetics.compute_reaction_rates", "RDSystem.apply_reaction", "RDSystem.apply_reaction(update=True)")


def _reaction(case, out):
    spec, api, nsp = case["space"], case["api"], case["nsp"]
    only = case.get("only")
    s, tr = _model(spec, nsp)
    nr = s.network.nreactions()
    key0 = "%s:reaction:%s" % (P, api)

    def call(sys_, r, c):
        if api == "kinetics.compute_reaction_rates":
            return kinetics.compute_reaction_rates(sys_, r, c)
        return sys_.apply_reaction(r, position=c, update=api.endswith("(update=True)"))
    s0, _ = _model(spec, nsp)
    for val in list(range(nr)) + [r.label for r in s0.network.reactions]:
        accept(out, "reaction", key0, "%s(reaction=%r)" % (api, val), lambda: call(s0, val, 0))
    start = _snap(s)
    st = {"k": 0}

    def valid():
        k = st["k"]
        st["k"] += 1
        vals = list(range(nr)) + [x.label for x in s.network.reactions]
        return call(s, vals[k % len(vals)], k % s.space.size())
    inter = Interleave(out, "reaction", key0, "%s with a valid reaction of the same system" % api, valid, every=16,
                       after=(lambda r: _restore(s, start)) if api.endswith("(update=True)") else None)
    for det, r in _bad_reactions(nr):
        for c in range(s.space.size()):
            item = {"r": r, "cell": c}
            if not _selected(only, item):
                continue
            inter.tick()
            reject(out, "reaction", "%s:%s" % (key0, det),
                   "%s(reaction=%r, position=%d) on a %s with reactions %r"
                   % (api, r, c, _space_tag(spec), [x.label for x in s.network.reactions]),
                   lambda: call(s, r, c), item, s)
    return True


# =====================================================================================================
# class 9: coarse-graining maps
# =====================================================================================================

CG_VALUES = (-2, -1, 0, 1, 2)


def _cg_maps(n):
    out = [[]]
    for _ in range(n):
        out = [m + [v] for m in out for v in CG_VALUES]
    return out


def _cg_extra(n):
    """Invalid maps outside the integer enumeration: non-integral floats, wrong lengths."""
    ident = list(range(n))
    out = []
    for i in range(n):
        for bad in (0.5, 1.5):
            m = list(ident)
            m[i] = bad
            out.append(("non-integer", m))
    out.append(("wrong-length", ident[:-1]))
    out.append(("wrong-length", ident + [0]))
    out.append(("wrong-length", ident + ident))
    if n > 1:
        out.append(("wrong-length", []))
    return out


def _cg_system(case):
    w, h = case["w"], case["h"]
    n = w * h
    env = list(case["env"])
    nenv = max(env) + 1
    net = _net(2, max(nenv, 1))
    g = RDGridSpace(w=w, h=h, d=1, cell_env=env, cell_vol=8)
    chem = [0] * (2 * n)
    chem[n] = 1
    return RDSystem(net, g, state=[float(p) for p in _primes(2 * n)], chemostats=chem)


def _cgmap(case, out):
    w, h, route = case["w"], case["h"], case["route"]
    n = w * h
    env = list(case["env"])
    only = case.get("only")
    s = _cg_system(case)

    def attempt(m):
        if route == "coarsegrain_system":
            return lambda: coarsegrain_system(s, m)
        sc = RDScript(s, [0, 0.002], time_step=0.001, rng_seed=1)
        return lambda: simulate_script(sc, eng.make_engine("euler"), cgmap=m)
    key0 = "%s:cgmap:%s" % (P, route)
    # valid counterparts: identity and all-in-one-group-per-environment
    valid = [list(range(n))]
    groups = []
    for e in env:
        if e not in groups:
            groups.append(e)
    valid.append([groups.index(e) for e in env])
    for m in valid:
        if CG.classify(m, n, env) is None:
            accept(out, "cgmap", key0, "%s on %dx%d env %r with the valid map %r" % (route, w, h, env, m), attempt(m))
    cands = [(CG.classify(m, n, env), m) for m in _cg_maps(n)]
    cands = [(c, m) for c, m in cands if c is not None] + [(c, m) for c, m in _cg_extra(n)]
    nvalid = len(CG_VALUES) ** n - (len(cands) - len(_cg_extra(n)))
    out.count("cg_maps_valid_skipped", nvalid)
    # process history across objects: a map that mixes environments HERE is valid on the same grid with one
    # environment, and is used there first
    if route == "coarsegrain_system" and len(set(env)) > 1:
        hs = _cg_system(dict(case, env=[0] * n))
        for cls, m in cands:
            if cls == "mixed-environments":
                try:
                    coarsegrain_system(hs, m)
                except Exception:
                    out.count("history_calls_raised:cgmap")
                out.count("history_calls:cgmap")
    vmaps = [m for m in valid if CG.classify(m, n, env) is None]
    st = {"k": 0}

    def replay_valid():
        m = vmaps[st["k"] % len(vmaps)]
        st["k"] += 1
        return attempt(m)()
    inter = Interleave(out, "cgmap", key0, "%s on %dx%d env %r with a valid map" % (route, w, h, env), replay_valid,
                       every=64)
    for cls, m in cands:
        if not _selected(only, m):
            continue
        inter.tick()
        reject(out, "cgmap", "%s:%s" % (key0, cls),
               "%s on a %dx%dx1 grid (environments %r) with the invalid map %r (%s)" % (route, w, h, env, m, cls),
               attempt(m), m, s)
    return True


# ---- coarse-graining a grid that has a periodical axis ("must not have periodical boundary conditions") -------------

CGP_SHAPES = ((4, 1, 1), (2, 2, 1), (3, 2, 2))
CGP_ROUTES = ("coarsegrain_grid", "coarsegrain_system", "simulate_script", "simulate")


def _cgp_maps(n):
    """Valid maps on a one-environment grid of n cells: identity, pairs lumped, identity with cell 0 dropped,
    everything in one group, last cell dropped from the lumping."""
    out = [("identity", list(range(n))), ("lumping", [i // 2 for i in range(n)]),
           ("dropped-cell", [-1] + list(range(n - 1))), ("one-group", [0] * n),
           ("lumping-dropped", [i // 2 for i in range(n - 1)] + [-1])]
    return [(tag, m) for tag, m in out if CG.classify(m, n, [0] * n) is None]


def _cgperiodic(case, out):
    w, h, d = case["shape"]
    route = case["route"]
    only = case.get("only")
    n = w * h * d
    net = _net(2, 1)

    def system(bc):
        g = RDGridSpace(w=w, h=h, d=d, cell_env=0, cell_vol=8, boundary_conditions=dict(bc))
        return RDSystem(net, g, state=[float(p) for p in _primes(2 * n)], chemostats=[0] * (2 * n))

    def attempt(s, m):
        if route == "coarsegrain_grid":
            return lambda: coarsegrain_grid(s.space, m)
        if route == "coarsegrain_system":
            return lambda: coarsegrain_system(s, m)
        if route == "simulate_script":
            sc = RDScript(s, [0, 0.002], time_step=0.001, rng_seed=1)
            return lambda: simulate_script(sc, eng.make_engine("euler"), cgmap=m)
        return lambda: simulate(s, [0, 0.002], engine=eng.make_engine("euler"), cgmap=m, time_step=0.001, rng_seed=1)
    key = "%s:cg-periodic-grid:%s" % (P, route)
    maps = _cgp_maps(n)
    refl = system({})
    for tag, m in maps:
        accept(out, "cg-periodic-grid", key, "%s on a reflecting %dx%dx%d grid with the valid map %r" % (route, w, h, d, m),
               attempt(refl, m))
    k = 0
    for mask in range(1, 8):
        bc = {a: ("periodical" if mask & (1 << i) else "reflecting") for i, a in enumerate("xyz")}
        for explicit in (True, False):
            bcd = bc if explicit else {a: v for a, v in bc.items() if v == "periodical"}
            s = system(bcd)
            for tag, m in maps:
                item = {"bc": bcd, "map": m}
                if not _selected(only, item):
                    continue
                if k % 8 == 0:
                    accept(out, "cg-periodic-grid", key, "%s on a reflecting %dx%dx%d grid with the valid map %r "
                           "(replayed between invalid inputs)" % (route, w, h, d, m), attempt(refl, m))
                k += 1
                reject(out, "cg-periodic-grid", key,
                       "%s of a %dx%dx%d grid with boundary_conditions=%r and the (otherwise valid, %s) map %r"
                       % (route, w, h, d, bcd, tag, m), attempt(s, m), item, s)
    return True


# ---- unknown species inside the reactions of a network ------------------------------------------------------------

# (name, side, substrate terms, product terms); a term is (coefficient, label); "U" / "V" = the unknown label(s)
RX_TEMPLATES = [
    ("only", "substrate", [(1, "U")], [(1, "B")]),
    ("first", "substrate", [(1, "U"), (1, "A")], [(1, "B")]),
    ("second", "substrate", [(1, "A"), (1, "U")], [(1, "B")]),
    ("coefficient", "substrate", [(2, "U"), (1, "A")], [(1, "B")]),
    ("empty-other-side", "substrate", [(1, "U")], []),
    ("only", "product", [(1, "A")], [(1, "U")]),
    ("first", "product", [(1, "A")], [(1, "U"), (1, "B")]),
    ("second", "product", [(1, "A")], [(1, "B"), (1, "U")]),
    ("coefficient", "product", [(1, "A")], [(1, "B"), (2, "U")]),
    ("empty-other-side", "product", [], [(1, "U")]),
    ("only", "both", [(1, "U")], [(1, "U")]),
    ("first", "both", [(1, "U"), (1, "A")], [(1, "U"), (1, "B")]),
    ("second", "both", [(1, "A"), (1, "U")], [(1, "B"), (1, "U")]),
    ("two-unknowns", "both", [(1, "U")], [(1, "V")]),
]
RX_UNKNOWN = [("C", "D"), ("a", "b"), ("AB", "BA"), ("Z", "z"), ("A2", "B2")]     # declared species: A, B
RX_ROUTES = ("RDNetwork", "rdnetwork_from_dict", "rdsystem_from_dict", "rdscript_from_dict", "load_rdnetwork(json)",
             "load_rdsystem(json)", "load_rdscript(json)")
RX_SLOTS = ("alone", "first-of-two", "second-of-two")


def _rx_stoichiometry(form, subs, prods, u, v):
    def lab(x):
        return {"U": u, "V": v}.get(x, x)
    if form == "string":
        def side(terms):
            return " + ".join((lab(x) if c == 1 else "%d %s" % (c, lab(x))) for c, x in terms)
        return side(subs) + " -> " + side(prods)
    return [{lab(x): c for c, x in subs}, {lab(x): c for c, x in prods}]


def _rx_attempt(route, sto_list):
    """sto_list: stoichiometries (string or [dict, dict]) of the network's reactions, in order."""
    if route == "RDNetwork":
        return lambda: RDNetwork([Species("A", density=1), Species("B", density=2)],
                                 [Reaction(st, kf=0, kr=0) for st in sto_list])
    nd = {"species": [{"label": "A", "density": 1}, {"label": "B", "density": 2}],
          "reactions": [{"eq": st} for st in sto_list]}
    sd = {"network": nd, "space": {"w": 2}}
    cd = {"system": sd, "t_sample": [0, 1]}
    if route == "rdnetwork_from_dict":
        return lambda: rdnetwork_from_dict(nd)
    if route == "rdsystem_from_dict":
        return lambda: rdsystem_from_dict(sd)
    if route == "rdscript_from_dict":
        return lambda: rdscript_from_dict(cd)
    if route == "load_rdnetwork(json)":
        return lambda: _via_json(load_rdnetwork, nd)
    if route == "load_rdsystem(json)":
        return lambda: _via_json(load_rdsystem, sd)
    if route == "load_rdscript(json)":
        return lambda: _via_json(load_rdscript, cd)
    raise ValueError(route)


def _rxspecies(case, out):
    route, form = case["route"], case["form"]
    only = case.get("only")
    other = "A -> B" if form == "string" else [{"A": 1}, {"B": 1}]
    key0 = "%s:reaction-species:%s" % (P, route)

    def reactions(slot, st):
        return {"alone": [st], "first-of-two": [st, other], "second-of-two": [other, st]}[slot]
    if form == "dict" and route != "RDNetwork":
        # a [substrates, products] pair inside a reaction DICTIONARY is accepted by the code but documented only for
        # the Reaction constructor: if the valid form stops working there, nothing is claimed for this route
        try:
            _rx_attempt(route, [other])()
        except Exception:
            out.count("route_unavailable_not_claimed:reaction-dict-stoichiometry")
            return False
    k = 0
    for name, side, subs, prods in RX_TEMPLATES:
        # valid counterpart: the same shape over declared species only
        good = _rx_stoichiometry(form, subs, prods, "B", "A")
        for slot in RX_SLOTS:
            accept(out, "reaction-species", key0, "%s with reactions %r (species A, B)" % (route, reactions(slot, good)),
                   _rx_attempt(route, reactions(slot, good)))
        for u, v in RX_UNKNOWN:
            st = _rx_stoichiometry(form, subs, prods, u, v)
            for slot in RX_SLOTS:
                item = {"template": name, "side": side, "u": u, "slot": slot}
                if not _selected(only, item):
                    continue
                if k % 8 == 0:
                    accept(out, "reaction-species", key0, "%s with reactions %r (replayed between invalid inputs)"
                           % (route, reactions(slot, good)), _rx_attempt(route, reactions(slot, good)))
                k += 1
                reject(out, "reaction-species", "%s:%s:%s" % (key0, side, form),
                       "%s (declared species A, B) with reactions %r: undeclared species on the %s side (%s, %s)"
                       % (route, reactions(slot, st), side, name, slot), _rx_attempt(route, reactions(slot, st)), item)
    return True


# ---- mandatory keys, systematically (minimal and complete dictionaries, nested and file routes) ---------------------

# every spelling under which a mandatory key may be present (all are removed together)
MAND_SPELLINGS = {("script", "system"): ["system"], ("script", "t_sample"): ["t_sample"],
                  ("system", "network"): ["network", "rdnetwork"], ("network", "species"): ["species"],
                  ("species", "label"): ["label", "l"],
                  ("reaction", "eq"): ["eq", "sto", "equation", "stoichiometry", "stoechiometry"],
                  ("unitarray", "value"): ["value"], ("unitarray", "units"): ["units"]}
MAND_LOADERS = {"script": load_rdscript, "system": load_rdsystem, "network": load_rdnetwork}


def _mand_base(name):
    """A script dictionary; the other kinds are taken from inside it."""
    if name == "bare":
        return {"system": {"network": {"species": [{"label": "A"}]}}, "t_sample": [0, 1]}
    if name == "minimal":
        return {"system": {"network": {"species": [{"label": "A"}, {"l": "B"}], "reactions": [{"eq": "A -> B"}]},
                           "state": {"value": [1.0, 2.0], "units": "molecule"}},
                "t_sample": {"value": [0.0, 1.0], "units": "s"}}
    if name == "minimal-aliases":
        return {"system": {"rdnetwork": {"species": [{"l": "A"}, {"label": "B"}], "reactions": [{"sto": "A -> B"},
                                                                                                {"equation": "B -> A"}],
                                         "env": ["cyt", "mem"]}},
                "t_sample": [0, 1]}
    if name == "complete-grid":
        return d_script("grid")
    if name == "complete-graph":
        return d_script("graph")
    raise ValueError(name)


MAND_BASES = ("bare", "minimal", "minimal-aliases", "complete-grid", "complete-graph")
MAND_TOPS = ("script", "system", "network", "species", "reaction", "unitarray")


def _mand_extract(base, top):
    """The dictionary of kind `top` inside the script dictionary (None if there is none)."""
    sysd = base["system"]
    netd = sysd.get("network", sysd.get("rdnetwork"))
    if top == "script":
        return base
    if top == "system":
        return sysd
    if top == "network":
        return netd
    if top == "species":
        return netd["species"][-1]
    if top == "reaction":
        return netd["reactions"][0] if netd.get("reactions") else None
    if top == "unitarray":
        return base["t_sample"] if isinstance(base["t_sample"], dict) else None
    raise ValueError(top)


def _mand_sites(reader, d, path=()):
    """Like _sites, following the alias spellings of the nesting keys as well."""
    out = [(list(path), reader)]
    for names, child in {"script": [(["system"], "system"), (["t_sample"], "unitarray")],
                         "system": [(["network", "rdnetwork"], "network"), (["state"], "unitarray")],
                         "network": [(["species"], "[species]"), (["reactions"], "[reaction]")]}.get(reader, []):
        for key in names:
            if key not in d:
                continue
            v = d[key]
            if child.startswith("["):
                for i, x in enumerate(v):
                    if isinstance(x, dict):
                        out.extend(_mand_sites(child[1:-1], x, path + (key, i)))
            elif isinstance(v, dict):
                out.extend(_mand_sites(child, v, path + (key,)))
    return out


def _mandatory(case, out):
    base_name, top, route = case["base"], case["top"], case["route"]
    only = case.get("only")
    d0 = _mand_extract(_mand_base(base_name), top)
    if d0 is None:
        return False

    def call(d):
        if route == "from_dict":
            return READERS[top](d)
        return _via_json(MAND_LOADERS[top], d)
    rname = "%s_from_dict" % top if route == "from_dict" else "load_rd%s(json file)" % top
    if accept(out, "missing-key", "%s:mandatory:%s:%s" % (P, top, base_name),
              "%s(%r)" % (rname, d0), lambda: call(copy.deepcopy(d0))) is None:
        return False
    k = 0
    for path, site in _mand_sites(top, d0):
        node0 = _node(d0, path)
        for key in MANDATORY.get(site, []):
            spellings = MAND_SPELLINGS[(site, key)]
            if not any(sp in node0 for sp in spellings):
                continue
            variants = [("", lambda nd: None)]
            if (site, key) == ("network", "species"):
                # the species list is what the reactions refer to: also without / with an empty reaction list
                variants.append(("no-reactions", lambda nd: nd.pop("reactions", None)))
                variants.append(("empty-reactions", lambda nd: nd.__setitem__("reactions", [])))
            for vname, extra in variants:
                item = {"path": path, "key": key, "variant": vname}
                if not _selected(only, item):
                    continue
                if k % 4 == 0:
                    accept(out, "missing-key", "%s:mandatory:%s:%s" % (P, top, base_name),
                           "%s(valid dictionary, replayed between invalid inputs)" % rname,
                           lambda: call(copy.deepcopy(d0)))
                k += 1
                d = copy.deepcopy(d0)
                nd = _node(d, path)
                for sp in spellings:
                    nd.pop(sp, None)
                extra(nd)
                where = "/".join(str(p) for p in path) or "(top level)"
                reject(out, "missing-key", "%s:missing-key:%s:%s" % (P, site, key),
                       "%s of the %s dictionary %r, i.e. without the mandatory key %r of the %s dictionary at %s%s"
                       % (rname, base_name, d, key, site, where, (" (%s)" % vname) if vname else ""),
                       lambda: call(d), item)
    return True


# ---- enumerated / typed VALUES of dictionary fields, every route (direct, nested inline, nested as a file) ------------

NONSTR = [3, None, True, ["x"]]


def _dv_fields(space):
    """[(field name, path of the dictionary that holds it, key, valid values, bad values)] on d_script(space).
    ABSENT = the key is removed (valid for optional keys)."""
    sp = ["system", "space"]
    out = []
    if space == "grid":
        out.append(("space.type", sp, "type", ["grid", ABSENT],
                    ["Grid", "GRID", "gird", "grids", "torus", "periodic", "reflecting", "", "space", 3, 0, None, True,
                     ["grid"]]))
        for a in "xyz":
            out.append(("grid.boundary_conditions." + a, sp + ["boundary_conditions"], a,
                        ["periodical", "reflecting"], BAD_BC + [3, None, True, ["periodical"]]))
        out.append(("grid.boundary_conditions", sp, "boundary_conditions", [{"y": "periodical"}, {}, ABSENT],
                    ["periodical", "reflecting", "", 3, True, ["x"], [["x", "periodical"]]]))
    else:
        out.append(("space.type", sp, "type", ["graph"],
                    ["Graph", "GRAPH", "grpah", "graphs", "network", "", 3, None, True, ["graph"]]))
    out.append(("script.sampling_policy", [], "sampling_policy",
                ["on_t_sample", "on_iteration", "on_interval", "no_sampling", ABSENT], BAD_POLICY + NONSTR))
    out.append(("script.init_state_processing", [], "init_state_processing",
                ["auto", "none", "Poisson", "redist", ABSENT], BAD_ISP + NONSTR))
    out.append(("script.t_max", [], "t_max", ["default", 1, "1 s", ABSENT],
                ["Default", "DEFAULT", "defualt", "max", "auto", "", None, ["default"]]))
    out.append(("script.system", [], "system", [], [3, None, True, [], 2.5]))
    out.append(("system.network", ["system"], "network", [], [3, None, True, [], 2.5]))
    out.append(("system.space", ["system"], "space", [None, ABSENT], [3, True, [], 2.5]))
    bad_units = ["Default", "DEFAULT", "Inherit", "inherited", "defualt", "", "si", "SI", "µm", "none", 3, None, True,
                 ["default"]]
    for path, site in _sites("script", d_script(space)):
        if site in GROUPS and UNITS_G in GROUPS[site]:
            out.append(("units@" + site, path, "units", ["default", "inherit", USD(), ABSENT], bad_units))
    return out


ABSENT = "<absent>"
DV_KIND = {(): "script", ("system",): "system", ("system", "network"): "network", ("system", "space"): "space"}
DV_LOADERS = {"script": load_rdscript, "system": load_rdsystem, "network": load_rdnetwork, "space": load_rdspace}
DV_EXTERNAL = (("system",), ("system", "network"), ("system", "space"))


def _dv_kind(path):
    path = tuple(path)
    if path in DV_KIND:
        return DV_KIND[path]
    if len(path) == 4 and path[:3] == ("system", "network", "species"):
        return "species"
    if len(path) == 4 and path[:3] == ("system", "network", "reactions"):
        return "reaction"
    if len(path) == 4 and path[:3] == ("system", "space", "nodes"):
        return "node"
    if len(path) == 4 and path[:3] == ("system", "space", "edges"):
        return "edge"
    return None


def _dv_routes(holder):
    """[(route name, level path, external path or None, as file)] for a defect inside the dictionary at `holder`."""
    holder = tuple(holder)
    routes = []
    for ln in range(len(holder) + 1):
        lp = holder[:ln]
        kind = _dv_kind(lp)
        if kind is None:
            continue
        routes.append(("%s_from_dict" % kind, lp, None, False))
        if kind in DV_LOADERS:
            routes.append(("load_rd%s(json file)" % kind, lp, None, True))
        for ext in DV_EXTERNAL:
            if len(ext) > len(lp) and ext[:len(lp)] == lp and holder[:len(ext)] == ext:
                routes.append(("%s_from_dict:%s-as-file-path" % (kind, ext[-1]), lp, ext, False))
    return routes


def _dv_call(S, route):
    """Runs one route on the (possibly defective) script dictionary S."""
    name, lp, ext, as_file = route
    kind = _dv_kind(lp)
    S = copy.deepcopy(S)
    with tempfile.TemporaryDirectory(prefix="c20_") as tmp:
        if ext is not None:
            holder = _node(S, ext[:-1])
            path = os.path.join(tmp, "%s.json" % ext[-1])
            with open(path, "w", encoding="utf-8") as f:
                json.dump(holder[ext[-1]], f)
            holder[ext[-1]] = path
        d = _node(S, lp)
        if as_file:
            path = os.path.join(tmp, "top.json")
            with open(path, "w", encoding="utf-8") as f:
                json.dump(d, f)
            return DV_LOADERS[kind](path)
        return READERS[kind](d)


def _dictvalue(case, out):
    space, fname = case["space"], case["field"]
    only = case.get("only")
    spec = [f for f in _dv_fields(space) if f[0] == fname and f[1] == case["path"]][0]
    _name, holder, key, valids, bads = spec
    base = d_script(space)
    routes = _dv_routes(holder)

    def with_value(v):
        S = copy.deepcopy(base)
        nd = _node(S, holder)
        if isinstance(v, str) and v == ABSENT:
            nd.pop(key, None)
        else:
            nd[key] = copy.deepcopy(v)
        return S
    where = "/".join(str(p) for p in holder) or "(top level)"
    k = 0
    for route in routes:
        rkey = "%s:dict-value:%s:%s" % (P, fname, route[0])
        accept(out, "dict-value", rkey, "%s on the complete script dictionary over a %s" % (route[0], space),
               lambda: _dv_call(base, route))
        for v in valids:
            accept(out, "dict-value", rkey, "%s with %r: %r in the dictionary at %s" % (route[0], key, v, where),
                   lambda: _dv_call(with_value(v), route))
        for bad in bads:
            item = {"route": route[0], "value": bad}
            if not _selected(only, item):
                continue
            if k % 6 == 0 and valids:
                accept(out, "dict-value", rkey, "%s with a valid %r (replayed between invalid inputs)" % (route[0], key),
                       lambda: _dv_call(with_value(valids[(k // 6) % len(valids)]), route))
            k += 1
            reject(out, "dict-value", rkey,
                   "%s with %r: %r in the dictionary at %s of a script over a %s" % (route[0], key, bad, where, space),
                   lambda: _dv_call(with_value(bad), route), item)
    return True


# ---- per-species override dictionaries of the wrong length ("... length must match the system size") ---------------

OVERRIDE_ROUTES = ("RDSystem(state=dict)", "set_default_state", "generate_system_state",
                   "RDSystem(chemostats=dict)", "set_default_chemostats", "generate_system_chemostats")


def _overridelen(case, out):
    spec, nsp, route = case["space"], case["nsp"], case["route"]
    only = case.get("only")
    net = _net(nsp, 2)
    space = _space(spec)
    n = space.size()
    is_state = "state" in route
    key = "%s:override-length:%s" % (P, route)

    def value(ln):
        if is_state:
            return UnitArray([float(p) for p in _primes(ln + 3)[3:]], "molecule")
        return [1] * ln

    def attempt(s, d):
        if route == "RDSystem(state=dict)":
            return lambda: RDSystem(net, space, state=d)
        if route == "RDSystem(chemostats=dict)":
            return lambda: RDSystem(net, space, chemostats=d)
        if route == "set_default_state":
            return lambda: s.set_default_state(d)
        if route == "set_default_chemostats":
            return lambda: s.set_default_chemostats(d)
        if route == "generate_system_state":
            return lambda: generate_system_state(net, space, UnitsSystem(), d)
        return lambda: generate_system_chemostats(net, space, d)
    s = _explicit_system(net, space)
    # the valid route (right length) is the subject of C13 and does not work on every tree: soft
    try:
        attempt(_explicit_system(net, space), {net.species[0].label: value(n)})()
        out.count("valid_accepted:override-length")
    except Exception:
        out.count("valid_override_route_unavailable")
    for i in range(nsp):
        lab = net.species[i].label
        for ln in (0, 1, 2, n - 1, n + 1, 2 * n):
            if ln == n or ln < 0:
                continue
            item = {"species": lab, "len": ln}
            if not _selected(only, item):
                continue
            sys_ = s if route.startswith("set_default") else None
            reject(out, "override-length", key,
                   "%s with {%r: %s of length %d} on a %s (%d cells)" % (route, lab, "UnitArray" if is_state else "list",
                                                                         ln, _space_tag(spec), n),
                   attempt(s, {lab: value(ln)}), item, sys_)
    return True


# =====================================================================================================
# dispatch, enumeration
# =====================================================================================================

SUBS = {"keys": _keys, "dim": _dim, "usym": _usym, "gridsize": _gridsize, "envlen": _envlen, "envidx": _envidx,
        "enum": _enum, "edgeidx": _edgeidx, "cgperiodic": _cgperiodic, "rxspecies": _rxspecies, "mandatory": _mandatory, "dictvalue": _dictvalue, "overridelen": _overridelen, "pos": _pos, "species": _species, "reaction": _reaction, "cgmap": _cgmap}


def _run_case(case):
    out = Out()
    nt = False
    try:
        nt = bool(SUBS[case["sub"]](case, out))
    except Exception as e:
        import traceback
        tb = traceback.extract_tb(e.__traceback__)
        last = tb[-1] if tb else None
        out.add("%s:checker:%s:unexpected-exception" % (P, case["sub"]),
                "%s (at %s:%s)" % (_exc(e), getattr(last, "filename", "?").split("/")[-1], getattr(last, "lineno", "?")))
    return out, nt


def check_case(case):
    return [(k, w) for k, w, _o in _run_case(case)[0].result()]


def _grid_specs(tier):
    shapes = L.all_shapes(3)
    if tier == "thorough":
        out = []
        for (w, h, d) in shapes:
            out.append({"type": "grid", "w": w, "h": h, "d": d, "per": 0})
            out.append({"type": "grid", "w": w, "h": h, "d": d, "per": 1})
        return out
    sel = [(1, 1, 1), (2, 1, 1), (1, 3, 1), (1, 1, 2), (3, 2, 1), (2, 1, 3), (1, 2, 2), (2, 2, 2), (3, 3, 3)]
    out = [{"type": "grid", "w": w, "h": h, "d": d, "per": 0} for (w, h, d) in sel]
    out.append({"type": "grid", "w": 3, "h": 1, "d": 2, "per": 1})
    return out


def _graph_specs():
    return [{"type": "graph", "n": n} for n in (1, 2, 3, 4)]


def _spaces(tier):
    sp = []
    thorough = tier == "thorough"
    # --- positions (heaviest first)
    pos = []
    for spec in _grid_specs(tier) + _graph_specs():
        for api, (ts, tp, mut) in ACCESSORS.items():
            if tp and _applicable(api, spec):
                pos.append({"sub": "pos", "space": spec, "api": api, "nsp": 2, "tier": tier})
    sp.append(("pos: (space, API) over %s grids + graphs of 1..4 nodes x every position-taking API: every "
               "out-of-range linear index (-size..-1, size..%s; float and numpy forms) and coordinate triple (each "
               "axis at -1 and at dim, every cell, tuple/list/object/ndarray), every species"
               % ("all {1,2,3}^3 shapes x {reflecting, periodic}" if thorough else "10 selected", "2*size*nspecies"
                  if thorough else "2*size"), pos, 2))
    # --- species / reactions
    spc = []
    specs = ([{"type": "grid", "w": 2, "h": 1, "d": 1, "per": 0}, {"type": "grid", "w": 3, "h": 2, "d": 1, "per": 1},
              {"type": "graph", "n": 1}, {"type": "graph", "n": 3}])
    if thorough:
        specs += [{"type": "grid", "w": 1, "h": 1, "d": 1, "per": 0}, {"type": "grid", "w": 2, "h": 2, "d": 2, "per": 0},
                  {"type": "graph", "n": 2}, {"type": "graph", "n": 4}]
    for spec in specs:
        for nsp in (1, 2, 3):
            for api, (ts, tp, mut) in ACCESSORS.items():
                if ts and _applicable(api, spec):
                    spc.append({"sub": "species", "space": spec, "api": api, "nsp": nsp})
            for api in REACTION_APIS:
                spc.append({"sub": "reaction", "space": spec, "api": api, "nsp": nsp})
    sp.append(("species: (space, nspecies in 1..3, API) x unknown labels / out-of-range indices (int, float, numpy) / "
               "foreign Species objects at every cell; unknown reactions in compute_reaction_rates / apply_reaction",
               spc, 4))
    # --- coarse-graining maps
    cgs = []
    for (w, h) in [(1, 1), (2, 1), (3, 1), (4, 1), (2, 2)]:
        n = w * h
        envs = [[0] * n]
        if n >= 2:
            envs.append([0] * (n // 2) + [1] * (n - n // 2))
        if n >= 3:
            envs.append([i % 2 for i in range(n)])
        for env in envs:
            for route in ("coarsegrain_system", "simulate_script"):
                cgs.append({"sub": "cgmap", "w": w, "h": h, "env": env, "route": route})
    sp.append(("cgmap: (grid in 1x1,2x1,3x1,4x1,2x2, environment map, route) x every map of {-2..2}^n that the "
               "reference predicate mc/ref/cg.classify calls invalid + non-integral float entries + wrong lengths",
               cgs, 1))
    # --- environment index beyond the list
    evs = []
    especs = ([{"type": "grid", "w": 2, "h": 1, "d": 1, "per": 0}, {"type": "grid", "w": 1, "h": 1, "d": 1, "per": 0},
               {"type": "grid", "w": 2, "h": 2, "d": 1, "per": 1}, {"type": "graph", "n": 1}, {"type": "graph", "n": 3}])
    if thorough:
        especs += [{"type": "grid", "w": 3, "h": 1, "d": 2, "per": 0}, {"type": "graph", "n": 2}, {"type": "graph", "n": 4}]
    for spec in especs:
        for nenv in (1, 2, 3):
            for api in ENVIDX_APIS:
                evs.append({"sub": "envidx", "space": spec, "nenv": nenv, "api": api})
    sp.append(("envidx: (space, number of environments 1..3, point of use) x every cell x environment index in "
               "{nenv, nenv+1}", evs, 3))
    # --- dimensions
    dims = []
    for field in FIELDS:
        dims.extend(_dim_cases(field))
    sp.append(("dim: (field, route, form) x wrong dimensions (26 cube offsets; + the 3 other reaction orders for rate "
               "constants) x 2 unit systems", dims, 4))
    # --- dictionary keys
    sp.append(("keys: one case per (top-level reader, base dictionary, mode) x every reader dictionary inside it x "
               "(plain: unknown keys %r, every alias pair, every mandatory key; misplaced-*: EVERY key legal for another "
               "kind of dictionary, presented after a valid dictionary of every kind has been parsed in this process in "
               "forward order (twice: second pass) / reverse order / right after a dictionary of the kind that owns "
               "the key)" % (UNKNOWN_KEYS,),
               [{"sub": "keys", "top": name, "mode": mode} for mode in reversed(KEY_MODES) for name, _r, _m in TOPS
                if thorough or mode in ("plain", "misplaced-after-all") or name not in HEAVY_TOPS], 1))
    sp.insert(0, sp.pop())      # the longest cases first (load balance)
    # --- unit symbols
    us = []
    for route in _usym_routes():
        for slot in SLOTS:
            c = {"sub": "usym", "route": route, "slot": slot}
            if route["route"] == "reader-units" and not thorough:
                c["cap"] = 12
            us.append(c)
    sp.append(("usym: (route, slot) x unsupported symbols (valid symbols of the other slots, litre / molar symbols, "
               "junk, case flips)%s" % ("" if thorough else "; nested reader sites use the first 12 symbols"), us, 6))
    # --- small ones
    small = []
    for route in ("ctor", "rdgridspace_from_dict", "rdgridspace_from_dict-alias", "rdspace_from_dict",
                  "rdsystem_from_dict", "rdsystem_from_dict-alias", "rdscript_from_dict", "load_rdspace(json)",
                  "load_rdspace(json)-alias", "load_rdsystem(json)"):
        small.append({"sub": "gridsize", "route": route})
    shapes = [(1, 1, 1), (2, 1, 1), (1, 2, 3), (3, 2, 1), (2, 2, 2)] if not thorough else L.all_shapes(3)
    for shape in shapes:
        for route in ("ctor", "setter", "rdgridspace_from_dict", "rdspace_from_dict", "rdsystem_from_dict"):
            small.append({"sub": "envlen", "shape": list(shape), "route": route})
    for which, routes in ENUM_ROUTES.items():
        for route in routes:
            small.append({"sub": "enum", "which": which, "route": route})
    for n in (1, 2, 3, 4):
        small.append({"sub": "edgeidx", "n": n})
    for shape in CGP_SHAPES:
        for route in CGP_ROUTES:
            small.append({"sub": "cgperiodic", "shape": list(shape), "route": route})
    for route in RX_ROUTES:
        for form in ("string", "dict"):
            small.append({"sub": "rxspecies", "route": route, "form": form})
    for space in ("grid", "graph"):
        for f in _dv_fields(space):
            if not thorough and f[0].startswith("units@") and f[1] and f[1][-1] not in (0, "system", "network", "space"):
                continue        # quick: the "units" word at the first species / reaction / node / edge only
            if not thorough and space == "graph" and not (f[0].startswith("units@") or f[0] == "space.type"):
                continue        # quick: the script / system level fields over the grid base only
            small.append({"sub": "dictvalue", "space": space, "field": f[0], "path": f[1]})
    for spec in ([{"type": "grid", "w": 2, "h": 1, "d": 1, "per": 0}, {"type": "grid", "w": 3, "h": 2, "d": 1, "per": 0},
                  {"type": "graph", "n": 3}] + ([{"type": "grid", "w": 1, "h": 1, "d": 1, "per": 0}, {"type": "graph", "n": 1},
                                                 {"type": "graph", "n": 4}] if thorough else [])):
        for nsp in (1, 2, 3):
            for route in OVERRIDE_ROUTES:
                small.append({"sub": "overridelen", "space": spec, "nsp": nsp, "route": route})
    for base in MAND_BASES:
        for top in MAND_TOPS:
            for route in ("from_dict", "load"):
                if route == "load" and top not in MAND_LOADERS:
                    continue
                if _mand_extract(_mand_base(base), top) is not None:
                    small.append({"sub": "mandatory", "base": base, "top": top, "route": route})
    sp.append(("small: grid sizes 0/-1 per axis x routes; cell_env lengths n-1/n+1/0/2n x shapes x routes x "
               "containers; unknown boundary condition / axis / sampling policy / init_state_processing / empty "
               "environment list / environment 'default' x routes; RDGraphSpace.check() with an edge end outside the graph "
               "(graphs of 1..4 nodes); coarse-graining (coarsegrain_grid / coarsegrain_system / simulate_script / simulate) "
               "of 4x1x1, 2x2x1, 3x2x2 grids with each of the 7 non-reflecting boundary settings (full and partial "
               "dictionaries) x valid maps; grid sizes now every value of integer size <= 0 %r x 10 routes incl. JSON files"
               "; reactions naming an undeclared species (substrate / product / both sides; only, first, second term, "
               "with a coefficient, empty other side; 5 unknown labels incl. wrong case; string and dict stoichiometry; "
               "alone / first / second reaction) x RDNetwork, network / system / script dictionaries and JSON files; "
               "every documented mandatory key (script system, t_sample; system network; network species; species "
               "label; reaction equation; unit array value, units) removed under all its spellings from bare / minimal "
               "/ alias-spelt / complete dictionaries, at every nesting level, through *_from_dict and load_* files; "
               "unknown VALUES of the enumerated / typed dictionary fields (space type, boundary condition, sampling "
               "policy, init_state_processing, t_max word, units word at every level, network / space / system given as "
               "a number ...: wrong case, misspelling, empty, other word, number, None, list) through every enclosing "
               "*_from_dict, load_* file and nested-as-file-path route"
               % (BAD_SIZES,), small, 2))
    return sp


_SPACES = None
_LIB = None


def _work(job):
    si_, lo, hi = job
    name, cases, _ = _SPACES[si_]
    acc = core.Acc()
    for case in cases[lo:hi]:
        out, nt = _run_case(case)
        acc.add(states=1, transitions=out.ops, traces=1, evaluations=out.evals, nontrivial=1 if out.items else 0)
        acc.count("invalid_inputs:" + case["sub"], out.items)
        acc.count("base_cases:" + case["sub"])
        for k, v in out.counts.items():
            acc.count(k, v)
        for key, what, only in out.result():
            c = dict(case)
            if only is not None:
                c["only"] = only
            acc.violation(key, what, c)
        if lo == 0 and acc.states == 1:
            acc.sample(case)
    return acc.pack()


def run(ctx):
    global _SPACES, _LIB
    import ctypes
    CG.selftest()
    L.selftest()
    _LIB = ctypes.CDLL(eng.so_path())      # build + load once in the parent; forked workers inherit the mapping
    _SPACES = _spaces(ctx.tier)
    jobs = []
    for i, (name, cases, chunk) in enumerate(_SPACES):
        for lo, hi in pool.chunks(len(cases), chunk):
            jobs.append((i, lo, hi))
    res = pool.pmap(_work, jobs, timeout=300)
    per, inv = {}, {}
    for job, r in zip(jobs, res):
        if isinstance(r, pool.Crash):
            i, lo, hi = job
            sub = _SPACES[i][1][lo]["sub"]
            site = "engine" if sub in ("envidx", "cgmap", "cgperiodic") else "checker"
            ctx.violation("%s:%s:%s:worker-%s" % (P, site, sub, r.kind), r.detail[-1500:],
                          {"job": list(job), "cases": _SPACES[i][1][lo:hi][:3]})
            continue
        core.merge(ctx, r)
        per[job[0]] = per.get(job[0], 0) + r["n"][0]
        inv[job[0]] = inv.get(job[0], 0) + sum(v for k, v in r["counts"].items() if k.startswith("invalid_inputs:"))
    for i, (name, cases, chunk) in enumerate(_SPACES):
        ctx.subspace(name, len(cases), per.get(i, 0), exhaustive=(per.get(i, 0) == len(cases)),
                     invalid_inputs_presented=inv.get(i, 0))
    ctx.rule("every case of each listed sub-space is enumerated in fixed order on the real code; a case is one "
             "(base model, site/route) and carries ALL invalid inputs of its class for that site (counters "
             "invalid_inputs:<sub>); every site is first exercised with its valid counterpart (valid_accepted:*); "
             "non-trivial = the case presented at least one invalid input; process history is produced explicitly "
             "inside each case (valid dictionaries of every kind before misplaced keys; valid calls replayed between "
             "invalid ones on the same objects: counters valid_interleaved:*, history_calls:*)")
    ctx.assume("alias tables / mandatory keys as written in this module from documentation/json_and_dict_doc.rst and "
               "the readers' declared synonym lists; names on which documentation and code disagree are not used; "
               "dimensionless quantity TEXT ('1.5') given to a dimensioned field, u-spellings, blank-padded symbols, "
               "numpy integers / integral floats / bools in coarse-graining maps, 'floor' as init_state_processing, "
               "negative environment indices and Reaction objects foreign to the network are not claimed; "
               "validity of coarse-graining maps is decided by mc/ref/cg.classify (self-tested in this run)")


def replay(case):
    return check_case(case)
